#!/usr/bin/env python3
"""Regenerates /verif/MANIFEST.json from the tables below (run by hand after changing what is claimed)."""
import json
import os

VERIF = os.path.dirname(os.path.dirname(os.path.abspath(__file__)))

HOOK_COMMIT = "830e034"

CLAIMED = {
    "C01": ("E1+E2", "Kani/CBMC bounded model checking of the real crate + MIR symbolic execution decided by z3/cvc5",
            "bounded model checking (kernel scope): panic-freedom of the scalar kernels a compilation feeds with author-controlled numbers "
            "(get_indent, @for ranges, Number/Numeric/colour kernels: every f64 / i64 input within the stated bounds) and of every overflow/"
            "index assertion inside the string/list/random closures; the parser and evaluator are outside (stated in evidence)"),
    "C02": ("E2", "symbolic execution of Context::lock_loading / unlock_loading and of the @use/@forward/@import arms of handle_item (MIR), decided by z3 and cvc5",
            "bounded model checking (lock scope): a loop error is raised exactly when the file's name is already registered as being loaded, unlock removes the same key, "
            "and every file handed out by find_file is unlocked exactly once on every Ok path of the three arms (so only a real cycle meets a lock); URL spelling "
            "normalisation, meta.load-css and termination are outside"),
    "C03": ("E2", "symbolic execution of CssData::load_module and of the @use/@forward arms of handle_item (MIR), decided by z3 and cvc5",
            "bounded model checking (cache scope): one inductive step from an arbitrary cache: the module initialiser runs only on a miss, exactly once, "
            "and its result is cached under the same key; the arms key the cache by the resolved path of the file found (not by the URL as written); "
            "canonicalisation of the path itself is outside"),
    "C04": ("E2", "symbolic execution of Context::find_file / do_find_file and FsLoader::find_file (MIR) over a nondeterministic loader and file system; path feasibility decided by z3 and cvc5",
            "bounded model checking (lookup scope): the candidate tables are the documented lists in order (import table exactly for @import); the first existing candidate / "
            "load path wins for every combination of present and absent files among up to 3 candidates and 3 load paths; an @import that finds nothing becomes a plain CSS "
            "import only for http(s)://, //, *.css, url() targets; URL normalisation is outside"),
    "C39": ("E2", "symbolic execution of Context::find_file / do_find_file and FsLoader::find_file (MIR) with a failure injected at every loader / open / read / lock call; z3 and cvc5",
            "bounded model checking (lookup scope): every failing loader, open, read or lock call makes the lookup return an error (never Ok(None) or a later candidate); "
            "the evaluator's callers and whole compilations are outside"),
    "C38": ("E2", "symbolic execution of compile_scss, compile_scss_path, compile_value, Context::with_format, Context::transform, FsLoader::for_path and css::Property::write (MIR) "
            "with every callee an event and every fallible callee forking into Ok and Err; path feasibility decided by z3 and cvc5",
            "bounded model checking (wrapper scope): on every path the entry points hand the bytes / path / format they were given, unchanged, to one pipeline "
            "(lock, parse, handle_parsed into a fresh CssData in the context's scope, unlock, into_buffer with that scope's format) and return its result unchanged; "
            "compile_value and a declaration both print value.format(<the format given>).to_string(); what the pipeline computes (parser, evaluator, printer) is outside"),
    "C34": ("E2", "symbolic execution of the expose() function of every sass: module, of the helpers they call, of the FUNCTIONS initialiser, of the meta.call closure, "
            "get_function() and the Call arm of do_evaluate (MIR), the literal name tables unrolled row by row; path feasibility decided by z3 and cvc5",
            "bounded model checking (table scope): each global name the Sass documentation pairs with a module function is bound, in the global table, to the function object "
            "the module itself holds (so parameter names, defaults and body are shared by construction) and is not redefined afterwards; each module's expose() gets its own module; "
            "meta.call with a function reference calls exactly the referenced function object with the arguments given, and get-function and a direct call make the same two-step lookup "
            "(scope chain, then built-ins); abs/min/max/round/grayscale/invert (CSS-aware global forms) are outside"),
    "C22": ("E2", "symbolic execution of Opt::collect_pos / collect_neg, of one level of no_placeholder for SelectorSet, Selector, CompoundSelector and Pseudo, and of css::Rule::write (MIR); "
            "the recursive calls return every Opt value; path feasibility decided by z3 and cvc5",
            "bounded model checking, inductive step over the selector tree (filter scope): the placeholder filter is a sound three-valued algebra — a list is a union, a compound an "
            "intersection, :not() a complement, a placeholder matches nothing, `everything` is never kept as an empty selector — and Rule::write emits nothing for `nothing` and only the "
            "filtered selectors otherwise; collect_pos / collect_neg for every sequence of up to 3 elements; selector parsing, nesting and printing are outside"),
    "C40": ("E2", "symbolic execution of the rsass-cli binary's Args::run, main and From<StyleArg> (MIR of the binary crate, dumped per run) and of FsLoader::push_path; "
            "library calls and stdout are forking stubs; path feasibility decided by z3 and cvc5",
            "bounded model checking (wrapper scope): for 0..2 inputs and every outcome of opening, compiling and writing, each input in order goes through for_path, push_path(--load-path) "
            "if given, with_format(Format{--style, --precision}), transform, and exactly the bytes returned go to stdout; the first failure ends the run with Err, which main turns into "
            "`Error: …` on stderr and a failure exit code, Ok into exit 0; --load-path is appended after the input file's directory; clap's parsing is covered by native probes only"),
    "C07": ("E2", "symbolic execution of the tail of CssData::into_buffer (MIR) over an arbitrary written buffer (symbolic length, last bytes, is_ascii and style; Vec<u8> modelled by length and "
            "trailing bytes); bit-vector obligations decided by z3 and cvc5 on every path",
            "bounded model checking (frame scope): for every written buffer with up to 4 trailing newlines the result is empty or ends with exactly one newline; it is the buffer itself exactly "
            "when that is pure ASCII and otherwise the buffer behind `@charset \"UTF-8\";` (expanded) or a byte-order mark (compressed); only trailing newlines and one `;` (compressed) are "
            "removed; what the item writers put into the buffer (brace balance, line breaks inside compressed output) is outside"),
    "C06": ("E2", "symbolic execution of the closures' MIR, obligations decided by z3 and cvc5",
            "bounded model checking (sequential scope): one inductive step of unique-id() from an arbitrary counter state; random($limit) in "
            "[1,limit] for every limit; concurrency is outside the claim"),
    "C11": ("E1+E2", "Kani/CBMC on the unit table and comparisons; MIR symbolic execution of the + / - unit selection and Numeric::partial_cmp",
            "bounded model checking: the complete 31x31 unit conversion table against an independent CSS Values 4 table, and comparison "
            "across units for all finite magnitudes on representative pairs"),
    "C12": ("E1+E2", "Kani/CBMC on number and colour equality; MIR symbolic execution of Numeric::partial_cmp",
            "bounded model checking: symmetry / reflexivity / trichotomy of number, numeric and rgba colour equality for ALL non-NaN doubles"),
    "C13": ("E1+E2", "Kani/CBMC bounded model checking of the real generic OrderMap (one instantiation); MIR symbolic execution of map.merge's do_merge, map.set's set_inner, do_deep_merge, the map.get/has-key lookups and the map-literal arm",
            "bounded model checking, inductive step: one map operation from an arbitrary valid map of up to 3 entries, keys with a coarse =="),
    "C14": ("E1+E2", "Kani on is_true; MIR symbolic execution (z3+cvc5) of Operator::eval, BinOp::eval and the unary-not arm",
            "bounded model checking: truthiness table over every value kind; and/or operand selection by identity and short-circuit "
            "evaluation order for every operand kind; the `not` arm (known finding for non-boolean operands)"),
    "C16": ("E2", "symbolic execution of Scope::set_variable / define_global and of handle_item's @for / @each / @while arms (MIR), obligations decided by z3 and cvc5",
            "bounded model checking (flag-rule scope): !default writes only over an absent or null binding, !global goes through define_global to the "
            "root scope, a plain assignment writes the current scope's table, built-in modules refuse assignment; @for / @while bind and run in a sub-scope, "
            "@each saves and restores the previous values of its variables; the scope-creation rules of rules, mixins and functions are outside; one recorded finding (an unflagged assignment shadows an enclosing local)"),
    "C17": ("E1+E2", "Kani/CBMC bounded model checking of the real ValueRange; MIR symbolic execution of SrcRange::evaluate",
            "bounded model checking (@for scope): the visited sequence for all from,to in [-6,6] and the iteration count at the i64 limits"),
    "C26": ("E2", "symbolic execution of the closures' MIR, obligations decided by z3 and cvc5",
            "bounded model checking (index scope): slice/insert index arithmetic for ALL i64 indices and every length up to 2^32"),
    "C28": ("E2", "symbolic execution of list::index_of and the set-nth / index / append / join / separator closures' MIR, decided by z3 and cvc5",
            "bounded model checking (index and selection scope): nth/set-nth index arithmetic for ALL i64 n and every length up to 2^32; list.index "
            "returns the first `==` position for lists and maps (as pair lists) of up to 3 entries; separator/bracket selection of append/join"),
    "C29": ("E1+E2", "Kani/CBMC on Number::ceil/floor/trunc/round/abs/signum; MIR symbolic execution (z3+cvc5) of the math closures, Numeric::percentage and find_extreme",
            "bounded model checking (rounding and selection scope): ceil/floor/trunc/round against their order-theoretic definitions for ALL finite doubles; "
            "math.ceil/floor/round/abs/percentage apply exactly that operation and keep the unit; clamp and max/min return the argument their "
            "comparisons select; transcendental functions, math.div and hypot are outside"),
    "C31": ("E1+E2", "Kani/CBMC on constructors and conversions; cvc5 with exact fp.rem on deg_mod's MIR",
            "bounded model checking: channel ranges for all f64 constructor arguments, rgb->hsl/hwb formulas for all 2^24 byte colours, "
            "round trips on a colour lattice, hue in [0,360) for every finite double"),
    "C32": ("E1+E2", "Kani/CBMC on invert / rotate_hue / set_alpha; MIR symbolic execution of the lighten/darken/fade closures",
            "bounded model checking (kernel scope): involution and cancellation laws for all in-range doubles"),
    "C18": ("E2", "symbolic execution of FormalArgs::eval, CallArgs::evaluate, Closure::eval_value and MixinDecl::get (MIR) with forking stubs for the argument containers and the scope; obligations decided by z3 and cvc5",
            "bounded model checking (binding scope): parameters are bound in order to the positional value, else the named value, else the default evaluated in the "
            "callee's argument scope after the parameters to its left; missing, too many and left-over named arguments are errors; the rest parameter takes what is left; "
            "functions and mixins bind in a child of their definition-site scope and evaluate their own body there, mixin arguments are evaluated at the call site; "
            "a keyword forwarded through $args... or a map splat that collides with an explicit named argument is an error; "
            "which @return is reached and @content are outside"),
    "C20": ("E2", "symbolic execution of RuleDest::push_item / commit_rule and of the destinations' start_atmedia / start_atrule (MIR); z3 and cvc5",
            "bounded model checking (bubbling scope): an item that cannot live inside a style rule is handed unchanged to the parent after the declarations collected so far were "
            "committed, later declarations go to a fresh rule with the same selectors, a nested @media / at-rule starts with a rule copied from the parent's selectors; "
            "selector construction, @at-root and media-query merging are outside"),
    "C21": ("E2", "symbolic execution of handle_item's @error arm, of the destination Drop impls and of their start_atmedia / start_atrule methods (MIR); z3 and cvc5",
            "bounded model checking (dispatch scope): a declaration with a non-null value is pushed exactly once or the compilation fails; @error always fails the compilation; "
            "the Drop impls always commit their content; starting a nested @media / at-rule "
            "never takes content out of the parent destination; a failing step of an @each/@for/@while body ends the loop with that error; "
            "one recorded finding (a commit error inside Drop is only printed, so content can be dropped silently)"),
    "C33": ("E2", "symbolic execution of <Formatted<Rgba> as Display>::fmt, Rgba::name, Rgba::from_name, Lookup::from_slice and Rgba::all_zero (MIR) with the byte triple, style and source format symbolic; the name table read from its promoted constant; bit-vector obligations decided by z3 and cvc5",
            "bounded model checking (hex / rgb() text scope): for ALL byte triples the three-digit, six-digit and rgb() forms are written with the right digits in red-green-blue order, "
            "the three-digit form only for multiples of 17; a printed name reads back (Rgba::from_name) as the same three bytes, for ALL byte triples; `transparent` is chosen only for four exactly-zero channels (every f64 quadruple); whether the table's values are the CSS "
            "named colours, rgba()/hsl() text and number formatting are outside"),
    "C36": ("E2", "symbolic execution of handle_item's comment arm and of the @use/@forward module initialiser closures (MIR), obligations decided by z3 and cvc5",
            "bounded model checking (dispatch scope): which loud comments reach the output in which style, that the emitted text is the evaluated comment, and that a "
            "used module is evaluated with the using compilation's format; one recorded finding (compressed style drops /*! comments too); parsing and re-indentation are outside"),
    "C37": ("E2", "symbolic execution of Scope::do_use's prefix branch, Expose::allow_fun/allow_var and the `with` loop of the @use/@forward initialiser closures (MIR); z3 and cvc5",
            "bounded model checking (filter and configuration scope): @forward's show/hide filter is applied with the right list to each kind of member under its prefixed name; "
            "configured variables are defined in the module scope before the module runs and may be configured once; one recorded finding (configuration of a variable the module "
            "does not declare with !default is accepted); namespaces, private members and `as *` are outside"),
}

NOT_APPLICABLE = {
    "C05": "histories of compilations and thread schedules: Kani does not model concurrency and the sequential part needs whole compilations",
    "C08": "relation between two whole compilations (expanded vs compressed): whole-program",
    "C09": "round trip through the plain-CSS parser: nom parser is out of reach",
    "C10": "the kernel is a Display impl interleaving digit extraction with write! into a String and f64: Display (E1: concrete 1.5: no verdict in 200 s); an E2 kernel with the digit string as an exact stack was written late (mirsym/attic/k_number_text.py.txt) but every path-feasibility query drags a chain of fp.roundToIntegral / fp.mul / fp.to_ubv terms and z3 gave no verdict in 900 s even with the digit loop unrolled once; 'printed decimal = correctly rounded binary' needs FP<->Real reasoning no solver here finishes",
    "C15": "precedence and associativity are decided by the nom parser layering",
    "C19": "recursive selector trees of Strings: any harness with one combinator level gave no verdict in 420 s; `&` resolution re-enters the parser",
    "C23": "selector trees: compound-only transitivity took 275 s, one combinator level no verdict in 420 s",
    "C24": "selector algebra over the same trees; append re-enters the parser",
    "C25": "selector parser (nom) and printer (core::fmt)",
    "C27": "CssString::unquote/Display and the parser's escape handling rebuild Strings char by char (CBMC: OOM at 18 GB on 3-byte strings)",
    "C30": "decided by the calc grammar in the nom parser",
    "C35": "metamorphic relation between two parses of rewritten sources: parser",
}


def main():
    checks = []
    for pid, (eng, technique, text) in sorted(CLAIMED.items()):
        checks.append({
            "property_id": pid,
            "quick_cmd": "./check %s --tier quick" % pid,
            "thorough_cmd": "./check %s --tier thorough" % pid,
            "evidence_file": "/verif/evidence/%s.json" % pid,
            "replay_cmd_template": "./check %s --replay {path}" % pid,
            "engine": eng,
            "level_claimed": {"category": "model_checking", "text": text, "design_ref": "DESIGN.md section 4 (%s)" % pid},
            "level_note": "trusted: rustc, Kani 0.68/CBMC 6.11 (bit-precise ints and IEEE floats), z3 5.1 + cvc5 1.0.3 (every E2 query on both), "
                          "the harness bodies/oracles in /verif/kani/src, mirsym's MIR subset semantics, the stubs listed in the evidence file; "
                          "everything outside the stated bounds is outside the claim",
            "technique": technique,
        })
    m = {
        "version": 1,
        "setup_cmd": "./setup.sh",
        "hooks": {
            "guard": "--cfg kaj_rsass_verif",
            "enable": "RUSTFLAGS=\"--cfg kaj_rsass_verif --cap-lints allow\" (set by the checks for `cargo kani` and the native replay build); E2 needs no hooks",
            "baseline_off_cmd": "cd /repo && cargo test --workspace --no-fail-fast --offline",
            "source_commits": [HOOK_COMMIT],
            "add_only": True,
        },
        "engines": [
            {"name": "E1", "path": "/verif/kani", "serves_properties": [p for p, v in CLAIMED.items() if "E1" in v[0]],
             "kind_free_text": "Kani 0.68 proof harnesses (CBMC 6.11 + CaDiCaL) over the real rsass crate via a path dependency; counterexamples replayed natively by /verif/replay"},
            {"name": "E2", "path": "/verif/mirsym", "serves_properties": [p for p, v in CLAIMED.items() if "E2" in v[0]],
             "kind_free_text": "path-wise symbolic executor over rustc's MIR dump of the current tree; obligations in SMT-LIB2 decided by z3 and cvc5 (exact fp.rem for float %)"},
        ],
        "checks": checks,
        "notes": "exit 2 = inconclusive (timeout, OOM, unsupported MIR, non-reproducing counterexample): never reported as held. "
                 "Known findings: /verif/known_findings.json. Seeded breakages: /verif/seeded/.",
        "not_applicable": [{"property_id": k, "reason": v} for k, v in sorted(NOT_APPLICABLE.items())],
    }
    with open(os.path.join(VERIF, "MANIFEST.json"), "w") as f:
        json.dump(m, f, indent=1)
    print("claimed", len(checks), "not applicable", len(NOT_APPLICABLE))


if __name__ == "__main__":
    main()
