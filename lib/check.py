#!/usr/bin/env python3
"""./check <Cxx> [--tier quick|thorough] [--replay <file>]

Decides one property of kaj/rsass by solver-based checking of the real code
(E1: Kani/CBMC harnesses; E2: mirsym over the MIR dump + cvc5/z3).
exit 0: held on everything explored (KNOWN-FINDING lines allowed)
exit 1: VIOLATION property=<id> replay=<path>
exit 2: inconclusive / infrastructure problem (never a verdict)
"""
import json
import os
import sys

sys.path.insert(0, os.path.dirname(os.path.abspath(__file__)))

import kanirun  # noqa: E402
import replay  # noqa: E402
from common import (  # noqa: E402
    EVIDENCE_DIR, REPLAY_DIR, Timer, functions_encoded, load_known, repo_state, seed,
)
from props import PROPS  # noqa: E402


def tier_params(tier):
    if tier == "thorough":
        return {"timeout_s": 3600, "mem_gb": 24, "workers": 6, "features": ["thorough"]}
    return {"timeout_s": 1500, "mem_gb": 16, "workers": 10, "features": []}


def write_replay_file(pid, engine, harness, label, values, features, extra=None):
    os.makedirs(REPLAY_DIR, exist_ok=True)
    n = 0
    while True:
        path = os.path.join(REPLAY_DIR, f"{pid}-{harness}-{n}.json")
        if not os.path.exists(path):
            break
        n += 1
    doc = {
        "property": pid, "engine": engine, "harness": harness, "label": label,
        "values": values, "features": list(features),
    }
    if extra:
        doc.update(extra)
    with open(path, "w") as f:
        json.dump(doc, f, indent=1)
    return path


def clear_replay_files(pid):
    if os.path.isdir(REPLAY_DIR):
        for fn in os.listdir(REPLAY_DIR):
            if fn.startswith(pid + "-"):
                os.unlink(os.path.join(REPLAY_DIR, fn))


def find_playback(res, chk):
    for pb in res["playbacks"]:
        if pb["description"] == chk["description"]:
            return pb
    return None


def resolve_failures(res):
    """Replay every assertion-class playback of a failing harness natively and
    attribute the natively violated labels / panics to Kani's failing checks.
    -> list of {label, location, values, replay, reproduced, has_playback}"""
    runs = []
    seen = set()
    for pb in res["playbacks"]:
        if pb["class"] == "cover":
            continue
        key = tuple(pb["values"])
        if key in seen:
            continue
        seen.add(key)
        rp = replay.replay_both(res["harness"], pb["values"], res["features"])
        labels = set()
        for prof in ("dev", "release"):
            r = rp[prof]
            labels.update(r.get("failed_labels", []))
            if r["outcome"] in ("fail", "crash") and r.get("message"):
                labels.add(r["message"])
        runs.append({"playback": pb, "replay": rp, "labels": labels})
    out = []
    for chk in res["failing"]:
        label = chk["description"]
        own = [r for r in runs if r["playback"]["description"] == label]
        hit = None
        for r in own + runs:
            if any(label == l or label in l or l in label for l in r["labels"] if l):
                hit = r
                break
        if hit is None and own and own[0]["replay"]["reproduced"] and not own[0]["labels"]:
            hit = own[0]  # crashed without a message (abort, stack overflow)
        w = {"label": label, "location": chk["location"], "has_playback": bool(own)}
        if hit is not None:
            w.update({"values": hit["playback"]["values"], "replay": hit["replay"], "reproduced": True})
        elif own:
            w.update({"values": own[0]["playback"]["values"], "replay": own[0]["replay"], "reproduced": False})
        else:
            w.update({"values": None, "replay": None, "reproduced": False})
        out.append(w)
    return out


def match_known(known, pid, harness, label):
    for k in known:
        if k.get("status") != "known" or k.get("property") != pid:
            continue
        if k.get("harness") not in (harness, "*"):
            continue
        labels = k.get("labels") or ([k["label"]] if k.get("label") else [])
        if any(l in label for l in labels):
            return k
    return None


def run_e1(pid, tier, known, log):
    """-> (records, violations, inconclusive, known_hits)"""
    tp = tier_params(tier)
    names = kanirun.harness_list(pid)
    if tier != "thorough":
        names = [n for n in names if not n[0].startswith(pid.lower() + "t_")]
    if not names:
        return [], [], [], []
    src_known = kanirun.known_ids_in_source(pid)
    known_ids = {k["id"] for k in known if k.get("status") == "known"}
    inconclusive = []
    for h, ids in src_known.items():
        for i in ids:
            if i not in known_ids:
                inconclusive.append(f"{h}: known!(\"{i}\") has no 'known' entry in known_findings.json")
    jobs = [(n, tuple(tp["features"])) for n, _ in names]
    log(f"E1: {len(jobs)} Kani harness(es), tier={tier}, {tp['workers']} workers, cap {tp['timeout_s']} s each")
    results = kanirun.run_many(pid, jobs, tp["timeout_s"], tp["mem_gb"], tp["workers"])
    records, violations, known_hits = [], [], []
    second = []
    for res in results:
        rec = dict(res)
        rec["engine"] = "E1"
        rec["witnesses"] = []
        log(f"  {res['harness']}: {res['status']} ({res['wall_s']} s) {res['reason'][:200]}")
        if res["status"] == "inconclusive":
            inconclusive.append(f"{res['harness']}: {res['reason'][:600]}")
        elif res["status"] == "fail":
            all_known = True
            for w in resolve_failures(res):
                label = w["label"]
                k = match_known(known, pid, res["harness"], label)
                if not w["reproduced"]:
                    all_known = False
                    if w["values"] is None:
                        inconclusive.append(f"{res['harness']}: failing check '{label}' has no concrete playback")
                    else:
                        rp = w["replay"]
                        inconclusive.append(
                            f"{res['harness']}: solver counterexample for '{label}' does not reproduce natively "
                            f"(dev={rp['dev']['outcome']}, release={rp['release']['outcome']}): encoding or stub error"
                        )
                elif k is not None:
                    w["known_finding"] = k["id"]
                    known_hits.append((k, res["harness"], label))
                else:
                    all_known = False
                    path = write_replay_file(pid, "E1", res["harness"], label, w["values"], res["features"])
                    w["replay_file"] = path
                    violations.append((res["harness"], label, path))
                rec["witnesses"].append(w)
            if all_known and res["failing"]:
                if res["harness"] in src_known:
                    second.append((res["harness"], tuple(list(res["features"]) + ["exclude_known"])))
                else:
                    inconclusive.append(
                        f"{res['harness']}: fails only on known findings but declares no known!() region to exclude"
                    )
        records.append(rec)
    if second:
        log(f"E1: second pass with known regions assumed away: {[s[0] for s in second]}")
        results2 = kanirun.run_many(pid, second, tp["timeout_s"], tp["mem_gb"], tp["workers"])
        for res in results2:
            rec = dict(res)
            rec["engine"] = "E1"
            rec["pass"] = "second (known regions excluded)"
            rec["witnesses"] = []
            log(f"  {res['harness']} [exclude_known]: {res['status']} ({res['wall_s']} s) {res['reason'][:200]}")
            if res["status"] == "inconclusive":
                inconclusive.append(f"{res['harness']} [exclude_known]: {res['reason'][:600]}")
            elif res["status"] == "fail":
                for w in resolve_failures(res):
                    label = w["label"]
                    if w["reproduced"]:
                        path = write_replay_file(pid, "E1", res["harness"], label, w["values"], res["features"])
                        w["replay_file"] = path
                        violations.append((res["harness"], label, path))
                    elif w["values"] is None:
                        inconclusive.append(f"{res['harness']} [exclude_known]: '{label}' fails without playback")
                    else:
                        inconclusive.append(
                            f"{res['harness']} [exclude_known]: counterexample for '{label}' does not reproduce"
                        )
                    rec["witnesses"].append(w)
            records.append(rec)
    return records, violations, inconclusive, known_hits


def confirm_known(k):
    """A KNOWN-FINDING line is only printed while its committed witness still fails natively."""
    if k.get("engine", "E1") == "E1" and k.get("witness"):
        rp = replay.replay_both(k["witness_harness"] if k.get("witness_harness") else k["harness"], k["witness"])
        return rp["reproduced"], rp
    return True, None


def slim(rec):
    r = {k: v for k, v in rec.items() if k not in ("failing", "playbacks")}
    r["failing_labels"] = [c["description"] for c in rec.get("failing", [])]
    return r


def main(argv):
    if len(argv) < 2:
        print(__doc__)
        return 3
    pid = argv[1].upper()
    tier = os.environ.get("VERIF_TIER", "quick")
    replay_file = None
    i = 2
    while i < len(argv):
        if argv[i] == "--tier":
            tier = argv[i + 1]
            i += 2
        elif argv[i] == "--replay":
            replay_file = argv[i + 1]
            i += 2
        else:
            print("unknown argument", argv[i])
            return 3
    if tier not in ("quick", "thorough"):
        tier = "quick"
    if pid not in PROPS:
        print(f"property {pid} is not claimed (see MANIFEST.json not_applicable)")
        return 3

    def log(msg):
        print(f"[{pid}] {msg}", flush=True)

    if replay_file:
        return do_replay(pid, replay_file, log)

    cfg = PROPS[pid]
    timer = Timer()
    known = load_known()
    clear_replay_files(pid)
    records, violations, inconclusive, known_hits = [], [], [], []
    only = os.environ.get("VERIF_ONLY", "")  # developer switch: E1 or E2 alone (the registered commands run both)
    e2_out = {}

    def e2_job():
        try:
            import mirsym_run
            e2_out["res"] = mirsym_run.run(pid, tier, known, log, write_replay_file)
        except Exception as e:
            import traceback
            traceback.print_exc()
            e2_out["err"] = f"E2 infrastructure error: {e!r}"[:2000]

    e2_thread = None
    if cfg.get("e2") and only != "E1":
        import threading
        e2_thread = threading.Thread(target=e2_job)
        e2_thread.start()
    if only != "E2":
        try:
            r, v, inc, kh = run_e1(pid, tier, known, log)
            records += r
            violations += v
            inconclusive += inc
            known_hits += kh
        except Exception as e:  # infrastructure failure is never a verdict
            inconclusive.append(f"E1 infrastructure error: {e!r}"[:2000])
    if e2_thread is not None:
        e2_thread.join()
        if "err" in e2_out:
            inconclusive.append(e2_out["err"])
        else:
            r, v, inc, kh = e2_out["res"]
            records += r
            violations += v
            inconclusive += inc
            known_hits += kh

    printed = set()
    known_out = []
    for k, harness, label in known_hits:
        if k["id"] in printed:
            continue
        printed.add(k["id"])
        print(f"KNOWN-FINDING: property={pid} {k['id']}: {k['what']}", flush=True)
        known_out.append({"id": k["id"], "what": k["what"], "harness": harness, "label": label})
    for harness, label, path in violations:
        print(f"VIOLATION property={pid} replay={path}", flush=True)
        log(f"  violated: {harness}: {label}")
    for inc in inconclusive:
        log(f"INCONCLUSIVE: {inc}")

    decided = [r for r in records if r["status"] in ("pass", "fail")]
    nontrivial = {
        (r["harness"], tuple(r.get("features", [])))
        for r in decided
        if r.get("covers") and all(c["status"] == "SATISFIED" for c in r["covers"])
    }
    e2_paths = sum(int(r.get("paths", 0) or 0) for r in records if r.get("engine") == "E2" and r["status"] in ("pass", "fail"))
    native_runs = sum(len(r.get("witnesses", [])) for r in records)
    for r in records:
        for ob in r.get("obligations", []) or []:
            lf = ob.get("lifted")
            if isinstance(lf, dict):
                native_runs += int(lf.get("probes", 1) or 1)
    for r in records:
        for n in r.get("notes", []) or []:
            m = __import__("re").match(r"translator validation: (\d+) concrete inputs", str(n))
            if m:
                native_runs += int(m.group(1))
    n_checks = sum(r.get("n_checks", 0) for r in records)
    n_success = sum(r.get("n_checks_success", 0) for r in records)
    samples = [slim(r) for r in records]
    coverage = {
        "evaluations": n_checks,
        "distinct_nontrivial": len([n for n in nontrivial if True]) - sum(1 for r in decided if r.get("engine") == "E2" and (r["harness"], tuple(r.get("features", []))) in nontrivial) + e2_paths,
        "rule": (
            "evaluations = solver-decided checks (Kani check table rows + E2 obligations) this run; "
            "distinct_nontrivial = E1 harnesses that reached a verdict AND whose reachability covers were all SATISFIED "
            "(non-vacuous) + distinct symbolic paths of the E2 kernels that reached a return and carry decided obligations"
        ),
        "states": max(1, e2_paths + sum(1 for r in decided if r.get("engine") == "E1")),
        "transitions": max(1, n_checks),
        "traces_validated_against_impl": native_runs,
        "obligations": n_checks,
        "discharged": n_success,
        "harnesses_run": len(records),
        "harnesses_passed": sum(1 for r in records if r["status"] == "pass"),
        "harnesses_failed": sum(1 for r in records if r["status"] == "fail"),
        "harnesses_inconclusive": sum(1 for r in records if r["status"] == "inconclusive"),
        "solver_time_s": round(sum(r.get("solver_time_s", 0) or 0 for r in records), 2),
        "functions_encoded": functions_encoded(cfg.get("functions", [])),
        "bounds": cfg.get("bounds", {}).get(tier, cfg.get("bounds", {}).get("quick", "")),
        "outside_bounds": cfg.get("outside", ""),
        "stubs": cfg.get("stubs", []),
        "engines": cfg.get("engines", []),
        "known_findings_matched": known_out,
        "inconclusive": inconclusive,
        "repo": repo_state(),
        "samples": samples,
        "exhaustive": False,
    }
    ev = {
        "property_id": pid,
        "tier": tier,
        "seed": seed(),
        "level": "model_checking",
        "coverage": coverage,
        "assumptions": cfg.get("assumptions", []),
        "wall_s": timer.s(),
        "violations": len(violations),
    }
    os.makedirs(EVIDENCE_DIR, exist_ok=True)
    with open(os.path.join(EVIDENCE_DIR, f"{pid}.json"), "w") as f:
        json.dump(ev, f, indent=1)
    log(
        f"done: {coverage['harnesses_passed']} passed, {coverage['harnesses_failed']} failed, "
        f"{coverage['harnesses_inconclusive']} inconclusive; {n_checks} checks; {timer.s()} s"
    )
    if violations:
        return 1
    if inconclusive:
        return 2
    return 0


def do_replay(pid, path, log):
    with open(path) as f:
        doc = json.load(f)
    if doc.get("engine") == "E2":
        import mirsym_run
        doc["_path"] = path
        return mirsym_run.replay(doc, log)
    rp = replay.replay_both(doc["harness"], doc["values"], doc.get("features", []))
    log(f"replay {doc['harness']} '{doc['label']}': dev={rp['dev']} release={rp['release']}")
    if rp["reproduced"]:
        print(f"VIOLATION property={pid} replay={path}")
        return 1
    log("witness does not reproduce on the current tree")
    return 0


if __name__ == "__main__":
    sys.exit(main(sys.argv))
