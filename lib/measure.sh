#!/bin/sh
# usage: measure.sh <timeout> <module> harness...   (developer tool: time harnesses in parallel)
T=$1; M=$2; shift 2
cd /verif/kani
export CARGO_NET_OFFLINE=true RUSTFLAGS="--cfg kaj_rsass_verif --cap-lints allow"
i=${VERIF_W0:-0}
for h in "$@"; do
  ( ulimit -v 20000000; /usr/bin/time -f "%es %MKB" timeout $T cargo kani --lib --target-dir /var/tmp/kaj-rsass-verif/kani/w$i --exact --harness $M::kani_proofs::$h -Z stubbing $VERIF_KANI_EXTRA > /tmp/measure_$h.log 2>&1
    echo "$h: $(grep -E 'VERIFICATION|KB$' /tmp/measure_$h.log | tr '\n' ' ') fail=[$(grep -B1 -A1 'Status: FAILURE' /tmp/measure_$h.log | grep Description | grep -v NaN | cut -c1-80 | tr '\n' ';')] $(grep -E '^error' -A5 /tmp/measure_$h.log | head -8)" ) &
  i=$((i+1))
done
wait
