"""Shared helpers for the /verif checks (stdlib only)."""
import hashlib
import json
import os
import re
import subprocess
import time

VERIF = os.path.dirname(os.path.dirname(os.path.abspath(__file__)))
REPO = os.environ.get("VERIF_REPO", "/repo")
RSASS = os.path.join(REPO, "rsass")
CACHE = os.environ.get("VERIF_CACHE", "/var/tmp/kaj-rsass-verif")
# evidence of the registered checks describes /repo; a developer run against a scratch worktree (VERIF_REPO) keeps its own
EVIDENCE_DIR = os.path.join(VERIF, "evidence") if REPO == "/repo" else os.path.join(CACHE, "evidence")
REPLAY_DIR = os.path.join(EVIDENCE_DIR, "replay")
KNOWN_FILE = os.path.join(VERIF, "known_findings.json")

HOOK_RUSTFLAGS = "--cfg kaj_rsass_verif --cap-lints allow"


def base_env():
    env = dict(os.environ)
    env["CARGO_NET_OFFLINE"] = "true"
    env["RUSTFLAGS"] = HOOK_RUSTFLAGS
    env.pop("RUSTUP_TOOLCHAIN", None)
    env.pop("CARGO_TARGET_DIR", None)
    return env


def seed():
    try:
        return int(os.environ.get("VERIF_SEED", "0"))
    except ValueError:
        return 0


def load_known():
    """known_findings.json: committed, never written at run time."""
    if not os.path.exists(KNOWN_FILE):
        return []
    with open(KNOWN_FILE) as f:
        return json.load(f).get("findings", [])


def sha(text):
    return hashlib.blake2b(text.encode(), digest_size=8).hexdigest()


def read(path):
    with open(path) as f:
        return f.read()


def extract_item(path, pattern, max_lines=400):
    """Return the text of the Rust item whose first line matches `pattern`
    (brace-balanced).  Used only to fingerprint what was encoded."""
    try:
        lines = read(path).split("\n")
    except OSError:
        return None
    rx = re.compile(pattern)
    for i, line in enumerate(lines):
        if rx.search(line):
            depth = 0
            seen = False
            out = []
            for l in lines[i : i + max_lines]:
                out.append(l)
                depth += l.count("{") - l.count("}")
                if "{" in l:
                    seen = True
                if seen and depth <= 0:
                    break
                if not seen and l.rstrip().endswith(";"):
                    break
            return "\n".join(out)
    return None


def functions_encoded(specs):
    """specs: list of (rust path, file relative to rsass/src, regex of first line)."""
    out = []
    for rust_path, rel, pattern in specs:
        p = os.path.join(RSASS, "src", rel)
        text = extract_item(p, pattern)
        out.append(
            {
                "function": rust_path,
                "file": os.path.normpath("rsass/src/" + rel),
                "source_blake2b": sha(text) if text else None,
                "found": text is not None,
            }
        )
    return out


def repo_state():
    def git(*a):
        try:
            return subprocess.run(
                ["git", "-C", REPO] + list(a), capture_output=True, text=True
            ).stdout.strip()
        except OSError:
            return ""

    return {
        "head": git("rev-parse", "--short", "HEAD"),
        "dirty_files": [l[3:] for l in git("status", "--porcelain").split("\n") if l.strip()][:20],
    }


class Timer:
    def __init__(self):
        self.t0 = time.time()

    def s(self):
        return round(time.time() - self.t0, 3)


_crate_root = []


def crate_root():
    """Directory holding the kani/, replay/ and shims/ crates.  For /repo it is /verif itself; when VERIF_REPO
    points elsewhere (developer: checking a scratch worktree without touching /repo) a copy with the rsass path
    dependency rewritten is kept under the cache."""
    if REPO == "/repo":
        return VERIF
    if _crate_root:
        return _crate_root[0]
    import shutil
    root = os.path.join(CACHE, "crates")
    for name in ("kani", "replay", "shims"):
        dst = os.path.join(root, name)
        shutil.rmtree(dst, ignore_errors=True)
        shutil.copytree(os.path.join(VERIF, name), dst, ignore=shutil.ignore_patterns("target"))
    for name in ("kani", "replay"):
        t = os.path.join(root, name, "Cargo.toml")
        with open(t) as f:
            txt = f.read()
        with open(t, "w") as f:
            f.write(txt.replace('path = "/repo/rsass"', 'path = "%s"' % RSASS))
    _crate_root.append(root)
    return root
