"""Per-property configuration: what is encoded, the stated bounds, what lies outside."""

KANI_STUBS = [
    "arc-swap replaced by /verif/shims/arc-swap (sequential ArcSwapOption) for the Kani build only",
    "Kani models f64 % f64 nondeterministically: harnesses marked [stub_deg_mod] replace rsass's private deg_mod by "
    "/verif/kani/src/stubs.rs::deg_mod_exact (exact piecewise definition on [-360,720], arbitrary value in [0,360) for "
    "other finite inputs); E2 proves the real deg_mod bit-equal to it from the MIR with cvc5's exact fp.rem (check C31)",
]
TRUST = [
    "rustc, Kani 0.68 translation, CBMC 6.11 bit-precise integer/IEEE-754 model, CaDiCaL",
    "the harness bodies and reference models in /verif/kani/src (reviewed by hand)",
    "CBMC's 'NaN on ...' / float-overflow checks are not Rust failures and are ignored",
]

F_UNIT = [
    ("rsass::value::Unit::dimension", "value/unit.rs", r"pub fn dimension\(&self\) -> Dimension"),
    ("rsass::value::Unit::scale_to", "value/unit.rs", r"pub fn scale_to\(&self, other: &Self\)"),
    ("rsass::value::Unit::scale_factor", "value/unit.rs", r"pub\(crate\) fn scale_factor"),
    ("rsass::value::UnitSet::scale_to", "value/unitset.rs", r"pub fn scale_to\(&self, other: &Self\)"),
    ("rsass::value::UnitSet::scale_to_unit", "value/unitset.rs", r"pub fn scale_to_unit"),
]
F_NUM = [
    ("rsass::value::Number::eq", "value/number.rs", r"impl PartialEq for Number"),
    ("rsass::value::Number::partial_cmp", "value/number.rs", r"impl PartialOrd for Number"),
    ("rsass::value::Numeric::eq", "value/numeric.rs", r"impl PartialEq for Numeric"),
    ("rsass::value::Numeric::partial_cmp", "value/numeric.rs", r"impl PartialOrd for Numeric"),
    ("rsass::value::Numeric::as_unitset", "value/numeric.rs", r"pub fn as_unitset"),
]
F_COLOR = [
    ("rsass::value::Rgba::new", "value/colors/rgba.rs", r"pub fn new\(r: f64"),
    ("rsass::value::colors::rgba::cap", "value/colors/rgba.rs", r"^fn cap\("),
    ("rsass::value::colors::rgba::cmp_chan", "value/colors/rgba.rs", r"^fn cmp_chan\("),
    ("rsass::value::Rgba::cmp", "value/colors/rgba.rs", r"impl Ord for Rgba"),
    ("rsass::value::Hsla::new", "value/colors/hsla.rs", r"pub fn new\("),
    ("rsass::value::colors::hsla::deg_mod", "value/colors/hsla.rs", r"^fn deg_mod\("),
    ("rsass::value::Hwba::new", "value/colors/hwba.rs", r"pub fn new\(hue: f64"),
    ("<Hsla as From<&Rgba>>::from", "value/colors/convert.rs", r"impl From<&Rgba> for Hsla"),
    ("<Rgba as From<&Hsla>>::from", "value/colors/convert.rs", r"impl From<&Hsla> for Rgba"),
    ("<Hsla as From<&Hwba>>::from", "value/colors/convert.rs", r"impl From<&Hwba> for Hsla"),
    ("<Hwba as From<&Rgba>>::from", "value/colors/convert.rs", r"impl From<&Rgba> for Hwba"),
    ("rsass::value::colors::convert::max_min_largest", "value/colors/convert.rs", r"^fn max_min_largest"),
    ("rsass::value::Color::cmp", "value/colors/mod.rs", r"impl Ord for Color"),
]

PROPS = {
    "C01": {
        "engines": ["E1 Kani/CBMC", "E2 mirsym+cvc5/z3"],
        "e2": True,
        "functions": [
            ("rsass::output::Format::get_indent", "output/format.rs", r"pub fn get_indent"),
            ("rsass::value::range::ValueRange::new", "value/range.rs", r"pub fn new\(from: i64"),
            ("<ValueRange as Iterator>::next", "value/range.rs", r"fn next\(&mut self\)"),
            ("rsass::value::Number::into_integer", "value/number.rs", r"pub fn into_integer"),
            ("<&Number as Rem>::rem", "value/number.rs", r"impl Rem for &Number"),
        ] + F_COLOR + F_NUM,
        "bounds": {
            "quick": "get_indent: all len <= 4096 x 3 styles; ValueRange: all i64 from/to, 3 next(); Number/Numeric kernels: all f64 "
                     "(incl. NaN, inf); colour conversions/rotate/set_alpha: all f64 channels; Color::cmp: all 5^8 combinations of "
                     "special channel values {NaN, inf, -1, 0.5, 300} for hsl/hsl and hsl/hwb; Rgba::cmp: all f64",
        },
        "outside": "every panic site in the parser (Span::take asserts, from_utf8().unwrap()), selector algebra (resolve_ref ... unwrap()), "
                   "scope locks, stack depth, error rendering (SourcePos::show), CssString::unquote/Display (char-by-char String building "
                   "is out of CBMC's reach: OOM at 18 GB on 3-byte strings), core::fmt",
        "stubs": KANI_STUBS,
        "assumptions": TRUST,
    },
    "C11": {
        "engines": ["E1 Kani/CBMC", "E2 mirsym+z3/cvc5"],
        "e2": True,
        "functions": F_UNIT + F_NUM + [("rsass::value::UnitSet::is_compatible", "value/unitset.rs", r"pub fn is_compatible")],
        "bounds": {
            "quick": "Unit::scale_to: all 31x31 ordered unit pairs symbolically (28 named units, unitless, 2 unknown), ratios within 1e-12 "
                     "of CSS Values 4; Numeric comparison: ALL finite f64 magnitudes for one representative ordered pair in the time, "
                     "frequency and resolution groups (cm/in needs 40 min and rad/deg gives no verdict in 60 min: not run), for unitless-vs-unit over all 28 named units, and for "
                     "10 representative inconvertible pairs; every ordered in-group pair at magnitude 1 (concrete inputs)",
        },
        "outside": "UnitSet Mul/Div loops (exponent add/subtract per unit; one cancellation step of simplify is decided by E2 k_unitset_simplify), math.div argument plumbing, compound-unit display; "
                   "(the three-way unit selection of + and - in Operator::eval is decided structurally by E2 k_plus_minus_units); an oracle that multiplies symbolic "
                   "magnitudes (multiplier equivalence does not finish in SAT: the ratio itself is decided on the table, its use on "
                   "concrete magnitudes)",
        "stubs": KANI_STUBS,
        "assumptions": TRUST + ["oracle: CSS Values and Units 4 ratio table in /verif/kani/src/oracle.rs"],
    },
    "C12": {
        "engines": ["E1 Kani/CBMC", "E2 mirsym+z3/cvc5"],
        "e2": True,
        "functions": F_NUM + [
            ("rsass::value::Rgba::cmp", "value/colors/rgba.rs", r"impl Ord for Rgba"),
            ("rsass::value::colors::rgba::cmp_chan", "value/colors/rgba.rs", r"^fn cmp_chan\("),
            ("rsass::value::Color::cmp", "value/colors/mod.rs", r"impl Ord for Color"),
            ("rsass::value::Color::eq", "value/colors/mod.rs", r"impl PartialEq for Color"),
        ],
        "bounds": {
            "quick": "Number/Numeric: ALL non-NaN f64 pairs (same unit, unitless vs unit); Rgba colours: all non-NaN channels, two "
                     "channels differing freely (all four: thorough), every notation flag",
        },
        "outside": "lists/maps of depth > 1 (structural recursion over the above), functions, calculations, NaN operands; CssString "
                   "equality across quote kinds (unquote rebuilds Strings char by char: out of reach); hsl/hwb carriers (their "
                   "equality is Rgba equality of the converted colours; the conversions are covered under C31)",
        "stubs": KANI_STUBS,
        "assumptions": TRUST,
    },
    "C13": {
        "engines": ["E1 Kani/CBMC", "E2 mirsym+z3/cvc5"],
        "e2": True,
        "functions": [
            ("rsass::ordermap::OrderMap::insert", "ordermap.rs", r"pub fn insert"),
            ("rsass::ordermap::OrderMap::get", "ordermap.rs", r"pub fn get\(&self"),
            ("rsass::ordermap::OrderMap::get_mut", "ordermap.rs", r"pub fn get_mut"),
            ("rsass::ordermap::OrderMap::remove", "ordermap.rs", r"pub fn remove"),
            ("rsass::ordermap::OrderMap::contains_key", "ordermap.rs", r"pub fn contains_key"),
            ("<OrderMap as PartialEq>::eq", "ordermap.rs", r"impl<K: PartialEq, V: PartialEq> PartialEq for OrderMap"),
            ("sass::functions::map::find_value + get / has_key closures", "sass/functions/map.rs", r"^fn find_value"),
            ("sass::functions::map merge closure (do_merge)", "sass/functions/map.rs", r"fn do_merge"),
            ("sass::Value::do_evaluate (Map arm: map literals)", "sass/value.rs", r"Self::Map\(m\) =>"),
            ("sass::functions::map::set_inner (map.set)", "sass/functions/map.rs", r"^fn set_inner"),
            ("sass::functions::map::do_deep_merge (map.deep-merge)", "sass/functions/map.rs", r"^fn do_deep_merge"),
        ],
        "bounds": {
            "quick": "instantiation OrderMap<Key(u8) with == mod 4, u8>; from an ARBITRARY valid map of exactly 0,1,2,3 entries (symbolic "
                     "keys/values, pairwise non-== keys): one insert / remove / lookup with arbitrary arguments; equality of two "
                     "arbitrary maps up to 2x2; merge loop 1+2 and 2+1 entries",
            "thorough": "as quick plus insert into 4, lookup in 5, equality 3x3",
        },
        "outside": "the map.* closures' argument plumbing, nested-key variants, css::Value as the key type (its == is covered by C12), "
                   "maps with more than 3-5 entries (one inductive step from an arbitrary valid state covers longer histories only "
                   "up to the stated sizes)",
        "stubs": KANI_STUBS,
        "assumptions": TRUST + ["generic code is verified for one instantiation: K = Key(u8) with coarse ==, V = u8"],
    },
    "C14": {
        "engines": ["E1 Kani/CBMC", "E2 mirsym+cvc5/z3"],
        "e2": True,
        "functions": [
            ("rsass::css::Value::is_true", "css/value.rs", r"pub fn is_true"),
            ("rsass::sass::Value::is_true", "sass/value.rs", r"pub fn is_true"),
        ],
        "bounds": {"quick": "one representative of every css::Value / sass::Value kind (18 / 13), numeric payload any f64"},
        "outside": "the parser deciding what is an operand",
        "stubs": KANI_STUBS,
        "assumptions": TRUST,
    },
    "C16": {
        "engines": ["E2 mirsym+z3/cvc5"],
        "e2": True,
        "functions": [
            ("rsass::variablescope::Scope::set_variable", "variablescope.rs", r"pub fn set_variable"),
            ("rsass::variablescope::Scope::define_global", "variablescope.rs", r"pub fn define_global"),
            ("rsass::output::transform::handle_item (Item::For / Each / While arms)", "output/transform.rs", r"Item::For\(name, range, body\) =>"),
            ("rsass::variablescope::Scope::store_local_values / restore_local_values", "variablescope.rs", r"fn store_local_values"),
        ],
        "bounds": {"quick": "Scope::set_variable for ANY name/value, both flags symbolic, the existing binding arbitrary (absent / null / any value kind); define_global one step (inductive over the parent chain)"},
        "outside": "which other transform.rs / eval_body arms create sub-scopes (rules, mixins, functions, @if), loops inside function bodies (eval_body), more than two iterations per loop (same loop body); the Mutex<BTreeMap> itself is an opaque event",
        "stubs": ["Scope::get_or_none returns an arbitrary Option<css::Value>", "Mutex::lock / BTreeMap::insert / define_global are events", "Name::split_module is forced to None (plain name) or Some (module.name)"],
        "assumptions": ["rustc nightly MIR text = the code that is compiled", "mirsym's MIR subset semantics (/verif/mirsym/sym.py)", "z3 5.1 and cvc5 1.0.3 (every query on both)"],
    },
    "C17": {
        "engines": ["E1 Kani/CBMC", "E2 mirsym+z3/cvc5"],
        "e2": True,
        "functions": [
            ("rsass::value::range::ValueRange::new", "value/range.rs", r"pub fn new\(from: i64"),
            ("<ValueRange as Iterator>::next", "value/range.rs", r"fn next\(&mut self\)"),
        ],
        "bounds": {
            "quick": "all from,to in [-6,6] (the property's range), both through/to, with a unit; unitless on spans <= 4; |to-from| <= 3 "
                     "anywhere in i64 including the limits (iteration count)",
        },
        "outside": "@if/@each/@while dispatch in transform.rs, destructuring (SrcRange::evaluate's wiring and the unit conversion of `to` are decided structurally by E2 k_for_bounds)",
        "stubs": KANI_STUBS,
        "assumptions": TRUST,
    },
    "C02": {
        "engines": ["E2 mirsym+z3/cvc5"],
        "e2": True,
        "functions": [
            ("rsass::input::Context::lock_loading", "input/context.rs", r"pub\(crate\) fn lock_loading"),
            ("rsass::input::Context::unlock_loading", "input/context.rs", r"pub fn unlock_loading"),
            ("rsass::output::transform::handle_item (Item::Use / Forward / Import arms)", "output/transform.rs", r"Item::Import\(names, args, pos\) =>"),
            ("rsass::sass::MixinDecl::get (load-css) + handle_item @include arm", "sass/mixin.rs", r"Self::LoadCss =>"),
        ],
        "bounds": {"quick": "one lock_loading / unlock_loading call from an ARBITRARY set of files being loaded (the map's answer is symbolic); the three arms of handle_item "
                            "with every outcome of find_file, parse and the evaluation calls (each Result forks), one or two names per @import"},
        "outside": "URL resolution and spelling (relative()), error paths (a failed compilation keeps its locks), termination of the recursive descent itself (the claim is that every loading site holds the lock while the loaded body is evaluated, which is what makes a cycle meet it)",
        "stubs": ["BTreeMap::insert/remove are events with a symbolic previous entry", "SourceFile::source().name() and path() name the same key (both read data.source.name: checked in the MIR of path())"],
        "assumptions": ["rustc nightly MIR text = the code that is compiled", "mirsym's MIR subset semantics (/verif/mirsym/sym.py)", "z3 5.1 and cvc5 1.0.3"],
    },
    "C03": {
        "engines": ["E2 mirsym+z3/cvc5"],
        "e2": True,
        "functions": [("rsass::output::CssData::load_module", "output/cssdata.rs", r"pub fn load_module"),
                      ("rsass::output::transform::handle_item (Item::Use / Forward arms: cache key)", "output/transform.rs", r"Item::Use\(name, as_n, with, pos\) =>")],
        "bounds": {"quick": "one load_module call from an ARBITRARY cache state, the initialiser's result (Ok/Err) symbolic"},
        "outside": "canonicalisation of the path (`d/../a` vs `a`: FsLoader joins without normalising), the module scopes themselves, @import (not cached by design)",
        "stubs": ["BTreeMap::get/insert are events", "the initialiser closure is an opaque call returning Ok(scope) or Err"],
        "assumptions": ["rustc nightly MIR text = the code that is compiled", "mirsym's MIR subset semantics (/verif/mirsym/sym.py)", "z3 5.1 and cvc5 1.0.3"],
    },
    "C06": {
        "engines": ["E2 mirsym+z3/cvc5"],
        "e2": True,
        "functions": [
            ("sass::functions::string unique_id closure", "sass/functions/string.rs", r"def!\(f, unique_id\(\)"),
            ("sass::functions::math random closure", "sass/functions/math.rs", r"def!\(f, random\("),
            ("sass::functions::check::positive_int", "sass/functions/mod.rs", r"fn positive_int"),
        ],
        "bounds": {"quick": "unique-id(): one call from an ARBITRARY counter state c < u64::MAX; random($limit): every limit in 1..=i64::MAX, fastrand under its documented contract"},
        "outside": "uniqueness under concurrent calls and the LazyLock initialisation race (sequential engine; mutual exclusion is std::sync::Mutex's contract); the float->int step of $limit (Number::into_integer, covered by C01 E1)",
        "stubs": ["fastrand::i64(lo..hi) returns r with lo <= r < hi; fastrand::f64() returns r in [0,1)", "Mutex::lock/guard deref = one abstract cell", "format!/Arguments are opaque events (template constant compared)"],
        "assumptions": ["rustc nightly MIR text = the code that is compiled", "mirsym's MIR subset semantics (/verif/mirsym/sym.py)", "z3 5.1 and cvc5 1.0.3 (every query on both; disagreement = inconclusive)"],
    },
    "C20": {
        "engines": ["E2 mirsym+z3/cvc5"],
        "e2": True,
        "functions": [
            ("<RuleDest as CssDestination>::push_item", "output/cssdest.rs", r"impl CssDestination for RuleDest"),
            ("RuleDest::commit_rule", "output/cssdest.rs", r"fn commit_rule\(&mut self\)"),
            ("rsass::css::SelectorCtx::at_root / nest / get_backref", "css/selectors/context.rs", r"pub\(crate\) fn at_root"),
            ("RuleDest / AtRuleDest / AtMediaDest :: start_atmedia, start_atrule", "output/cssdest.rs", r"fn start_atmedia\(&mut self, args: MediaArgs\) -> AtMediaDest<'_> \{"),
        ],
        "bounds": {"quick": "one push_item / commit_rule / start_* call from an ARBITRARY destination state and for any item (the item kind is symbolic), every outcome of the parent's answer"},
        "outside": "how the selector copy is built and printed (selector trees: C19), merging of nested @media queries (rsass nests them), "
                   "the commit performed by the Drop impls (C21 kernel), anything that needs a whole stylesheet",
        "stubs": ["parent.push_item / commit_rule: Ok or Err", "AtRule -> BodyItem conversion: Ok or Err", "Rule::new / SelectorSet::clone / mem::swap are tracked by identity"],
        "assumptions": ["rustc nightly MIR text = the code that is compiled", "mirsym's MIR subset semantics (/verif/mirsym/sym.py)", "z3 5.1 and cvc5 1.0.3 (every query on both)"],
    },
    "C21": {
        "engines": ["E2 mirsym+z3/cvc5"],
        "e2": True,
        "functions": [
            ("rsass::output::transform::handle_item (Item::Error arm)", "output/transform.rs", r"Item::Error\(value, pos\) =>"),
            ("<RuleDest as Drop>::drop", "output/cssdest.rs", r"impl Drop for RuleDest"),
            ("<AtRuleDest as Drop>::drop", "output/cssdest.rs", r"impl Drop for AtRuleDest"),
            ("<AtMediaDest as Drop>::drop", "output/cssdest.rs", r"impl Drop for AtMediaDest"),
            ("RuleDest / AtRuleDest / AtMediaDest :: start_atmedia, start_atrule", "output/cssdest.rs", r"fn start_atmedia\(&mut self, args: MediaArgs\) -> AtMediaDest<'_> \{"),
            ("rsass::output::transform::handle_item (Property / CustomProperty / NamespaceRule arms)", "output/transform.rs", r"Item::Property\(name, value, pos\) =>"),
            ("rsass::output::transform::handle_item (Item::Each / For / While arms: error propagation)", "output/transform.rs", r"Item::Each\(names, values, body\) =>"),
        ],
        "bounds": {"quick": "the declaration arms of handle_item with every outcome of evaluation, CSS validation and the destination's answer; the @error arm of handle_item for any message/position; each of the three destination Drop impls from an arbitrary destination state, the parent's answer (Ok/Err) symbolic; "
                            "the six start_atmedia / start_atrule methods from an arbitrary destination state; the three loop arms with up to two iterations, every step Ok or Err"},
        "outside": "@error inside functions (eval_body) is checked only by native probes; which statements are accepted in which container (check_body); everything the parser decides; declarations pushed by other paths than the three declaration arms (e.g. plain CSS input)",
        "stubs": ["parent.push_item / commit_rule return Ok or Err (symbolic)", "eprintln! is an event"],
        "assumptions": ["rustc nightly MIR text = the code that is compiled", "mirsym's MIR subset semantics (/verif/mirsym/sym.py)"],
    },
    "C26": {
        "engines": ["E2 mirsym+z3/cvc5"],
        "e2": True,
        "functions": [
            ("sass::functions::string slice closure", "sass/functions/string.rs", r"def!\(f, slice\("),
            ("sass::functions::string insert closure", "sass/functions/string.rs", r"def!\(f, insert\("),
        ],
        "bounds": {"quick": "ALL i64 index arguments, every string length <= 2^32 code points (len symbolic)"},
        "outside": "str-index (find), to-upper/lower-case (std), string.split, the content of the strings, unquote/quote",
        "stubs": ["ResolvedArgs::get/get_map return Ok(arbitrary value of the type) or Err", "chars().count() = arbitrary len <= 2^32", "skip/take/collect/CssString::new are opaque events"],
        "assumptions": ["rustc nightly MIR text = the code that is compiled", "mirsym's MIR subset semantics (/verif/mirsym/sym.py)", "reference window model in kernels.py, cross-checked per run against the real build on concrete inputs", "z3 5.1 and cvc5 1.0.3 (every query on both)"],
    },
    "C28": {
        "engines": ["E2 mirsym+z3/cvc5"],
        "e2": True,
        "functions": [
            ("sass::functions::list::index_of", "sass/functions/list.rs", r"^fn index_of"),
            ("sass::functions::list set_nth closure", "sass/functions/list.rs", r"def!\(f, set_nth\("),
            ("sass::functions::list index closure", "sass/functions/list.rs", r"def!\(f, index\("),
            ("sass::functions::list append/join/separator/is-bracketed closures", "sass/functions/list.rs", r"def!\(f, append\("),
            ("sass::functions::list nth closure", "sass/functions/list.rs", r"def!\(f, nth\(list, n\)"),
            ("sass::functions::list::get_list", "sass/functions/list.rs", r"^fn get_list"),
        ],
        "bounds": {"quick": "ALL i64 n, every list length <= 2^32 (len symbolic); list.index: lists and maps of 0..3 entries, any $value, `==` uninterpreted"},
        "outside": "zip, length, maps and arglists as lists, the nth closure's dispatch on list/map/scalar; the element vectors themselves are opaque (append/join are decided on separator/bracket selection and on which vector is pushed/appended to which)",
        "stubs": ["check::unitless_int returns Ok(arbitrary i64) or Err", "get_list / ResolvedArgs::get* are opaque events", "Vec::index_mut is an event"],
        "assumptions": ["rustc nightly MIR text = the code that is compiled", "mirsym's MIR subset semantics (/verif/mirsym/sym.py)", "z3 5.1 and cvc5 1.0.3 (every query on both)"],
    },
    "C04": {
        "engines": ["E2 mirsym+z3/cvc5"],
        "e2": True,
        "functions": [
            ("rsass::input::Context::find_file (candidate tables, table choice)", "input/context.rs", r"pub fn find_file"),
            ("rsass::input::Context::do_find_file", "input/context.rs", r"fn do_find_file"),
            ("<FsLoader as Loader>::find_file", "input/fsloader.rs", r"fn find_file\(&self, url: &str\)"),
        ],
        "bounds": {"quick": "both candidate tables in full (read from the compiled closures' format templates); do_find_file for 0..3 candidates and FsLoader for "
                            "0..3 load paths with EVERY combination of absent / present / failing answers of the stubbed loader and file system"},
        "outside": "`relative()` (URL relative to the importing file), the plain-CSS @import fallback in transform.rs, canonicalisation of `./` and `..`, "
                   "CargoLoader, more than 3 candidates/load paths per loop (same loop body)",
        "stubs": ["<AnyLoader as Loader>::find_file, Path::is_file, File::open: nondeterministic stubs (every Ok/None/Err outcome)", "tracing macros: level test false (logging has an empty body)",
                  "String/Path construction is opaque; names are tracked by identity"],
        "assumptions": ["rustc nightly MIR text = the code that is compiled", "mirsym's MIR subset semantics (/verif/mirsym/sym.py)", "z3 5.1 and cvc5 1.0.3 (every query on both)"] + ["the byte encoding of fmt::Arguments templates of the pinned nightly (0xC0 = next argument, n<0x80 = n literal bytes); a template that does not decode is inconclusive"],
    },
    "C39": {
        "engines": ["E2 mirsym+z3/cvc5"],
        "e2": True,
        "functions": [
            ("rsass::input::Context::find_file (error propagation)", "input/context.rs", r"pub fn find_file"),
            ("rsass::input::Context::do_find_file", "input/context.rs", r"fn do_find_file"),
            ("<FsLoader as Loader>::find_file", "input/fsloader.rs", r"fn find_file\(&self, url: &str\)"),
        ],
        "bounds": {"quick": "one call of find_file / do_find_file / FsLoader::find_file with a failure injected at EVERY loader, open, read and lock call site (all outcome "
                            "combinations, loops unrolled 3 times)"},
        "outside": "the callers of find_file in the evaluator (transform.rs, load_css) and whole compilations after a failure; SourceFile::read itself (std I/O); panics inside std",
        "stubs": ["<AnyLoader as Loader>::find_file, Path::is_file, File::open, SourceFile::read, lock_loading: nondeterministic stubs (every Ok/Err outcome)", "tracing macros: level test false"],
        "assumptions": ["rustc nightly MIR text = the code that is compiled", "mirsym's MIR subset semantics (/verif/mirsym/sym.py)", "z3 5.1 and cvc5 1.0.3 (every query on both)"],
    },
    "C38": {
        "engines": ["E2 mirsym+z3/cvc5"],
        "e2": True,
        "functions": [
            ("rsass::compile_scss", "lib.rs", r"^pub fn compile_scss\("),
            ("rsass::compile_scss_path", "lib.rs", r"^pub fn compile_scss_path\("),
            ("rsass::compile_value", "lib.rs", r"^pub fn compile_value\("),
            ("rsass::input::Context::with_format", "input/context.rs", r"pub fn with_format"),
            ("rsass::input::Context::transform", "input/context.rs", r"pub fn transform"),
            ("rsass::input::FsLoader::for_path", "input/fsloader.rs", r"pub fn for_path"),
            ("rsass::css::Property::write", "css/rule.rs", r"pub\(crate\) fn write\(&self, buf: &mut CssBuf\) \{"),
        ],
        "bounds": {"quick": "every path of the seven functions with each callee an uninterpreted event and each fallible callee (for_path, open, read, lock, parse, handle_parsed, "
                            "into_buffer, transform, parse_value_data, evaluate) forking into Ok and Err; bytes, path, format, value: arbitrary objects tracked by identity"},
        "outside": "what parse / handle_parsed / into_buffer / Value::format compute (the pipeline itself); relative loads from the file's directory (the loader's path list); "
                   "CargoContext; custom properties (CustomProperty::write); the newline-to-space rewrite of a declaration's value is accepted as part of 'printed in a declaration'",
        "stubs": ["every callee of the seven functions is an event returning a fresh object (fallible ones: Ok or Err)", "<Option<ScopeRef> as Clone>::clone returns a tracked clone"],
        "assumptions": ["rustc nightly MIR text = the code that is compiled", "mirsym's MIR subset semantics (/verif/mirsym/sym.py)", "z3 5.1 and cvc5 1.0.3 (path feasibility)",
                        "a violated structural obligation is reported as VIOLATION only when one of the native relation probes (compile_scss vs transform vs compile_scss_path; "
                        "compile_value vs declaration text; 4 formats) disagrees, otherwise as inconclusive"],
    },
    "C34": {
        "engines": ["E2 mirsym+z3/cvc5"],
        "e2": True,
        "functions": [
            ("sass::functions::string::expose", "sass/functions/string.rs", r"^pub fn expose"),
            ("sass::functions::list::expose", "sass/functions/list.rs", r"^pub fn expose"),
            ("sass::functions::map::expose", "sass/functions/map.rs", r"^pub fn expose"),
            ("sass::functions::math::expose (+ css::global, distance::global)", "sass/functions/math.rs", r"^pub fn expose"),
            ("sass::functions::meta::expose", "sass/functions/meta.rs", r"^pub fn expose"),
            ("sass::functions::selector::expose", "sass/functions/selector.rs", r"^pub fn expose"),
            ("sass::functions::color::{rgb,hsl,hwb,other}::expose", "sass/functions/color/other.rs", r"^pub fn expose"),
            ("sass::functions::FUNCTIONS initialiser", "sass/functions/mod.rs", r"^static FUNCTIONS"),
            ("sass::functions::meta call closure, its argument unpacking, get_function()", "sass/functions/meta.rs", r"def_va!\(f, call\(function, args\)"),
            ("sass::Value::do_evaluate (Call arm)", "sass/value.rs", r"Self::Call\(name, args, pos\) =>"),
        ],
        "bounds": {"quick": "all rows of the literal (global name, local name) tables (loops unrolled to the table length, at most 200 rows), every later definition made by the "
                            "same functions and by the helpers they call; 65 documented pairs"},
        "outside": "abs / min / max / round / grayscale / invert (their global forms are CSS-aware special forms by design); how a call site picks the table (Value::Call in do_evaluate); "
                   "FormalArgs binding itself (C18); meta.call with a string instead of a function reference (deprecated), get-function with $module or $css; the lazy `if`",
        "stubs": ["Name::from_static(literal) is the literal", "Scope::get_lfunction(scope, name) returns an object tagged with (scope, name)", "BTreeMap::insert / Functions::builtin_fn are recorded"],
        "assumptions": ["rustc nightly MIR text = the code that is compiled", "mirsym's MIR subset semantics (/verif/mirsym/sym.py)", "z3 5.1 and cvc5 1.0.3 (path feasibility)",
                        "the documented pairs (kernels2.DOC_PAIRS) were transcribed from the Sass module documentation",
                        "a violated obligation is reported as VIOLATION only when one of the 249 native relation probes (global vs module form; positional vs named vs mixed; meta.call) disagrees"],
    },
    "C22": {
        "engines": ["E2 mirsym+z3/cvc5"],
        "e2": True,
        "functions": [
            ("css::selectors::Opt::collect_pos / collect_neg", "css/selectors/opt.rs", r"pub\(crate\) fn collect_pos"),
            ("css::selectors::Pseudo::no_placeholder", "css/selectors/pseudo.rs", r"pub\(crate\) fn no_placeholder"),
            ("css::selectors::CompoundSelector::no_placeholder", "css/selectors/compound.rs", r"pub fn no_placeholder"),
            ("css::selectors::Selector::no_placeholder", "css/selectors/selector.rs", r"pub\(crate\) fn no_placeholder"),
            ("css::selectors::SelectorSet::no_placeholder", "css/selectors/selectorset.rs", r"pub\(crate\) fn no_placeholder"),
            ("css::Rule::write", "css/rule.rs", r"pub\(crate\) fn write\(&self, buf: &mut CssBuf\) -> io::Result"),
        ],
        "bounds": {"quick": "collect_pos / collect_neg over EVERY sequence of up to 3 elements of every kind (Some / Any / None); one level of each of the four recursive no_placeholder "
                            "functions with the recursive calls returning each of Opt::Some / Any / None (an inductive step over the selector tree: any depth, any width); "
                            "Rule::write for every filter outcome and an empty / non-empty body",
                   "thorough": "the same with collect_pos / collect_neg over every sequence of up to 6 elements (190 sequences each)"},
        "outside": "sequences longer than 3 in collect_pos / collect_neg (same loop body); how selectors are parsed, nested, extended and printed (write_to); the text of the selectors kept "
                   "(they are kept as objects, by identity); no_leading_combinator; @extend (not implemented in rsass); an empty compound after a combinator is printed as nothing (`b :not(%p)` gives `b `, observed, not claimed)",
        "stubs": ["the recursive no_placeholder calls and collect_pos / collect_neg at their call sites return every Opt value", "Pseudo::name_in(<literal>) is a symbolic boolean per literal (a name is at most one of them)",
                  "Vec::is_empty / CompoundSelector::is_empty / Selector::is_local_empty / Option::is_some are symbolic booleans", "CssBuf methods are events"],
        "assumptions": ["rustc nightly MIR text = the code that is compiled", "mirsym's MIR subset semantics (/verif/mirsym/sym.py)", "z3 5.1 and cvc5 1.0.3 (path feasibility)",
                        "three-valued reading of Opt: Some(x) = what x matches, Any = everything, None = nothing; a selector list is a union, a compound an intersection, :not() a complement",
                        "a violated obligation is reported as VIOLATION only when one of the 35 native stylesheet probes (exact output) disagrees"],
    },
    "C40": {
        "engines": ["E2 mirsym+z3/cvc5"],
        "e2": True,
        "functions": [
            ("rsass-cli Args::run", "../../rsass-cli/src/main.rs", r"fn run\(self\) -> Result<\(\), Error>"),
            ("rsass-cli main", "../../rsass-cli/src/main.rs", r"^fn main\(\) -> ExitCode"),
            ("rsass-cli From<StyleArg> for Style", "../../rsass-cli/src/main.rs", r"impl From<StyleArg> for Style"),
            ("rsass::input::FsLoader::push_path", "input/fsloader.rs", r"pub fn push_path"),
        ],
        "bounds": {"quick": "Args::run for 0, 1 or 2 input files (loop unrolled; the loop body is the same beyond), with and without --load-path, every outcome (Ok / Err) of opening, compiling "
                            "and writing each input; both --style values; main for both outcomes of run; MIR of the rsass-cli binary crate dumped from the current tree on every run",
                   "thorough": "the same with up to 4 input files (17 paths per configuration)"},
        "outside": "clap's argument parsing (option names, defaults: only through the native probes); more than two inputs (same loop body); what the library computes (C38 and the other properties); "
                   "the relative-load order inside FsLoader::find_file (C04); the text of the error after `Error: `",
        "stubs": ["FsContext::for_path / transform / Stdout::write_all fork into Ok and Err; push_path / with_format / stdout are events", "<Args as Parser>::parse returns an arbitrary Args"],
        "assumptions": ["rustc nightly MIR text = the code that is compiled", "mirsym's MIR subset semantics (/verif/mirsym/sym.py)", "z3 5.1 and cvc5 1.0.3 (path feasibility)",
                        "fmt::Arguments template bytes of the pinned nightly (n < 0x80: n literal bytes, 0xC0: next argument)",
                        "a violated obligation is reported as VIOLATION only when one of the 19 native probes (the real `rsass` binary against compile_scss_path, 5 formats, 1..3 files, failing inputs, --load-path layouts) disagrees"],
    },
    "C07": {
        "engines": ["E2 mirsym+z3/cvc5"],
        "e2": True,
        "functions": [
            ("rsass::output::CssData::into_buffer (framing tail)", "output/cssdata.rs", r"pub fn into_buffer"),
        ],
        "bounds": {"quick": "the written buffer is ARBITRARY: symbolic length (any u64 up to isize::MAX), symbolic last 10 bytes, symbolic is_ascii, symbolic style; up to 4 trailing newlines "
                            "(the trimming loop unrolled 6 times; longer runs of newlines end at the unwinding bound and are outside); every path decided by z3 and cvc5",
                   "thorough": "the same with up to 7 trailing newlines"},
        "outside": "what the item writers put into the buffer (balanced braces, no line breaks inside compressed output: CssBuf::start_block / end_block / add_one and the writers of rules, "
                   "at-rules, comments and values are not executed); that is_ascii() is true exactly for ASCII content (std); more trailing newlines than the bound",
        "stubs": ["CssBuf::take returns the arbitrary buffer (no items are written)", "Vec<u8> is modelled by its length and its last 10 bytes: last / pop / push / is_empty / len / extend are exact on that view",
                  "<[u8]>::is_ascii is a symbolic boolean", "Format::is_compressed is a symbolic boolean"],
        "assumptions": ["rustc nightly MIR text = the code that is compiled", "mirsym's MIR subset semantics (/verif/mirsym/sym.py)", "z3 5.1 and cvc5 1.0.3 (every query on both)",
                        "a violated obligation is reported as VIOLATION only when one of the 26 native framing probes (13 stylesheets x 2 styles, real output checked for one final newline and charset / BOM iff non-ASCII) disagrees"],
    },
    "C18": {
        "engines": ["E2 mirsym+z3/cvc5"],
        "e2": True,
        "functions": [("rsass::sass::FormalArgs::eval", "sass/formal_args.rs", r"pub fn eval\(&self, scope: ScopeRef, args: CallArgs\)"),
                      ("rsass::sass::Closure::eval_value", "sass/callable.rs", r"pub fn eval_value"),
                      ("rsass::sass::MixinDecl::get (Sass arm)", "sass/mixin.rs", r"Self::Sass\(decl\) =>"),
                      ("rsass::sass::CallArgs::evaluate (splat branches)", "sass/call_args.rs", r"css::Value::ArgList\(args\) => \{")],
        "bounds": {"quick": "one call of FormalArgs::eval with ANY declared parameter count, argument count and rest-parameter flag (symbolic), up to 2 parameters bound "
                            "positionally and 2 by name/default per call (loops unrolled twice), every outcome of the named lookup, default evaluation and define"},
        "outside": "list splats and multi-element splats in CallArgs::evaluate, take_positional / only_named / check_no_named themselves (their contracts are assumed or their outcomes forked), "
                   "ScopeRef::eval_body (which @return is reached), @content, meta.keywords; name normalisation (`-`/`_`) lives in Name",
        "stubs": ["CallArgs::take_positional(n) returns min(n, #positional) values (contract assumed)", "OrderMap::remove, Value::do_evaluate, Scope::define, check_no_named: every Some/None resp. Ok/Err outcome",
                  "iterators over the formal parameters yield cells (name_k, default_k) with symbolic content"],
        "assumptions": ["rustc nightly MIR text = the code that is compiled", "mirsym's MIR subset semantics (/verif/mirsym/sym.py)", "z3 5.1 and cvc5 1.0.3 (every query on both)"],
    },
    "C37": {
        "engines": ["E2 mirsym+z3/cvc5"],
        "e2": True,
        "functions": [
            ("rsass::Scope::do_use (UseAs::Prefix branch)", "variablescope.rs", r"pub\(crate\) fn do_use"),
            ("rsass::sass::Expose::allow_fun / allow_var", "sass/item.rs", r"pub fn allow_fun"),
            ("handle_item @use/@forward initialiser closures (`with` loop)", "output/transform.rs", r"for \(name, value, default\) in with"),
        ],
        "bounds": {"quick": "one member of each kind (function, variable, mixin) of an arbitrary module through the prefix branch, any show/hide filter (symbolic); "
                            "Expose::allow_* for every variant; the `with` loop for 0..2 configured variables with every outcome of lookup, evaluation and define"},
        "outside": "namespaces (KeepName derives the name with string operations: `@use \"d/_lib.scss\"` gives no namespace `lib` — observed natively, not claimed), private members "
                   "(`lib.$-p` is reachable — observed, not claimed), `as *` merging, with_forwarded, built-in module protection (C16 kernel), loading the same module twice with different configurations",
        "stubs": ["BTreeMap iterators over the module's members yield one symbolic member each", "format!(prefix, name) is tracked by the identity of its two arguments",
                  "BTreeSet::contains, Expose::allow_*, Scope::define*, get_or_none: symbolic answers / every outcome"],
        "assumptions": ["rustc nightly MIR text = the code that is compiled", "mirsym's MIR subset semantics (/verif/mirsym/sym.py)", "z3 5.1 and cvc5 1.0.3 (every query on both)"],
    },
    "C29": {
        "engines": ["E1 Kani/CBMC", "E2 mirsym+z3/cvc5"],
        "e2": True,
        "functions": [
            ("rsass::value::Number::ceil/floor/trunc/round/abs/signum", "value/number.rs", r"pub fn ceil\(&self\)"),
            ("sass::functions::math ceil/floor closures", "sass/functions/math.rs", r"def!\(f, ceil\(number\)"),
            ("sass::functions::math::round::sass_round", "sass/functions/math/round.rs", r"pub fn sass_round"),
            ("sass::functions::math::distance::sass_abs", "sass/functions/math/distance.rs", r"^fn sass_abs"),
            ("rsass::value::Numeric::percentage", "value/numeric.rs", r"fn percentage\("),
            ("sass::functions::math clamp closure", "sass/functions/math.rs", r"def!\(f, clamp\("),
            ("global clamp() closure", "sass/functions/math/css.rs", r"def_va!\(global, clamp\(number\)"),
            ("sass::functions::math::find_extreme", "sass/functions/math.rs", r"^fn find_extreme"),
        ],
        "bounds": {"quick": "E1: ALL finite f64 for ceil/floor/trunc/round against their order-theoretic definitions, all non-NaN f64 for abs/signum, all integers "
                            "|i| < 2^53 as fixed points; E2: ceil/floor/round/abs/percentage closures for ANY f64 magnitude (bit-exact, NaN and signed zeros "
                            "included) and any unit; clamp for any three numbers (comparisons uninterpreted); max/min for argument lists of 0..4 values"},
        "outside": "pow, sqrt, log, exp and the trigonometric functions (no solver theory for transcendental functions), math.div, hypot, CSS round() with a step "
                   "(real_round), the unit conversion inside Numeric::partial_cmp (C11/C12), argument parsing, number formatting",
        "stubs": ["E2: f64::ceil/floor/trunc/round = SMT fp.roundToIntegral RTP/RTN/RTZ/RNA (the E1 harnesses check the same Number methods against "
                  "CBMC's independent model)", "ResolvedArgs::get* return Ok(arbitrary value) or Err", "Numeric `<=`/`>=`, cmp2 and may_cmp_css are uninterpreted",
                  "Numeric::new / Into<Value> are transparent constructors"] + KANI_STUBS[:1],
        "assumptions": TRUST + ["rustc nightly MIR text = the code that is compiled", "mirsym's MIR subset semantics (/verif/mirsym/sym.py)", "z3 5.1 and cvc5 1.0.3 (every query on both)"],
    },
    "C33": {
        "engines": ["E2 mirsym+z3/cvc5"],
        "e2": True,
        "functions": [("<Formatted<Rgba> as Display>::fmt", "value/colors/rgba.rs", r"impl Display for Formatted<'_, Rgba>"),
                      ("Rgba::name", "value/colors/rgba.rs", r"pub fn name\(&self\)"), ("Rgba::from_name", "value/colors/rgba.rs", r"pub fn from_name\(name: &str\)"),
                      ("Lookup::from_slice", "value/colors/rgba.rs", r"fn from_slice\(data"), ("LOOKUP (the name table)", "value/colors/rgba.rs", r"static LOOKUP"),
                      ("Rgba::all_zero", "value/colors/rgba.rs", r"pub fn all_zero\(&self\)")],
        "bounds": {"quick": "ALL byte triples (r, g, b), both styles, every source format, name present or not (symbolic), for the branch where the colour is opaque with integer channels; "
                            "names: key/unpack round trip for ALL byte triples, from_slice unrolled over up to 2 (thorough: 3) arbitrary rows, all rows of the literal table"},
        "outside": "whether the name table's values are the CSS named colours (names are read back with rsass's own Rgba::from_name; no reference table in this image); BTreeMap itself; try_bytes itself (near-integer test); rgba()/hsl()/hsla() text (write_rgba and Formatted<Hsla>: "
                   "number formatting through core::fmt, see C10); unmodified colour literals, which keep their source text",
        "stubs": ["Rgba::try_bytes: None or Some(arbitrary bytes)", "Rgba::name: None or Some(name of arbitrary length) in the fmt kernel; in the name kernel u32::from_be_bytes / to_be_bytes are concat / extract, u8 -> f64 is exact, "
                  "BTreeMap::get / insert / entry / or_insert are events, the slice iterator yields arbitrary rows", "fmt::Arguments / Argument constructors are decoded structurally "
                  "(template bytes of the pinned nightly; an unknown template is inconclusive)"],
        "assumptions": ["representation invariant of Rgba: source format ShortHex implies every channel is a multiple of 17 (set by the parser for #abc literals, reset by reset_source on "
                        "every modification; not checked here)", "rustc nightly MIR text = the code that is compiled", "mirsym's MIR subset semantics (/verif/mirsym/sym.py)",
                        "z3 5.1 and cvc5 1.0.3 (every query on both)"],
    },
    "C36": {
        "engines": ["E2 mirsym+z3/cvc5"],
        "e2": True,
        "functions": [("rsass::output::transform::handle_item (Item::Comment arm)", "output/transform.rs", r"Item::Comment\(c\) =>"),
                      ("handle_item @use/@forward module initialiser closures", "output/transform.rs", r"let module = ScopeRef::new_global\(scope.get_format\(\)\);")],
        "bounds": {"quick": "the Comment arm of handle_item for ANY comment, style flag and `!` prefix symbolic"},
        "outside": "the parser (which comments are loud/silent, where they attach), css::Comment::write re-indentation, comments inside values and selectors; the silent-comment clause is checked only by a native probe",
        "stubs": ["Format::is_compressed and str::starts_with are symbolic booleans", "SassString::evaluate returns Ok(text) or Err", "push_comment is an event"],
        "assumptions": ["rustc nightly MIR text = the code that is compiled", "mirsym's MIR subset semantics (/verif/mirsym/sym.py)", "z3 5.1 and cvc5 1.0.3 (every query on both)"],
    },
    "C31": {
        "engines": ["E1 Kani/CBMC", "E2 mirsym+cvc5"],
        "e2": True,
        "functions": F_COLOR,
        "bounds": {
            "quick": "Rgba::new: ALL f64; Hsla::new: all finite hue, all non-NaN s>=0,l,alpha; Hwba::new: whiteness/blackness multiples "
                     "of 1/16 in [-1,4]; rgb->hsl and rgb->hwb channel formulas and ranges: ALL 2^24 byte colours; round trips "
                     "rgb->hsl->rgb on the 6-level lattice (216 colours), rgb->hwb->rgb and notation independence on the 4-level "
                     "lattice (64 colours)",
            "thorough": "as quick, with the 6-level lattice for all round trips",
        },
        "outside": "argument parsing/percent handling in the rgb()/hsl()/hwb() closures, Channels, named-colour table lookup (BTreeMap in a "
                   "LazyLock); round trips off the lattice (CBMC needs about a second per colour to prove a float round trip)",
        "stubs": KANI_STUBS,
        "assumptions": TRUST,
    },
    "C32": {
        "engines": ["E1 Kani/CBMC", "E2 mirsym+cvc5"],
        "e2": True,
        "functions": [
            ("rsass::value::Rgba::invert", "value/colors/rgba.rs", r"pub\(crate\) fn invert"),
            ("rsass::value::Hsla::invert", "value/colors/hsla.rs", r"pub\(crate\) fn invert"),
            ("rsass::value::Color::invert", "value/colors/mod.rs", r"pub\(crate\) fn invert"),
            ("rsass::value::Color::rotate_hue", "value/colors/mod.rs", r"pub fn rotate_hue"),
            ("rsass::value::Color::set_alpha", "value/colors/mod.rs", r"pub fn set_alpha\(&mut self"),
            ("rsass::value::Hsla::new", "value/colors/hsla.rs", r"pub fn new\("),
        ],
        "bounds": {
            "quick": "all in-range f64 channels (rgba invert, hsl invert, hue rotation hsl/hwb, set_alpha with any amount in [0,1]); "
                     "Color::invert weights 0 and 1 on the short-hex lattice + ties",
        },
        "outside": "mix, color.adjust/scale/change (named-argument plumbing over CallArgs), everything requiring css::Value; "
                   "adjust-hue on an rgb carrier for all 2^24 colours (no verdict in 900 s)",
        "stubs": KANI_STUBS,
        "assumptions": TRUST,
    },
}
