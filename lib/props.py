"""Per-property configuration: what is encoded, the stated bounds, what lies outside."""

KANI_STUBS = [
    "arc-swap replaced by /verif/shims/arc-swap (sequential ArcSwapOption) for the Kani build only",
    "Kani models f64 % f64 nondeterministically: harnesses do not assert through it (E2 decides those)",
]
TRUST = [
    "rustc, Kani 0.68 translation, CBMC 6.11 bit-precise integer/IEEE-754 model, CaDiCaL",
    "the harness bodies and reference models in /verif/kani/src (reviewed by hand)",
]

PROPS = {
    "C12": {
        "engines": ["E1 Kani/CBMC"],
        "functions": [
            ("rsass::value::Number::eq", "value/number.rs", r"impl PartialEq for Number"),
            ("rsass::value::Number::partial_cmp", "value/number.rs", r"impl PartialOrd for Number"),
            ("rsass::value::Numeric::partial_cmp", "value/numeric.rs", r"impl PartialOrd for Numeric"),
        ],
        "bounds": {"quick": "all non-NaN f64 pairs", "thorough": "all non-NaN f64 pairs"},
        "outside": "lists/maps of depth > 1, functions, calculations; NaN operands",
        "stubs": KANI_STUBS,
        "assumptions": TRUST,
    },
}
