"""E1: run Kani proof harnesses over the real rsass code and parse the verdicts."""
import concurrent.futures
import os
import queue
import re
import subprocess
import time

from common import CACHE, VERIF, base_env, crate_root

KANI_CRATE = os.path.join(crate_root(), "kani")

# CBMC float checks that are not Rust failures (see DESIGN 2.1).
IGNORED_CLASSES = {"NaN"}
IGNORED_DESC_PREFIX = (
    "arithmetic overflow on floating-point",
    "NaN on ",
)

CHECK_RE = re.compile(
    r"^Check (\d+): (\S+)\n\s+- Status: (\S+)\n\s+- Description: \"(.*)\"\n(?:\s+- Location: (.*)\n)?",
    re.M,
)
PLAYBACK_RE = re.compile(
    r"/// Check for `([^`]*)`: \"([^\n]*)\"\n(?:///[^\n]*\n)*\s*\n?#\[test\]\nfn (\w+)\(\) \{\n\s*let concrete_vals: Vec<Vec<u8>> = vec!\[\n(.*?)\n\s*\];",
    re.S,
)
VEC_RE = re.compile(r"^\s*vec!\[([0-9, ]*)\],?\s*$")


def harness_list(prop_id):
    """Harness names of a property, read from the harness source (module cNN)."""
    path = os.path.join(KANI_CRATE, "src", prop_id.lower() + ".rs")
    names = []
    if not os.path.exists(path):
        return names
    with open(path) as f:
        text = f.read()
    for m in re.finditer(r"^\s*fn (c\d\d\w*)\s*\[unwind (\d+)\]", text, re.M):
        names.append((m.group(1), int(m.group(2))))
    return names


def known_ids_in_source(prop_id):
    path = os.path.join(KANI_CRATE, "src", prop_id.lower() + ".rs")
    out = {}
    if not os.path.exists(path):
        return out
    cur = None
    with open(path) as f:
        for line in f:
            m = re.match(r"^\s*fn (c\d\d\w*)\s*\[unwind", line)
            if m:
                cur = m.group(1)
            m = re.search(r'known!\(\s*\w+\s*,\s*"([^"]+)"', line)
            if m and cur:
                out.setdefault(cur, []).append(m.group(1))
    return out


def parse_output(text):
    res = {"checks": [], "playbacks": [], "verdict": None}
    for m in CHECK_RE.finditer(text):
        name = m.group(2)
        parts = name.rsplit(".", 2)
        cls = parts[-2] if len(parts) >= 3 else ""
        res["checks"].append(
            {
                "name": name,
                "class": cls,
                "status": m.group(3),
                "description": m.group(4),
                "location": (m.group(5) or "").strip(),
            }
        )
    for m in PLAYBACK_RE.finditer(text):
        vals = []
        for line in m.group(4).split("\n"):
            v = VEC_RE.match(line)
            if v:
                nums = [int(x) for x in v.group(1).replace(" ", "").split(",") if x]
                vals.append(bytes(nums).hex())
        res["playbacks"].append({"class": m.group(1), "description": m.group(2), "values": vals})
    if "VERIFICATION:- SUCCESSFUL" in text:
        res["verdict"] = "SUCCESSFUL"
    elif "VERIFICATION:- FAILED" in text:
        res["verdict"] = "FAILED"
    m = re.findall(r"Runtime decision procedure: ([0-9.e+-]+)s", text)
    res["solver_time_s"] = round(sum(float(x) for x in m), 3)
    m = re.findall(r"Runtime Symex: ([0-9.e+-]+)s", text)
    res["symex_time_s"] = round(sum(float(x) for x in m), 3)
    m = re.search(r"(\d+) variables, (\d+) clauses", text)
    if m:
        res["sat_vars"] = int(m.group(1))
        res["sat_clauses"] = int(m.group(2))
    res["solver"] = "CaDiCaL" if "CaDiCaL" in text else ("kissat" if "kissat" in text.lower() else "minisat/other")
    return res


def is_ignored(chk):
    if chk["class"] in IGNORED_CLASSES:
        return True
    return chk["description"].startswith(IGNORED_DESC_PREFIX)


def classify(parsed, rc, timed_out):
    """-> (status, failing_checks, reason).  status in pass|fail|inconclusive."""
    if timed_out:
        return "inconclusive", [], "timeout"
    checks = parsed["checks"]
    if not checks:
        return "inconclusive", [], f"no check table in Kani output (exit {rc})"
    unwind_fail = [c for c in checks if c["class"] == "unwind" and c["status"] == "FAILURE"]
    if unwind_fail:
        return "inconclusive", [], "unwinding assertion failed: bound too small"
    unsup = [
        c
        for c in checks
        if c["status"] == "FAILURE" and ("unsupported" in c["class"] or "is not currently supported" in c["description"])
    ]
    if unsup:
        return "inconclusive", [], "unsupported construct reached: " + unsup[0]["description"][:120]
    failing = [c for c in checks if c["status"] == "FAILURE" and not is_ignored(c)]
    if failing:
        return "fail", failing, ""
    undet = [c for c in checks if c["status"] in ("UNDETERMINED", "ERROR")]
    if undet:
        return "inconclusive", [], "undetermined checks"
    covers = [c for c in checks if c["class"] == "cover"]
    bad = [c for c in covers if c["status"] != "SATISFIED"]
    if bad:
        return "inconclusive", [], "vacuity: cover not satisfied: " + bad[0]["description"]
    if parsed["verdict"] is None:
        return "inconclusive", [], f"no verdict line (exit {rc})"
    return "pass", [], ""


def run_one(prop_id, name, worker, features, timeout_s, mem_gb):
    tdir = os.path.join(CACHE, "kani", f"w{worker}")
    os.makedirs(tdir, exist_ok=True)
    full = f"{prop_id.lower()}::kani_proofs::{name}"
    cmd = [
        "cargo", "kani", "--lib", "--target-dir", tdir, "--exact", "--harness", full,
        "-Z", "concrete-playback", "--concrete-playback=print", "-Z", "stubbing",
    ]
    if features:
        cmd += ["--features", ",".join(features)]
    shell = f"ulimit -v {int(mem_gb * 1024 * 1024)}; exec timeout -k 10 {int(timeout_s)} " + " ".join(cmd)
    t0 = time.time()
    p = subprocess.run(
        ["bash", "-c", shell], cwd=KANI_CRATE, env=base_env(), capture_output=True, text=True, errors="replace"
    )
    wall = round(time.time() - t0, 2)
    out = p.stdout + "\n" + p.stderr
    timed_out = p.returncode in (124, 137)
    parsed = parse_output(out)
    status, failing, reason = classify(parsed, p.returncode, timed_out)
    if status == "inconclusive" and not timed_out and not parsed["checks"]:
        # keep the tail for diagnosis (compile error, ICE, OOM)
        tail = "\n".join(l for l in out.split("\n") if l.strip() and not l.startswith("warning"))[-1500:]
        reason += " :: " + tail
    return {
        "harness": name,
        "features": list(features),
        "status": status,
        "reason": reason,
        "failing": failing,
        "playbacks": parsed["playbacks"],
        "n_checks": len(parsed["checks"]),
        "n_checks_success": sum(1 for c in parsed["checks"] if c["status"] == "SUCCESS"),
        "covers": [
            {"label": c["description"], "status": c["status"]} for c in parsed["checks"] if c["class"] == "cover"
        ],
        "solver": parsed.get("solver"),
        "solver_time_s": parsed.get("solver_time_s", 0.0),
        "symex_time_s": parsed.get("symex_time_s", 0.0),
        "sat_vars": parsed.get("sat_vars"),
        "sat_clauses": parsed.get("sat_clauses"),
        "wall_s": wall,
    }


def run_many(prop_id, jobs, timeout_s, mem_gb, nworkers):
    """jobs: list of (name, features).  Runs in parallel, one target dir per worker."""
    if not jobs:
        return []
    nworkers = max(1, min(nworkers, len(jobs)))
    free = queue.Queue()
    for i in range(nworkers):
        free.put(i)

    def task(job):
        w = free.get()
        try:
            return run_one(prop_id, job[0], w, job[1], timeout_s, mem_gb)
        finally:
            free.put(w)

    with concurrent.futures.ThreadPoolExecutor(max_workers=nworkers) as ex:
        return list(ex.map(task, jobs))
