"""Native replay of solver witnesses against the real rsass build (dev + release)."""
import json
import os
import subprocess

from common import CACHE, VERIF, base_env, crate_root

REPLAY_CRATE = os.path.join(crate_root(), "replay")
TARGET = os.path.join(CACHE, "replay")
_built = {}


def build(profile, features=()):
    key = (profile, tuple(features))
    if key in _built:
        return _built[key]
    cmd = ["cargo", "build", "--offline", "--target-dir", TARGET, "--bin", "replay"]
    if profile == "release":
        cmd.append("--release")
    if features:
        cmd += ["--features", ",".join(features)]
    p = subprocess.run(cmd, cwd=REPLAY_CRATE, env=base_env(), capture_output=True, text=True)
    if p.returncode != 0:
        _built[key] = None
        raise RuntimeError("native replay build failed:\n" + p.stderr[-3000:])
    path = os.path.join(TARGET, "release" if profile == "release" else "debug", "replay")
    _built[key] = path
    return path


def run(harness, values, profile="dev", features=()):
    """-> {'outcome': pass|fail|assume_failed|crash, 'message': str}"""
    exe = build(profile, features)
    try:
        p = subprocess.run([exe, harness, ",".join(values)], capture_output=True, text=True, timeout=120)
    except subprocess.TimeoutExpired:
        return {"outcome": "crash", "message": "native replay timed out (120 s)"}
    for line in p.stdout.split("\n"):
        line = line.strip()
        if line.startswith("{"):
            try:
                return json.loads(line)
            except ValueError:
                pass
    # abort / stack overflow: the process died without reporting
    return {"outcome": "crash", "message": f"exit {p.returncode}: {p.stderr[-300:]}"}


def run_scss(src, profile="dev", compressed=False):
    exe = build(profile)
    try:
        p = subprocess.run([exe, "--scss-compressed" if compressed else "--scss", src], capture_output=True, text=True, timeout=120)
    except subprocess.TimeoutExpired:
        return {"outcome": "crash", "message": "timeout"}
    for line in p.stdout.split("\n"):
        if line.strip().startswith("{"):
            try:
                return json.loads(line)
            except ValueError:
                pass
    return {"outcome": "crash", "message": f"exit {p.returncode}: {p.stderr[-300:]}"}


def run_threads(src, profile="dev"):
    """The same stylesheet compiled on the main thread and on two more threads (sequentially) -> list of three outputs."""
    exe = build(profile)
    try:
        p = subprocess.run([exe, "--scss-threads", src], capture_output=True, text=True, timeout=120)
    except subprocess.TimeoutExpired:
        return None
    for line in p.stdout.split("\n"):
        if line.strip().startswith("{"):
            try:
                return json.loads(line)["message"].split("\u0001")
            except (ValueError, KeyError):
                pass
    return None


def run_api(entry, style, precision, arg, profile="dev"):
    """One library entry point (value | scss | path | transform) with an explicit output format."""
    exe = build(profile)
    try:
        p = subprocess.run([exe, "--api", entry, style, str(precision), arg], capture_output=True, text=True, timeout=120)
    except subprocess.TimeoutExpired:
        return {"outcome": "crash", "message": "timeout"}
    for line in p.stdout.split("\n"):
        if line.strip().startswith("{"):
            try:
                return json.loads(line)
            except ValueError:
                pass
    return {"outcome": "crash", "message": f"exit {p.returncode}: {p.stderr[-300:]}"}


_cli_built = {}


def build_cli(profile):
    """The real command-line tool (rsass-cli, binary `rsass`) of the tree under test."""
    if profile in _cli_built:
        return _cli_built[profile]
    from common import CACHE, REPO
    target = os.path.join(CACHE, "cli-target")
    cmd = ["cargo", "build", "--locked", "--offline", "--target-dir", target, "--bin", "rsass"]
    if profile == "release":
        cmd.append("--release")
    p = subprocess.run(cmd, cwd=os.path.join(REPO, "rsass-cli"), env=base_env(), capture_output=True, text=True)
    if p.returncode != 0:
        _cli_built[profile] = None
        raise RuntimeError("rsass-cli build failed:\n" + p.stderr[-3000:])
    _cli_built[profile] = os.path.join(target, "release" if profile == "release" else "debug", "rsass")
    return _cli_built[profile]


def run_cli(argv, cwd, profile="dev"):
    exe = build_cli(profile)
    try:
        p = subprocess.run([exe] + list(argv), cwd=cwd, capture_output=True, text=True, timeout=120)
    except subprocess.TimeoutExpired:
        return {"code": None, "stdout": "", "stderr": "timeout"}
    return {"code": p.returncode, "stdout": p.stdout, "stderr": p.stderr}


def replay_both(harness, values, features=()):
    dev = run(harness, values, "dev", features)
    rel = run(harness, values, "release", features)
    reproduced = dev["outcome"] in ("fail", "crash") or rel["outcome"] in ("fail", "crash")
    return {"dev": dev, "release": rel, "reproduced": reproduced}


def run_files(files, entry, profile="dev", compressed=False, fail_lookup=None, fail_read=None):
    """Write `files` ({relative name: text}) to a scratch directory and compile `entry` from disk."""
    import shutil
    import tempfile
    exe = build(profile)
    d = tempfile.mkdtemp(prefix="probe-", dir=CACHE)
    try:
        for name, text in files.items():
            p = os.path.join(d, name)
            os.makedirs(os.path.dirname(p), exist_ok=True)
            with open(p, "w") as f:
                f.write(text)
        try:
            if fail_read is not None:
                cmd = [exe, "--scss-fail-read", d, entry, str(fail_read)]
            elif fail_lookup is not None:
                cmd = [exe, "--scss-fail-lookup", d, entry, str(fail_lookup)]
            else:
                cmd = [exe, "--scss-file-compressed" if compressed else "--scss-file", os.path.join(d, entry)]
            p = subprocess.run(cmd, capture_output=True, text=True, timeout=120)
        except subprocess.TimeoutExpired:
            return {"outcome": "crash", "message": "timeout"}
        for line in p.stdout.split("\n"):
            if line.strip().startswith("{"):
                try:
                    return json.loads(line)
                except ValueError:
                    pass
        return {"outcome": "crash", "message": f"exit {p.returncode}: {p.stderr[-300:]}"}
    finally:
        shutil.rmtree(d, ignore_errors=True)
