#!/usr/bin/env python3
"""Developer tool (not run by the checks): regenerate mirsym/boundary.json, the per-kernel set of callees that are
opaque calls on the *current* /repo tree.  Run it after adding or changing a kernel, on the unchanged tree, and commit
the result.  At check time a crate-local callee outside this set that resolves by its exact name is executed instead of
havocked (helper-following, DESIGN 2.2)."""
import json
import os
import sys

HERE = os.path.dirname(os.path.abspath(__file__))
sys.path.insert(0, os.path.join(os.path.dirname(HERE), "mirsym"))
sys.path.insert(0, HERE)
os.environ["MIRSYM_RECORD_BOUNDARY"] = "1"

import engine  # noqa: E402
import kernels  # noqa: E402
import kernels2  # noqa: E402
import mir  # noqa: E402
import sym  # noqa: E402
from common import CACHE, RSASS  # noqa: E402


def main():
    path = os.path.join(CACHE, "mir", "boundary.%d.mir" % os.getpid())
    mir.dump(RSASS, os.path.join(CACHE, "mir", "target"), path)
    E = engine.Engine(path, os.path.join(RSASS, "src"))
    os.unlink(path)
    for k in sorted(n for n in set(dir(kernels)) | set(dir(kernels2)) if n.startswith("k_")):
        sym.CURRENT_KERNEL = k
        sym.SEEN_OPAQUE.setdefault(k, set())
        try:
            (getattr(kernels, k, None) or getattr(kernels2, k))(E, "quick")
        except sym.Unsupported as e:
            print("unsupported on this tree:", k, str(e)[:100])
    E.close()
    out = os.path.join(os.path.dirname(HERE), "mirsym", "boundary.json")
    with open(out, "w") as f:
        json.dump({k: sorted(v) for k, v in sorted(sym.SEEN_OPAQUE.items())}, f, indent=0)
    print("kernels:", len(sym.SEEN_OPAQUE), "opaque callees:", sum(len(v) for v in sym.SEEN_OPAQUE.values()))


if __name__ == "__main__":
    main()
