"""E2 driver: MIR dump of the current tree -> kernels -> obligations -> verdicts.

A violated obligation is first lifted to a stylesheet and replayed natively
through the public API (dev + release build of /repo); only what reproduces is
reported as VIOLATION.  Structural obligations (event identity/order) have no
numeric witness: they are reported when both the obligation and its re-run
fail (replay = re-deciding the obligation on the current tree's MIR).
"""
import json
import math
import os
import re
import struct
import sys
import time

sys.path.insert(0, os.path.join(os.path.dirname(os.path.dirname(os.path.abspath(__file__))), "mirsym"))

import replay as native  # noqa: E402
from common import CACHE, RSASS, seed  # noqa: E402

import engine  # noqa: E402
import kernels  # noqa: E402
import kernels2  # noqa: E402
import mir  # noqa: E402
import smt  # noqa: E402
import sym  # noqa: E402

KERNELS = {
    "C01": ["k_index_of", "k_str_slice", "k_str_insert", "k_random", "k_unique_id", "k_str_index_length"],
    "C02": ["k_lock_loading", "k_lock_pairing", "k_load_css_lock"],
    "C03": ["k_load_module", "k_lock_pairing"],
    "C04": ["k_find_file", "k_do_find_file", "k_fsloader_find", "k_lock_pairing"],
    "C39": ["k_find_file", "k_do_find_file", "k_fsloader_find"],
    "C38": ["k_entry_points", "k_for_path", "k_value_text"],
    "C34": ["k_expose_tables", "k_meta_call"],
    "C22": ["k_placeholder_algebra"],
    "C40": ["k_cli"],
    "C07": ["k_output_frame"],
    "C06": ["k_unique_id", "k_random"],
    "C11": ["k_plus_minus_units", "k_numeric_cmp", "k_unitset_simplify"],
    "C13": ["k_map_merge", "k_map_find_value", "k_map_literal", "k_map_set_inner", "k_deep_merge"],
    "C12": ["k_numeric_cmp", "k_value_eq_symmetric"],
    "C14": ["k_is_true", "k_and_or", "k_binop_short_circuit", "k_not"],
    "C16": ["k_set_variable", "k_loop_scopes", "k_store_restore_locals"],
    "C17": ["k_for_bounds", "k_if_dispatch"],
    "C36": ["k_comment_dispatch", "k_module_init"],
    "C37": ["k_do_use_prefix", "k_use_with"],
    "C18": ["k_formal_args_eval", "k_callable_scopes", "k_call_args_splat"],
    "C20": ["k_bubble", "k_dest_start", "k_selector_ctx"],
    "C21": ["k_error_and_drop", "k_dest_start", "k_declaration_arms", "k_lock_pairing", "k_loop_scopes"],
    "C26": ["k_str_slice", "k_str_insert", "k_str_index_length"],
    "C29": ["k_math_bounding", "k_math_percentage", "k_math_clamp", "k_css_clamp", "k_find_extreme"],
    "C28": ["k_index_of", "k_set_nth", "k_append_join", "k_list_separator", "k_list_index", "k_nth", "k_get_list"],
    "C31": ["k_deg_mod"],
    "C33": ["k_rgba_hex_text", "k_rgba_name", "k_rgba_transparent"],
    "C32": ["k_deg_mod", "k_lighten_darken", "k_fade", "k_complement_grayscale"],
}
# for C01 only the panic obligations of the kernels count
PANIC_ONLY = {"C01"}

MIR_PATH = os.path.join(CACHE, "mir", "rsass.%d.mir" % os.getpid())  # per process: checks may run concurrently
_engine = None


def get_engine(log):
    global _engine
    if _engine is None:
        t0 = time.time()
        mir.dump(RSASS, os.path.join(CACHE, "mir", "target"), MIR_PATH)
        log("E2: MIR of the current tree dumped in %.1f s (%d bytes)" % (time.time() - t0, os.path.getsize(MIR_PATH)))
        _engine = engine.Engine(MIR_PATH, os.path.join(RSASS, "src"), log)
        try:
            os.unlink(MIR_PATH)  # parsed into memory; keep the cache directory small
        except OSError:
            pass
    return _engine


# ------------------------------------------------------------------ lifters

def _val(model, name_part, signed=True, width=64):
    for k, v in (model or {}).items():
        if name_part in k:
            return smt.bv_from_model(v, signed, width)
    return None


def _fval(model, name_part):
    for k, v in (model or {}).items():
        if name_part in k:
            return smt.f64_from_model(v)
    return None


def _css_value(src):
    """Compile `a{b: <src>}` in both profiles -> (text or None, raw outcomes)."""
    outs = []
    for prof in ("dev", "release"):
        r = native.run_scss("@use 'sass:math'; @use 'sass:color'; @use 'sass:string'; @use 'sass:list'; @use 'sass:map';\na{b: %s}" % src, prof)
        outs.append(r)
    vals = []
    for r in outs:
        if r["outcome"] == "ok":
            m = re.search(r"b: (.*);", r["message"])
            vals.append(m.group(1) if m else "<no declaration>")
        else:
            vals.append("<%s>" % r["outcome"])
    return vals, outs


def ref_slice(s, a, b):
    n = len(s)
    st = n + a + 1 if a < 0 else a
    en = n + b + 1 if b < 0 else b
    st = max(st, 1)
    en = min(en, n)
    return s[st - 1:en] if en >= st else ""


def ref_insert(s, x, i):
    n = len(s)
    before = i - 1 if i > 0 else (0 if i == 0 else n + i + 1)
    before = min(max(before, 0), n)
    return s[:before] + x + s[before:]


SAMPLE = "\u00e4b\u00e7d\U0001F46D" + "f\u00f1h\u00efjklmnopqrstuvwxyzABCDEFGHIJKLMNOPQ"  # code points, not bytes


def lift_str_slice(model):
    a, b, ln = _val(model, "arg.start_at"), _val(model, "arg.end_at"), _val(model, "len", False)
    if a is None or b is None or ln is None or ln > 40 or abs(a) > 10**6 or abs(b) > 10**6:
        return None
    s = SAMPLE[:ln]
    want = '"%s"' % ref_slice(s, a, b)
    vals, outs = _css_value('str-slice("%s", %d, %d)' % (s, a, b))
    return {"scss": 'str-slice("%s", %d, %d)' % (s, a, b), "want": want, "got": vals, "reproduced": any(v != want for v in vals)}


def lift_str_insert(model):
    i, ln = _val(model, "arg.index"), _val(model, "len", False)
    if i is None or ln is None or ln > 40 or abs(i) > 10**6:
        return None
    s = SAMPLE[:ln]
    want = '"%s"' % ref_insert(s, "XY", i)
    vals, outs = _css_value('str-insert("%s", "XY", %d)' % (s, i))
    return {"scss": 'str-insert("%s", "XY", %d)' % (s, i), "want": want, "got": vals, "reproduced": any(v != want for v in vals)}


def lift_nth(model):
    n, ln = _val(model, "n#"), _val(model, "len", False)
    if n is None or ln is None or ln > 30 or ln < 0 or abs(n) > 10**6:
        return None
    items = ["e%d" % k for k in range(1, ln + 1)]
    lst = "(" + " ".join(items) + ")" if ln != 1 else "(e1,)"
    if ln == 0:
        lst = "()"
    if 1 <= n <= ln:
        want = items[n - 1]
    elif -ln <= n <= -1:
        want = items[ln + n]
    else:
        want = "<error>"
    vals, outs = _css_value("nth(%s, %d)" % (lst, n))
    return {"scss": "nth(%s, %d)" % (lst, n), "want": want, "got": vals, "reproduced": any(v != want for v in vals)}


NOT_OPERANDS = {
    "Null": ("null", "true"), "False": ("false", "true"), "True": ("true", "false"), "Numeric": ("0", "false"),
    "Literal": ('"x"', "false"), "List": ("(1 2)", "false"), "Color": ("red", "false"), "Map": ("(a: 1)", "false"),
    "Function": ("get-function(\"red\")", "false"), "UnicodeRange": ("U+0", "false"),
}


def lift_not(model, variants):
    d = _val(model, "val.disc")
    if d is None or not (0 <= d < len(variants)):
        return None
    name = variants[d]
    if name not in NOT_OPERANDS:
        return {"scss": None, "variant": name, "reproduced": None}
    operand, want = NOT_OPERANDS[name]
    vals, outs = _css_value("not %s" % operand)
    return {"scss": "not %s" % operand, "variant": name, "want": want, "got": vals, "reproduced": any(v != want for v in vals)}


def lift_deg_mod(model):
    v = _fval(model, "v#")
    if v is None or not math.isfinite(v) or abs(v) > 1e15:
        return None
    want = math.fmod(v, 360.0)
    if want < 0:
        want = math.fmod(want + 360.0, 360.0)
    src = "hue(hsl(%s, 50%%, 50%%))" % repr(v)
    vals, outs = _css_value(src)
    bad = False
    for t in vals:
        m = re.match(r"(-?[0-9.e+-]+)deg$", t)
        if not m:
            bad = True
            continue
        got = float(m.group(1))
        if not (0 <= got < 360) or min(abs(got - want), 360 - abs(got - want)) > 1e-6:
            bad = True
    return {"scss": src, "want": "%rdeg (in [0,360))" % want, "got": vals, "reproduced": bad}


def lift_index_map(model):
    """list.index on a map must agree with list.index on the explicit list of its (key value) pairs (same build)."""
    sep = {0: " ", 1: ", ", 2: "/"}  # ListSeparator discriminants are checked by the kernel; only the text matters here
    vsd, bra, ln = _val(model, "Some.0.disc"), None, _val(model, "len", False)
    for k, v in (model or {}).items():
        if "List.2" in k:
            bra = (v == "true")
    if ln is None or not (0 <= ln <= 4):
        ln = 2
    cands = []
    for items in (["b", "2"], ["b", "9"], ["x", "2"], ["a", "1"]):
        items = (items + ["z"] * 4)[:ln]
        for sp in ([vsd] if vsd in sep else []) + [0, 1]:
            body = ("list.slash(%s)" % ", ".join(items)) if sp == 2 and len(items) >= 2 else sep[sp if sp != 2 else 0].join(items)
            if len(items) == 1 and sp == 1:
                body += ","
            for b in ([bra] if bra is not None else []) + [False, True]:
                txt = ("[%s]" % body) if b else ("(%s)" % body)
                if sp == 2 and len(items) >= 2:
                    txt = "join(%s, (), $bracketed: %s)" % (body, "true" if b else "false")
                if txt not in cands:
                    cands.append(txt)
    diffs = []
    for v in cands[:12]:
        a, _ = _css_value("inspect(list.index((a: 1, b: 2), %s))" % v)
        b, _ = _css_value("inspect(list.index(((a 1), (b 2)), %s))" % v)
        if a != b:
            diffs.append({"scss": "list.index((a: 1, b: 2), %s)" % v, "want": b, "got": a})
    return {"candidates": len(cands[:12]), "disagreements": diffs, "reproduced": bool(diffs),
            "scss": diffs[0]["scss"] if diffs else None, "want": diffs[0]["want"] if diffs else None, "got": diffs[0]["got"] if diffs else None}


def lift_math1(model, fn):
    """math.ceil/floor/round/abs/percentage of one finite, moderately sized magnitude against Python's exact arithmetic."""
    from fractions import Fraction
    x = _fval(model, "x#") if fn == "percentage" else None
    if x is None:
        for k, v in (model or {}).items():
            if "arg.number" in k or "x#" in k:
                x = smt.f64_from_model(v)
    if x is None or not math.isfinite(x) or abs(x) > 1e9 or (x != 0 and abs(x) < 1e-6):
        return None
    fx = Fraction(x)
    if fn == "ceil":
        want = math.ceil(fx)
    elif fn == "floor":
        want = math.floor(fx)
    elif fn == "round":
        want = math.floor(fx + Fraction(1, 2)) if fx >= 0 else -math.floor(-fx + Fraction(1, 2))
    elif fn == "abs":
        want = abs(fx)
    elif fn == "percentage":
        want = fx * 100
    else:
        return None
    unit = "" if fn == "percentage" else "px"
    src = "math.%s(%s%s)" % (fn, repr(x), unit)
    vals, outs = _css_value(src)
    bad = False
    for t in vals:
        m = re.match(r"(-?[0-9.]+(?:e[-+]?[0-9]+)?)(%s)$" % ("%" if fn == "percentage" else "px"), t)
        if not m or abs(Fraction(m.group(1)) - want) > max(abs(want), 1) * Fraction(1, 10**8):
            bad = True
    return {"scss": src, "want": "%s%s" % (float(want), "%" if fn == "percentage" else "px"), "got": vals, "reproduced": bad}



def lift_namedcolor(model):
    """the model's bytes printed compressed; when the text is a name, the name is read back channel by channel"""
    vals = {}
    for k, v in (model or {}).items():
        for n in ("red", "green", "blue"):
            if n in k:
                vals[n] = smt.bv_from_model(v, False, 8)
    if len(vals) != 3:
        return None
    r, g, b = vals["red"], vals["green"], vals["blue"]
    bad, got = [], []
    for prof in ("dev", "release"):
        o = native.run_scss("a{b: rgb(%d, %d, %d)}" % (r, g, b), prof, True)
        m = re.search(r"b:\s*([^;}]*)", o["message"]) if o["outcome"] == "ok" else None
        txt = m.group(1).strip() if m else "<%s>" % o["outcome"]
        got.append(txt)
        if re.fullmatch(r"[A-Za-z]+", txt):
            back, _ = _css_value("red(%s) green(%s) blue(%s)" % (txt, txt, txt))
            got.append(back)
            if any(v != "%d %d %d" % (r, g, b) for v in back):
                bad.append({"name": txt, "read back": back})
    if not bad:
        # the model's triple usually has no name: the named colours whose values are beyond doubt are the witnesses then
        sp = structural_probe("k_rgba_name") or {}
        bad = list(sp.get("disagreements") or [])[:6]
    return {"scss": "a{b: rgb(%d, %d, %d)}" % (r, g, b), "want": "a name that reads back as (%d, %d, %d); named colours read back as their CSS values" % (r, g, b), "got": got,
            "disagreements": bad, "reproduced": bool(bad)}



def lift_transparent(model):
    """colours that are not rgba(0, 0, 0, 0) — the model's channels when they are in range, and fixed near-zero witnesses —
    printed compressed: none may come out as `transparent`"""
    cands = []
    vals = [_fval(model, n) for n in ("red", "green", "blue", "alpha")]
    if all(v is not None and math.isfinite(v) for v in vals) and any(v != 0 for v in vals) and all(0 <= v <= 255 for v in vals[:3]) and 0 <= vals[3] <= 1:
        cands.append("rgba(%r, %r, %r, %r)" % tuple(vals))
    cands += ["rgba(0, 0, 0, 0.001)", "rgba(0.4, 0.25, 0.3, 0)", "rgba(0, 0, 0.3, 0)", "transparentize(rgba(0, 0, 0, 0.5), 0.499)", "rgba(1, 0, 0, 0)"]
    bad, got = [], []
    for src in cands:
        for prof in ("dev", "release"):
            o = native.run_scss("a{b: %s}" % src, prof, True)
            m = re.search(r"b:\s*([^;}]*)", o["message"]) if o["outcome"] == "ok" else None
            txt = m.group(1).strip() if m else "<%s>" % o["outcome"]
            got.append(txt)
            if txt == "transparent":
                bad.append({"scss": src, "got": txt})
    zero = [native.run_scss("a{b: rgba(0, 0, 0, 0)}", prof, True)["message"] for prof in ("dev", "release")]
    return {"scss": cands[0], "want": "not `transparent` (the colour is not rgba(0, 0, 0, 0))", "got": got[:8], "rgba(0,0,0,0) prints": zero, "disagreements": bad, "reproduced": bool(bad)}


def lift_hexcolor(model):
    """print rgb(r, g, b) for the model's bytes in both styles and as a hex literal source: the text must denote (r, g, b)"""
    vals = {}
    for k, v in (model or {}).items():
        for n in ("red", "green", "blue"):
            if n in k:
                vals[n] = smt.bv_from_model(v, False, 8)
    if len(vals) != 3:
        return None
    r, g, b = vals["red"], vals["green"], vals["blue"]

    def denotes(text):
        t = text.strip().lower()
        m = re.fullmatch(r"#([0-9a-f]{6})", t)
        if m:
            return tuple(int(m.group(1)[i:i + 2], 16) for i in (0, 2, 4))
        m = re.fullmatch(r"#([0-9a-f]{3})", t)
        if m:
            return tuple(int(ch * 2, 16) for ch in m.group(1))
        m = re.fullmatch(r"rgb\((\d+),\s*(\d+),\s*(\d+)\)", t)
        if m:
            return tuple(int(x) for x in m.groups())
        return None  # a colour name: outside this lifter

    bad = []
    srcs = ["rgb(%d, %d, %d)" % (r, g, b), "#%02x%02x%02x" % (r, g, b)]
    if r % 17 == 0 and g % 17 == 0 and b % 17 == 0:
        srcs.append("#%x%x%x" % (r // 17, g // 17, b // 17))
    got = []
    for src in srcs:
        for comp in (False, True):
            for prof in ("dev", "release"):
                o = native.run_scss("a{b: %s}" % src, prof, comp)
                m = re.search(r"b:\s*([^;}]*)", o["message"]) if o["outcome"] == "ok" else None
                txt = m.group(1) if m else "<%s>" % o["outcome"]
                got.append(txt)
                d = denotes(txt)
                if d is not None and d != (r, g, b):
                    bad.append({"scss": src, "compressed": comp, "got": txt})
    return {"scss": srcs[0], "want": "text denoting (%d, %d, %d)" % (r, g, b), "got": got[:6], "disagreements": bad, "reproduced": bool(bad)}


def lift_random(model):
    lim = _val(model, "limit")
    if lim is None or lim <= 0:
        return None
    outs = [native.run_scss("@use 'sass:math';\na{b: math.random(%d)}" % lim, prof) for prof in ("dev", "release")]
    bad = False
    got = []
    for r in outs:
        if r["outcome"] != "ok":
            bad = bad or r["outcome"] in ("panic", "crash")
            got.append("<%s> %s" % (r["outcome"], r["message"][:80]))
            continue
        m = re.search(r"b: (-?[0-9]+);", r["message"])
        got.append(m.group(1) if m else r["message"][:40])
        if not m or not (1 <= int(m.group(1)) <= lim):
            bad = True
    return {"scss": "math.random(%d)" % lim, "want": "an integer in [1, %d], no panic" % lim, "got": got, "reproduced": bad}


def lift_adjust(model, kind):
    old = amt = None
    for k, v in (model or {}).items():
        if "acc_" in k or "acc:" in k:
            old = smt.f64_from_model(v)
        if "arg.amount" in k:
            amt = smt.f64_from_model(v)
    if old is None or amt is None or not (0 <= old <= 1 and 0 <= amt <= 1):
        return None
    pct = lambda x: repr(round(x * 100, 9)) + "%"
    if kind in ("lighten", "darken"):
        src = "lightness(%s(hsl(120, 50%%, %s), %s))" % (kind, pct(old), pct(amt))
        want = old + amt if kind == "lighten" else old - amt
    else:
        src = "saturation(%s(hsl(120, %s, 50%%), %s))" % (kind, pct(old), pct(amt))
        want = old + amt if kind == "saturate" else old - amt
    want = min(max(want, 0.0), 1.0) * 100
    vals, outs = _css_value(src)
    bad = False
    for t in vals:
        m = re.match(r"(-?[0-9.e+-]+)%$", t)
        if not m or abs(float(m.group(1)) - want) > 1e-6:
            bad = True
    return {"scss": src, "want": "%r%%" % want, "got": vals, "reproduced": bad}


# native confirmation of structural (event-identity) obligations: fixed public-API probes per kernel
STRUCTURAL_PROBES = {
    "k_plus_minus_units": [("1in - 1cm", "0.6062992126in"), ("1in + 1cm", "1.3937007874in"), ("1cm - 1in", "-1.54cm"),
                           ("1 + 1px", "2px"), ("1px - 1", "0px"), ("2 - 1px", "1px"), ("1s - 1ms", "0.999s"), ("90deg + 1turn", "450deg")],
    "k_numeric_cmp": [("(1cm == 28.346456692913378pt) == (28.346456692913378pt == 1cm)", "true"),
                      ("(1cm == 28.34645669291339pt) == (28.34645669291339pt == 1cm)", "true"),
                      ("(5dppx == 480.0000000000001dpi) == (480.0000000000001dpi == 5dppx)", "true"),
                      ("(1in == 96.00000000000001px) == (96.00000000000001px == 1in)", "true"), ("1in > 2cm", "true"), ("2cm > 1in", "false"), ("1in == 2.54cm", "true"), ("2.54cm == 1in", "true"),
                      ("1s < 1ms", "false"), ("1 < 2px", "true"), ("1px == 1", "false")],
    "k_value_eq_symmetric": [("() == map-remove((a: 1), a)", "true"), ("map-remove((a: 1), a) == ()", "true"), ("\"a\" == a", "true"),
                             ("a == \"a\"", "true"), ("(1 2) == (1 2)", "true"), ("1 == 1px", "false"), ("1px == 1", "false"), ("null == false", "false")],
    "k_complement_grayscale": [("hue(complement(hsl(10, 50%, 50%)))", "190deg"), ("saturation(grayscale(hsl(10, 50%, 40%)))", "0%"),
                               ("lightness(grayscale(hsl(10, 50%, 40%)))", "40%"), ("hue(adjust-hue(hsl(10, 50%, 50%), 30deg))", "40deg")],
    "k_str_insert": [("str-insert(\"\u00e4bc\", \"X\", -2)", "\"\u00e4bXc\""), ("str-insert(\"\u00e9\u00e9\", \"X\", -3)", "\"X\u00e9\u00e9\""),
                     ("str-insert(\"abc\", \"X\", 2)", "\"aXbc\""), ("str-insert(abc, X, -1)", "abcX")],
    "k_str_slice": [("str-slice(\"\u00e4bc\", 2)", "\"bc\""), ("str-slice(\"\u00e4bc\", -2)", "\"bc\""), ("str-slice(abc, 2, 2)", "b")],
    "k_str_index_length": [("str-index(\"\u00e4bcd\", \"c\")", "3"), ("str-length(\"\u00e4\U0001F46D\")", "2"),("str-index(\"abcd\", \"c\")", "3"), ("inspect(str-index(\"abcd\", \"x\"))", "null"), ("str-length(\"abcd\")", "4"),
                           ("to-upper-case(\"ab\")", "\"AB\""), ("to-upper-case(ab)", "AB")],
    "k_append_join": [("join(c, [d e])", "c d e"), ("join((), [d e])", "d e"), ("join([c], d e)", "[c d e]"), ("append(a b, c, comma)", "a, b, c"), ("append((a, b), c)", "a, b, c"), ("join(a b, (c, d))", "a b c d"), ("join((a, b), c d)", "a, b, c, d"),
                      ("join(a, (b, c))", "a, b, c"), ("append([a], b)", "[a b]")],
    "k_list_separator": [("list-separator((a, b))", "comma"), ("list-separator(a b)", "space"), ("list-separator(())", "space"), ("is-bracketed([a])", "true"),
                         ("is-bracketed(a b)", "false")],
    "k_for_bounds": [("a { @for $i from 1in to 192px { b: $i } }", "a { b: 1in; }"), ("a { @for $i from 1 through 2px { b: $i } }", "a { b: 1; b: 2; }"),
                     ("a { @for $i from 3px through 1 { b: $i } }", "a { b: 3px; b: 2px; b: 1px; }"), ("a { @for $i from 1cm to 30mm { b: $i } }", "a { b: 1cm; b: 2cm; }")],
    "k_unitset_simplify": [("math.div(1, 1cm) * 1mm", "0.1"), ("math.div(1s, 1cm) * 1mm", "0.1s"), ("math.div(1, 1s) * 500ms", "0.5"),
                           ("math.div(144, 1in) * 36pt", "72"), ("math.div(1mm, 1cm)", "0.1"), ("1mm * math.div(1, 1cm)", "0.1"),
                           ("math.div(1cm * 1cm, 1mm)", "10cm"), ("math.div(1in, 1px) * 1px", "96px")],
    "k_map_find_value": [("map-get((a: 1, b: 2), b)", "2"), ("inspect(map-get((a: 1, b: 2), c))", "null"), ("map-has-key((a: 1), a)", "true"), ("map-has-key((a: 1), b)", "false"),
                         ("map.get((a: (b: (c: 3))), a, b, c)", "3"), ("inspect(map.get((a: (b: 2)), a, x))", "null"), ("inspect(map.get((a: 1), a, b))", "null"),
                         ("map.has-key((a: (b: 2)), a, b)", "true"), ("map-get((1: x), 1.0)", "x"), ("map-get((1px: x, 1: y), 1)", "y")],
    "k_map_literal": [("inspect((a: 1, b: 2))", "(a: 1, b: 2)"), ("inspect((a: 1, a: 2))", "<error>"), ("inspect((a: 1, \"a\": 2))", "<error>"), ("inspect((1: x, 1.0: y))", "<error>"),
                      ("inspect((1in: x, 96px: y))", "<error>"), ("inspect((a: 1, b: (a: 2)))", "(a: 1, b: (a: 2))"), ("inspect((a: 1, b: 2, a: 3))", "<error>")],
    "k_map_set_inner": [("inspect(map.set((a: (x: 1), b: 2), a, x, 3))", "(a: (x: 3), b: 2)"), ("inspect(map.set((a: 1, b: 2), a, 3))", "(a: 3, b: 2)"),
                        ("inspect(map.set((a: 1, b: 2), c, 3))", "(a: 1, b: 2, c: 3)"), ("inspect(map.set((a: 1, b: 2), a, x, 3))", "(a: (x: 3), b: 2)"),
                        ("inspect(map.set((a: 1), b, c, 3))", "(a: 1, b: (c: 3))"), ("inspect(map-get(map.set((1: x), 1.0, y), 1))", "y")],
    "k_deep_merge": [("inspect(map.deep-merge((c: (d: e)), (c: (1 2 3))))", "(c: 1 2 3)"), ("inspect(map.deep-merge((c: (d: e)), (c: ())))", "(c: (d: e))"),
                     ("inspect(map.deep-merge((c: (d: e)), (c: (f: g))))", "(c: (d: e, f: g))"), ("inspect(map.deep-merge((c: 1), (c: (f: g))))", "(c: (f: g))"),
                     ("inspect(map.deep-merge((c: (d: e)), (c: 2)))", "(c: 2)"), ("inspect(map.deep-merge((a: 1), (b: 2)))", "(a: 1, b: 2)")],
    "k_map_merge": [("inspect(map-merge((c: old), (c: new, e: f)))", "(c: new, e: f)"), ("inspect(map-merge((a: 1, b: 2), (b: 3)))", "(a: 1, b: 3)"),
                    ("inspect(map-merge((y: 0), (x: 1, y: 2, z: 3)))", "(y: 2, x: 1, z: 3)"), ("inspect(map-merge((), (a: 1)))", "(a: 1)")],
    "k_if_dispatch": [("@if () { a { b: 1 } } @else { a { b: 2 } }", "b: 1"), ("@if null { a { b: 1 } } @else { a { b: 2 } }", "b: 2"),
                      ("@if unquote(\"\") { a { b: 1 } } @else { a { b: 2 } }", "b: 1"), ("@if 0 { a { b: 1 } } @else { a { b: 2 } }", "b: 1"),
                      ("@if (null null) { a { b: 1 } } @else { a { b: 2 } }", "b: 1"), ("@if false { a { b: 1 } } @else if () { a { b: 3 } } @else { a { b: 2 } }", "b: 3")],
    "k_set_variable": {
        "": [("$x: 1; a { $x: 2 !global; } b { c: $x; }", "c: 2"), ("$x: 1; $x: 2 !default; b { c: $x; }", "c: 1"),
             ("$x: null; $x: 2 !default; b { c: $x; }", "c: 2"), ("$x: 1; a { $x: 2; d: $x; } b { c: $x; }", "c: 1"),
             ("a { $y: 1; @if true { $y: 2; } c: $y; }", "c: 2")],
        "an unflagged assignment updates the innermost enclosing scope": [("a { $y: 1; b { $y: 2; } c: $y; }", "c: 2")],
    },
    "k_comment_dispatch": {
        "": [("/* a #{1 + 1} */ x { y: z }", "/* a 2 */"), ("x { /* in */ y: z }", "/* in */"), ("[compressed]/* gone */ x { y: z }", "x{y:z}"),
             ("// silent\nx { y: z }", "x { y: z; }")],
        "a dropped comment is not a `/*!` comment": [("[compressed]/*! keep */ x { y: z }", "/*! keep */")],
    },
    "k_error_and_drop": {
        "": [("a { @error \"boom\"; }", "<error>"), ("@function f() { @error \"in f\"; @return 1 } a { b: f() }", "<error>"),
             ("@mixin m { @error \"in m\" } a { @include m }", "<error>"), ("a { @media x { b: c } }", "@media x { a { b: c; } }")],
        "a failing commit makes the compilation fail": [("a { font: { @media x { family: serif } size: 1px } }", "<error>")],
    },
    "k_and_or": [("inspect(() or 1)", "()"), ("null or 1", "1"), ("0 and 1", "1"), ("false and 1", "false"), ("\"\" or 2", "\"\""), ("inspect((null,) or 3)", "(null,)")],
    "k_binop_short_circuit": [("false and $undefined-variable", "false"), ("true or $undefined-variable", "true")],
    "k_is_true": [("if((), 1, 2)", "1"), ("if(unquote(\"\"), 1, 2)", "1"), ("if(0, 1, 2)", "1"), ("if(null, 1, 2)", "2")],
    "k_set_nth": [("set-nth(a b c, -3, x)", "x b c"), ("set-nth(a b c, 3, x)", "a b x"), ("set-nth((a, b), 1, x)", "x, b"), ("nth(a b c, -3)", "a")],
    # probes over several files: ({name: text}, entry, expected substring of the output or "<error>")
    "k_lock_loading": [
        (({"a.scss": '@import "b";\nx { y: a }\n', "_b.scss": '@import "a";\nx { y: b }\n'}, "a.scss"), "<error>"),
        (({"a.scss": '@import "b";\n@import "b";\nx { y: a }\n', "_b.scss": 'x { y: b }\n'}, "a.scss"), "x { y: b; } x { y: b; } x { y: a; }"),
        (({"a.scss": '@use "b";\nx { y: a }\n', "_b.scss": '@use "a";\nx { y: b }\n'}, "a.scss"), "<error>"),
        (({"a.scss": '@import "b";\n@import "c";\n', "_b.scss": '@import "c";\nx { y: b }\n', "_c.scss": 'x { y: c }\n'}, "a.scss"), "x { y: c; } x { y: b; } x { y: c; }"),
        (({"a.scss": '@import "./b";\n@import "./b";\nx { y: a }\n', "_b.scss": 'x { y: b }\n'}, "a.scss"), "x { y: b; } x { y: b; } x { y: a; }"),
        (({"a.scss": '@use "./b";\n@use "c";\n', "_b.scss": 'x { y: b }\n', "_c.scss": '@use "./b";\nx { y: c }\n'}, "a.scss"), "x { y: b; } x { y: c; }"),
    ],
    "k_find_file": [
        (({"a.scss": '@use "u";\n', "u.scss": "x { y: plain }\n", "_u.scss": "x { y: partial }\n"}, "a.scss"), "y: plain"),
        (({"a.scss": '@use "u";\n', "_u.scss": "x { y: partial }\n", "u/index.scss": "x { y: index }\n"}, "a.scss"), "y: partial"),
        (({"a.scss": '@use "u";\n', "u/index.scss": "x { y: index }\n", "u/_index.scss": "x { y: pindex }\n", "u.css": "x { y: css }\n"}, "a.scss"), "y: index"),
        (({"a.scss": '@use "u";\n', "u/_index.scss": "x { y: pindex }\n", "u.css": "x { y: css }\n"}, "a.scss"), "y: pindex"),
        (({"a.scss": '@use "u";\n', "u.css": "x { y: css }\n", "_u.css": "x { y: pcss }\n"}, "a.scss"), "y: css"),
        (({"a.scss": '@use "u";\n', "u.import.scss": "x { y: imp }\n", "_u.scss": "x { y: partial }\n"}, "a.scss"), "y: partial"),
        (({"a.scss": '@import "u";\n', "u.import.scss": "x { y: imp }\n", "u.scss": "x { y: plain }\n"}, "a.scss"), "y: imp"),
        (({"a.scss": '@import "u";\n', "_u.import.scss": "x { y: pimp }\n", "u.scss": "x { y: plain }\n"}, "a.scss"), "y: pimp"),
        (({"a.scss": '@import "u";\n', "_u.scss": "x { y: partial }\n", "u/index.import.scss": "x { y: iimp }\n"}, "a.scss"), "y: partial"),
        (({"a.scss": '@import "u";\n', "u/_index.import.scss": "x { y: piimp }\n", "u/index.scss": "x { y: index }\n"}, "a.scss"), "y: piimp"),
        (({"a.scss": '@use "nope";\n'}, "a.scss"), "<error>"),
        (({"d/a.scss": '@use "u";\n', "d/_u.scss": "x { y: sibling }\n", "_u.scss": "x { y: root }\n"}, "d/a.scss"), "y: sibling"),
    ],
    "k_lock_loading_extra": [],
    "k_load_module": [
        (({"a.scss": '@use "b";\n@use "c";\nx { y: a }\n', "_b.scss": '@use "c";\nx { y: b }\n', "_c.scss": 'x { y: c }\n'}, "a.scss"), "x { y: c; } x { y: b; } x { y: a; }"),
        (({"a.scss": '@use "b";\nx { y: b.$v }\n', "_b.scss": '$v: 1;\nx { y: b }\n'}, "a.scss"), "x { y: b; } x { y: 1; }"),
        (({"a.scss": '@use "b";\nx { y: a }\n', "_b.scss": '@error "boom";\n'}, "a.scss"), "<error>"),
        (({"a.scss": '@use "./b";\n@use "./b" as c;\nb.$n: 5;\nz { w: c.$n }\n', "_b.scss": '$n: 0;\nx { y: b }\n'}, "a.scss"), "w: 5"),
        (({"a.scss": '@use "./l";\n@use "./r";\nz { w: r.$seen }\n', "_l.scss": '@use "s";\ns.$n: 7;\n', "_r.scss": '@use "s";\n$seen: s.$n;\n', "_s.scss": '$n: 0;\n'}, "a.scss"), "w: 7"),
        (({"d/a.scss": '@use "m/b";\n@use "m/b" as c;\nb.$n: 5;\nz { w: c.$n }\n', "d/m/_b.scss": '$n: 0;\n'}, "d/a.scss"), "w: 5"),
    ],
    "k_math_bounding": [("math.ceil(1.2px)", "2px"), ("math.floor(-1.2em)", "-2em"), ("math.round(2.5)", "3"), ("math.round(-2.5)", "-3"), ("math.abs(-3%)", "3%"),
                        ("math.floor(1.8s)", "1s"), ("math.ceil(-1.8)", "-1"), ("math.round(0.49999)", "0"), ("round(3.5px)", "4px"), ("abs(-2in)", "2in")],
    "k_math_percentage": [("math.percentage(0.25)", "25%"), ("percentage(1.5)", "150%"), ("math.percentage(-0.07)", "-7%")],
    "k_math_clamp": [("math.clamp(1px, 5px, 3px)", "3px"), ("math.clamp(1px, 0px, 3px)", "1px"), ("math.clamp(1px, 2px, 3px)", "2px"),
                     ("math.clamp(5px, 2px, 3px)", "5px"), ("math.clamp(1in, 1px, 2in)", "1in"), ("math.clamp(0, 0.5, 1)", "0.5")],
    "k_css_clamp": [("clamp(1px, 5px, 3px)", "3px"), ("clamp(1px, 0px, 3px)", "1px"), ("clamp(1px, 2px, 3px)", "2px"), ("clamp(3px, 2px, 1px)", "3px"),
                    ("clamp(3, 0, 1)", "3"), ("clamp(1in, 50px, 1cm)", "1in"), ("clamp(1px, 2em, 3px)", "clamp(1px, 2em, 3px)")],
    "k_rgba_hex_text": [("#abc", "#abc"), ("#aabbcc", "#aabbcc"), ("rgb(18, 52, 86)", "rgb(18, 52, 86)"), ("change-color(#abc, $red: 18)", "#12bbcc"), ("[compressed]a{b: change-color(#aabbc0, $blue: 204)}", "#abc"),
                        ("[compressed]a{b: rgb(18, 52, 86)}", "#123456"), ("[compressed]a{b: #010203}", "#010203"), ("rgb(1, 2, 3)", "rgb(1, 2, 3)"), ("invert(#abc)", "#554433"),
                        ("[compressed]a{b: rgb(255, 0, 0)}", "red")],
    "k_find_extreme": [("math.max(1, 3, 2)", "3"), ("math.min(1, 3, 2, 0.5)", "0.5"), ("math.max(1px, 1in)", "1in"), ("math.min(1px, 1in)", "1px"),
                       ("math.max(3, 1, 2)", "3"), ("math.min(2, 3, 1)", "1"), ("max(1px, 1em)", "max(1px, 1em)"), ("math.max(2, 2.5, 2.25)", "2.5"),
                       ("math.min(1s, 500ms)", "500ms")],
    "k_formal_args_eval": [
        ("@function f($a, $b: $a * 2) { @return $b } a { b: f(3) }", "b: 6"),
        ("@function f($a, $b) { @return $a - $b } a { b: f($b: 1, $a: 5) }", "b: 4"),
        ("@function f($a, $b: 2) { @return $a + $b } a { b: f(1, $b: 5) }", "b: 6"),
        ("@function f($a, $b: 2) { @return $a + $b } a { b: f(1) }", "b: 3"),
        ("@function f($a) { @return $a } a { b: f(1, 2) }", "<error>"),
        ("@function f($a) { @return $a } a { b: f($c: 2) }", "<error>"),
        ("@function f($a) { @return $a } a { b: f() }", "<error>"),
        ("@function f($a) { @return $a } a { b: f(1, $a: 2) }", "<error>"),
        ("@function f($a, $rest...) { @return length($rest) } a { b: f(1, 2, 3) }", "b: 2"),
        ("@function f($a-b) { @return $a-b } a { b: f($a_b: 7) }", "b: 7"),
        ("@mixin m($x: 1, $y: $x + 1) { c: $y } a { @include m($x: 4) }", "c: 5"),
        ("$x: 10; @function f($x, $y: $x + 1) { @return $y } a { b: f(1) }", "b: 2"),
        ("@function boom() { @error \"boom\" } @function f($a: boom()) { @return $a } a { b: f($a: 1) }", "b: 1"),
        ("@function boom() { @error \"boom\" } @function f($a: boom()) { @return $a } a { b: f(1) }", "b: 1"),
        ("@function f($a: $undefined) { @return $a } a { b: f($a: 1) }", "b: 1"),
        ("@mixin m($a: $undefined) { c: $a } a { @include m($a: 3) }", "c: 3"),
    ],
    "k_get_list": [
        ("@function f($args...) { @return append($args, z) } a { b: f(a, b,) }", "b: a, b, z"),
        ("@function f($args...) { @return length(join($args, y z)) } a { b: f(a, b,) }", "b: 4"),
        ("@function f($args...) { @return set-nth($args, -1, q) } a { b: f(a, b,) }", "b: a, q"),
        ("@function f($args...) { @return append($args, z) } a { b: f(a, b) }", "b: a, b, z"),
        ("@function f($args...) { @return inspect(append($args, z)) } a { b: f(a, $k: v) }", "b: a, k v, z"),
        ("a { b: inspect(append((x: 1, y: 2), z)) }", "b: x 1, y 2, z"),
        ("a { b: inspect(join((), a b)) }", "b: a b"),
        ("a { b: append(solo, z) }", "b: solo z"),
        ("a { b: append([a, b], c) }", "b: [a, b, c]"),
    ],
    "k_nth": [("nth(a b c, 2)", "b"), ("nth(a b c, -1)", "c"), ("inspect(nth((x: 1, y: 2), 2))", "y 2"), ("inspect(nth((x: 1, y: 2), -2))", "x 1"), ("nth(solo, 1)", "solo"),
              ("nth(solo, -1)", "solo"), ("nth((a, b), 1)", "a"), ("nth([a b], 2)", "b"), ("inspect(nth((a b) (c d), 2))", "c d")],
    "k_call_args_splat": [
        ("@function f($a: 1) { @return $a } @function fwd($args...) { @return f($args..., $a: 9) } a { b: fwd($a: 1) }", "<error>"),
        ("@function f($a: 1) { @return $a } @function fwd($args...) { @return f($args...) } a { b: fwd($a: 5) }", "b: 5"),
        ("@function f($a: 1, $b: 2) { @return $a + $b } @function fwd($args...) { @return f($args..., $b: 9) } a { b: fwd($a: 1) }", "b: 10"),
        ("@function f($a: 1, $b: 2) { @return $a + $b } a { b: f((a: 3, b: 4)...) }", "b: 7"),
        ("@mixin m($w, $h) { w: $w; h: $h } @mixin fwd($args...) { @include m($args..., $h: 4) } a { @include fwd(3, $h: 5) }", "<error>"),
    ],
    "k_list_index": [("inspect(index(a b c, c))", "3"), ("inspect(index(a b a, a))", "1"), ("inspect(index((a: 1, b: 2), b 2))", "2"),
                     ("inspect(index((a: 1, b: 2), b 9))", "null"), ("inspect(index((a: 1, b: 2), x 2))", "null"), ("inspect(index((a: 1, b: 2), (b, 2)))", "null"),
                     ("inspect(index(a, a))", "1"), ("inspect(index(a, b))", "null"), ("inspect(index((a: 1, b: 2), [b 2]))", "null"),
                     ("inspect(index((a b) (c d), c d))", "2")],
    "k_fade": [("alpha(opacify(rgba(red, .5), .25))", "0.75"), ("alpha(transparentize(rgba(red, .5), .25))", "0.25"),
               ("alpha(fade-in(rgba(red, .5), .75))", "1")],
    "k_lighten_darken": [("lightness(darken(#333, 50%))", "0%"), ("lightness(lighten(#ccc, 50%))", "100%"),
                         ("saturation(desaturate(hsl(0, 20%, 50%), 50%))", "0%"), ("hue(lighten(hsl(77, 20%, 50%), 10%))", "77deg")],
}


STRUCTURAL_PROBES["k_lock_pairing"] = STRUCTURAL_PROBES["k_lock_loading"] + STRUCTURAL_PROBES["k_load_module"] + [
    (({"a.scss": '@import "r.css";\n@import "r.css";\n', "r.css": "x{y:z}"}, "a.scss"), "x { y: z; } x { y: z; }"),
    (({"a.scss": '@import "x";\n@import "y";\n', "_x.scss": '@import "r";\n', "_y.scss": '@import "r";\n', "r.css": "q{y:z}"}, "a.scss"), "q { y: z; } q { y: z; }"),
    (({"a.scss": '@import "http://x/y";\n@import "//x/z";\n@import url(foo);\n@import "q.css";\n'}, "a.scss"), '@import "http://x/y"; @import "//x/z"; @import url(foo); @import "q.css";'),
    (({"a.scss": '@import "nothere";\n'}, "a.scss"), "<error>"),
    (({"a.scss": '@import "http-helpers";\n'}, "a.scss"), "<error>"), (({"a.scss": '@import "httpstatus";\n'}, "a.scss"), "<error>"),
    (({"a.scss": '@import "https_only";\n'}, "a.scss"), "<error>"), (({"a.scss": '@import "http/mixins";\n'}, "a.scss"), "<error>"),
    (({"a.scss": '@import "/rooted";\n'}, "a.scss"), "<error>"), (({"a.scss": '@import "x.cssx";\n'}, "a.scss"), "<error>"), (({"a.scss": '@import "css";\n'}, "a.scss"), "<error>"),
    (({"a.scss": '@import "https://x/y";\n'}, "a.scss"), '@import "https://x/y";'),
    (({"a.scss": '@import "http-helpers";\n', "_http-helpers.scss": "x { y: found }\n"}, "a.scss"), "y: found"),
    (({"a.scss": '@import "nothere" screen;\n'}, "a.scss"), '@import "nothere" screen;'),
    (({"a.scss": '@use "m/lib";\n@use "m/mid";\n', "m/_lib.scss": ".lib { a: b }\n", "m/_mid.scss": '@use "lib";\n.mid { c: d }\n'}, "a.scss"), ".lib { a: b; } .mid { c: d; }"),
    (({"a.scss": '@use "a/mid" as am;\n@use "b/mid" as bm;\n', "a/_mid.scss": '@use "lib";\n.a-mid { v: lib.$v }\n', "a/_lib.scss": "$v: a;\n",
       "b/_mid.scss": '@use "lib";\n.b-mid { v: lib.$v }\n', "b/_lib.scss": "$v: b;\n"}, "a.scss"), ".a-mid { v: a; } .b-mid { v: b; }"),
]
STRUCTURAL_PROBES["k_load_css_lock"] = [
    (({"r.scss": '@use "sass:meta";\n@include meta.load-css("a");\n', "_a.scss": '@use "sass:meta";\n.x { @include meta.load-css("b"); }\n',
       "_b.scss": '@use "sass:meta";\n.y { @include meta.load-css("a"); }\n'}, "r.scss"), "<error>"),
    (({"r.scss": '@use "sass:meta";\n@include meta.load-css("a");\n@include meta.load-css("a");\n', "_a.scss": ".x { y: z }\n"}, "r.scss"), ".x { y: z; } .x { y: z; }"),
    (({"r.scss": '@use "sass:meta";\n@include meta.load-css("a");\n@include meta.load-css("b");\n', "_a.scss": '@use "sass:meta";\n@include meta.load-css("c");\n',
       "_b.scss": '@use "sass:meta";\n@include meta.load-css("c");\n', "_c.scss": ".c { y: z }\n"}, "r.scss"), ".c { y: z; } .c { y: z; }"),
    (({"a.scss": '@use "sass:meta";\n.x { @include meta.load-css("a"); }\n'}, "a.scss"), "<error>"),
]
_LIB = "$v: 1;\n@function f() { @return 2 }\n@mixin m { q: r }\n"
STRUCTURAL_PROBES["k_do_use_prefix"] = [
    (({"a.scss": '@use "mid";\nx { y: mid.p-f(); }\n', "_mid.scss": '@forward "lib" as p-* show p-f;\n', "_lib.scss": _LIB}, "a.scss"), "y: 2"),
    (({"a.scss": '@use "mid";\nx { y: mid.$p-v; }\n', "_mid.scss": '@forward "lib" as p-* show $p-v;\n', "_lib.scss": _LIB}, "a.scss"), "y: 1"),
    (({"a.scss": '@use "mid";\nx { y: mid.$p-v; }\n', "_mid.scss": '@forward "lib" as p-* hide $p-v;\n', "_lib.scss": _LIB}, "a.scss"), "<error>"),
    (({"a.scss": '@use "mid";\nx { y: mid.p-f(); }\n', "_mid.scss": '@forward "lib" as p-* hide p-f;\n', "_lib.scss": _LIB}, "a.scss"), "<error>"),
    (({"a.scss": '@use "mid";\nx { @include mid.p-m; }\n', "_mid.scss": '@forward "lib" as p-* hide p-m;\n', "_lib.scss": _LIB}, "a.scss"), "<error>"),
    (({"a.scss": '@use "mid";\nx { @include mid.p-m; }\n', "_mid.scss": '@forward "lib" as p-* show p-m;\n', "_lib.scss": _LIB}, "a.scss"), "q: r"),
    (({"a.scss": '@use "mid";\nx { y: mid.f(); }\n', "_mid.scss": '@forward "lib" show f;\n', "_lib.scss": _LIB}, "a.scss"), "y: 2"),
    (({"a.scss": '@use "mid";\nx { y: mid.$v; }\n', "_mid.scss": '@forward "lib" show f;\n', "_lib.scss": _LIB}, "a.scss"), "<error>"),
    (({"a.scss": '@use "mid";\nx { y: mid.p-f(); z: mid.$p-v }\n', "_mid.scss": '@forward "lib" as p-*;\n', "_lib.scss": _LIB}, "a.scss"), "y: 2; z: 1;"),
]
STRUCTURAL_PROBES["k_use_with"] = {
    "": [
        (({"a.scss": '@use "lib" with ($v: 1);\nx { y: lib.$v }\n', "_lib.scss": "$v: 2 !default;\n"}, "a.scss"), "y: 1"),
        (({"a.scss": '@use "lib" with ($v: 1, $w: 5);\nx { y: lib.$v + lib.$w }\n', "_lib.scss": "$v: 2 !default;\n$w: 3 !default;\n"}, "a.scss"), "y: 6"),
        (({"a.scss": '@use "lib" with ($v: 1, $v: 3);\nx { y: lib.$v }\n', "_lib.scss": "$v: 2 !default;\n"}, "a.scss"), "<error>"),
        (({"a.scss": '@use "lib" with ($v: null, $v: 3);\nx { y: lib.$v }\n', "_lib.scss": "$v: 2 !default;\n"}, "a.scss"), "<error>"),
        (({"a.scss": '@forward "lib" with ($v: null, $v: 3);\n', "_lib.scss": "$v: 2 !default;\n"}, "a.scss"), "<error>"),
        (({"a.scss": '@use "sass:math" with ($pi: 3);\nx { y: math.$pi }\n'}, "a.scss"), "<error>"),
        (({"a.scss": '@use "lib";\nx { y: lib.$v }\n', "_lib.scss": "$v: 2 !default;\n"}, "a.scss"), "y: 2"),
    ],
    "does not declare with !default": [
        (({"a.scss": '@use "lib" with ($nope: 1);\nx { y: lib.$v }\n', "_lib.scss": "$v: 2 !default;\n"}, "a.scss"), "<error>"),
        (({"a.scss": '@use "lib" with ($v: 1);\nx { y: lib.$v }\n', "_lib.scss": "$v: 2;\n"}, "a.scss"), "<error>"),
    ],
}
STRUCTURAL_PROBES["k_dest_start"] = [
    ("a { @supports (x: y) { b: c; @media screen { d: e } } }", "b: c"),
    ("a { @supports (x: y) { b: c; @media screen { d: e } f: g } }", "f: g"),
    ("a { b: c; @media screen { d: e } f: g }", "a { b: c; } @media screen { a { d: e; } } a { f: g; }"),
    ("a { @media screen { b: c; @supports (x: y) { d: e } } }", "b: c"),
    ("a { @foo bar { b: c; @media screen { d: e } } }", "b: c"),
    ("a { @media screen { b: c; @media (min-width: 1px) { d: e } } }", "b: c"),
    (".a { @supports (x: y) { @media screen { b: c } } }", "@supports (x: y) { @media screen { .a { b: c; } } }"),
    (".a { @media screen { @supports (x: y) { b: c } } }", "@media screen { @supports (x: y) { .a { b: c; } } }"),
    (".a { @foo bar { @media screen { b: c } } }", "@foo bar { @media screen { .a { b: c; } } }"),
    (".a { @font-face { b: c } }", "@font-face { b: c; }"),
]
STRUCTURAL_PROBES["k_bubble"] = [
    ("a { b: c; @media screen { d: e } f: g }", "a { b: c; } @media screen { a { d: e; } } a { f: g; }"),
    ("a { @media screen { d: e } }", "@media screen { a { d: e; } }"),
    ("a { @supports (x: y) { d: e } }", "@supports (x: y) { a { d: e; } }"),
    ("a { b: c; @keyframes k { from { d: e } } }", "a { b: c; } @keyframes k { from { d: e; } }"),
    ("a { b: c; @font-face { d: e } f: g }", "a { b: c; } @font-face { d: e; } a { f: g; }"),
    ("a { b: c; @foo bar { d: e } f: g }", "a { b: c; } @foo bar { a { d: e; } } a { f: g; }"),
    ("a { b: c; d { e: f } }", "a { b: c; } a d { e: f; }"),
]
STRUCTURAL_PROBES["k_loop_scopes"] = [
    ("$i: outer; a { @for $i from 1 through 2 { b: $i } c: $i }", "a { b: 1; b: 2; c: outer; }"),
    ("$x: outer; a { @each $x in 1 2 { b: $x } c: $x }", "a { b: 1; b: 2; c: outer; }"),
    ("a { @each $k, $v in (p: 1, q: 2) { #{$k}: $v } }", "a { p: 1; q: 2; }"),
    ("a { @for $i from 1 through 2 { $t: $i * 2; b: $t } }", "a { b: 2; b: 4; }"),
    ("$n: 0; @while $n < 2 { $n: $n + 1 !global; a { b: $n } }", "a { b: 1; } a { b: 2; }"),
    ("@each $x in a, b, c { @if $x == a { @error \"boom\" } .m-#{$x} { marker: $x } }", "<error>"),
    ("@for $i from 1 through 3 { @if $i == 1 { @error \"boom\" } .m-#{$i} { marker: $i } }", "<error>"),
    ("a { @each $x in 1 2 { p-#{$x}: nosuchfn($undefined) } }", "<error>"),
]
STRUCTURAL_PROBES["k_callable_scopes"] = [
    ("$x: outer; @function f() { @return $x } a { $x: inner; b: f() }", "b: outer"),
    ("$x: outer; @mixin m { c: $x } a { $x: inner; @include m }", "c: outer"),
    ("@function f($a) { @return $a } $y: 2; a { $y: 3; b: f($y) }", "b: 3"),
    ("@mixin m($a) { c: $a } $y: 2; a { $y: 3; @include m($y) }", "c: 3"),
    ("@mixin m { & b { c: d } } a { @include m }", "a b { c: d; }"),
    ("@function f() { @if true { @return 1 } @return 2 } a { b: f() }", "b: 1"),
]
STRUCTURAL_PROBES["k_declaration_arms"] = [
    ("a { b: 1 + 1; c: null; d: e }", "a { b: 2; d: e; }"),
    ("a { --x: #{1 + 1}; }", "a { --x: 2; }"),
    ("a { font: bold { family: serif; size: 1px } }", "a { font: bold; font-family: serif; font-size: 1px; }"),
    ("a { font: { family: serif } }", "a { font-family: serif; }"),
    ("a { b: 1px + 1s }", "<error>"),
    ("a { b: (x: y) }", "<error>"),
    ("a { b: $undefined }", "<error>"),
]
STRUCTURAL_PROBES["k_store_restore_locals"] = [
    ("$x: outer; .a { @each $x in 1 2 { i: $x; } $x: changed !global; v: $x; }", "v: changed"),
    ("$x: outer; .a { @each $x in 1 2 { i: $x; } v: $x; }", "v: outer"),
    (".a { $x: local; @each $x in 1 2 { i: $x; } v: $x; }", "v: local"),
    (".a { @each $x in 1 2 { i: $x; } v: variable-exists(x); }", "v: false"),
]
STRUCTURAL_PROBES["k_selector_ctx"] = [
    (".a { @at-root { @at-root .b & { c: d } } }", ".b .a { c: d; }"),
    (".a { @at-root .b & { c: d } }", ".b .a { c: d; }"),
    (".a { @at-root .b { c: d } }", ".b { c: d; }"),
    (".a { @at-root { .b { c: d } } }", ".b { c: d; }"),
    (".a { @at-root { & .b { c: d } } }", ".a .b { c: d; }"),
    (".a { .b & { c: d } }", ".b .a { c: d; }"),
    (".a { @at-root { @media print { @at-root .b & { c: d } } } }", "@media print { .b .a { c: d; } }"),
]
STRUCTURAL_PROBES["k_module_init"] = [
    (({"a.scss": '@use "lib";\n.main { c: d }\n', "_lib.scss": "/* hello */\n.lib { /* in rule */ a: b }\n"}, "[compressed]a.scss"), ".lib{a:b}.main{c:d}"),
    (({"a.scss": '@use "lib";\n.main { c: d }\n', "_lib.scss": "/* hello */\n.lib { a: b }\n"}, "a.scss"), "/* hello */ .lib { a: b; } .main { c: d; }"),
    (({"a.scss": '@forward "lib";\n.main { c: d }\n', "_lib.scss": "/* hello */\n.lib { a: b }\n"}, "[compressed]a.scss"), ".lib{a:b}.main{c:d}"),
    (({"a.scss": '@use "lib";\n.main { c: lib.$v }\n', "_lib.scss": "$v: 1 + 1;\n"}, "[compressed]a.scss"), ".main{c:2}"),
]
_FLAKY = {"a.scss": '@use "lib";\n@import "old";\na { b: lib.$x; c: $y }\n', "_lib.scss": "$x: 1;\n", "_old.scss": "$y: 2;\n"}
_C38_FORMATS = [("expanded", 10), ("compressed", 10), ("expanded", 3), ("compressed", 5)]
_C38_VALUES = ["(1/3)", "10px * 1.23456789", "red", "#aabbcc", "rgb(0, 0, 205)", "rgba(1, 2, 3, .4567891234)", '"a" + "b"', "(a, b c)", "1.5em + 2",
               "[a, b]", "1e-7", "1234567.891234567", "hsl(10deg, 20%, 30.123456789%)", "a b/c", "-0.00000001", "#{(10/3)}px", "w-#{(2/3)}", "calc(1px + #{(1/3)}%)"]
STRUCTURAL_PROBES["k_value_text"] = [(("rel", "value-vs-declaration", v, st, pr), None) for v in _C38_VALUES for st, pr in _C38_FORMATS]
_C38_DOCS = ["a { b: (1/3); c: 10px * 1.23456789 }", "a { b { c: d } /* k */ e: f }", "@media print { a { b: c } }", "a { b: (1/0) }", "a { @error \"no\" }",
             "a { b: ", "$x: 0.123456789; a { b: $x; c: rgba(1, 2, 3, $x) }", "@function f($a) { @return $a * 2 } a { b: f(1.00001) }"]
STRUCTURAL_PROBES["k_entry_points"] = [(("rel", "entries-agree", d, st, pr), None) for d in _C38_DOCS for st, pr in _C38_FORMATS]
STRUCTURAL_PROBES["k_for_path"] = STRUCTURAL_PROBES["k_entry_points"]
# C34: (module, local name, global name, positional arguments, parameter names) -- both forms, by position and by name
_C34_CALLS = [
    ("string", "quote", "quote", ["abc"], ["string"]), ("string", "index", "str-index", ['"abcb"', '"b"'], ["string", "substring"]),
    ("string", "insert", "str-insert", ['"abc"', '"X"', "2"], ["string", "insert", "index"]), ("string", "length", "str-length", ['"abc d"'], ["string"]),
    ("string", "slice", "str-slice", ['"abcdef"', "2", "4"], ["string", "start-at", "end-at"]), ("string", "slice", "str-slice", ['"abcdef"', "-3"], ["string", "start-at"]),
    ("string", "to-upper-case", "to-upper-case", ['"aBc"'], ["string"]), ("string", "to-lower-case", "to-lower-case", ['"aBc"'], ["string"]),
    ("string", "to-upper-case", "to-upper-case", ['"aB\u00e4\u00d6\u00df"'], ["string"]), ("string", "to-lower-case", "to-lower-case", ['"aB\u00e4\u00d6\u00dc"'], ["string"]),
    ("string", "length", "str-length", ['"\u00e4\u00f6\U0001F46D"'], ["string"]), ("string", "slice", "str-slice", ['"\u00e4b\u00e7d\U0001F46Df"', "2", "-2"], ["string", "start-at", "end-at"]),
    ("string", "index", "str-index", ['"\u00e4b\u00e7d"', '"\u00e7"'], ["string", "substring"]), ("string", "insert", "str-insert", ['"\u00e4b\u00e7"', '"X"', "-2"], ["string", "insert", "index"]),
    ("string", "quote", "quote", ['"a\\"b"'], ["string"]), ("string", "unquote", "unquote", ['"\\"a\\""'], ["string"]),
    ("string", "unquote", "unquote", ['"a b"'], ["string"]),
    ("list", "append", "append", ["(a b)", "c"], ["list", "val"]), ("list", "append", "append", ["(a b)", "c", "comma"], ["list", "val", "separator"]),
    ("list", "index", "index", ["(a b c)", "b"], ["list", "value"]), ("list", "is-bracketed", "is-bracketed", ["[a b]"], ["list"]),
    ("list", "join", "join", ["(a b)", "(c, d)"], ["list1", "list2"]), ("list", "length", "length", ["(a b c)"], ["list"]),
    ("list", "separator", "list-separator", ["(a, b)"], ["list"]), ("list", "nth", "nth", ["(a b c)", "-1"], ["list", "n"]),
    ("list", "set-nth", "set-nth", ["(a b c)", "2", "x"], ["list", "n", "value"]), ("list", "zip", "zip", ["(a b)", "(c d)"], None),
    ("map", "get", "map-get", ["(a: 1, b: 2)", "b"], ["map", "key"]), ("map", "has-key", "map-has-key", ["(a: 1, b: 2)", "c"], ["map", "key"]),
    ("map", "keys", "map-keys", ["(a: 1, b: 2)"], ["map"]), ("map", "merge", "map-merge", ["(a: 1)", "(b: 2, a: 3)"], ["map1", "map2"]),
    ("map", "remove", "map-remove", ["(a: 1, b: 2)", "a"], ["map", "key"]), ("map", "values", "map-values", ["(a: 1, b: 2)"], ["map"]),
    ("math", "ceil", "ceil", ["1.2px"], ["number"]), ("math", "floor", "floor", ["-1.2"], ["number"]), ("math", "percentage", "percentage", ["0.255"], ["number"]),
    ("math", "compatible", "comparable", ["1px", "2em"], ["number1", "number2"]), ("math", "compatible", "comparable", ["1px", "2in"], ["number1", "number2"]),
    ("math", "is-unitless", "unitless", ["1px"], ["number"]), ("math", "unit", "unit", ["1px"], ["number"]),
    ("meta", "inspect", "inspect", ["(a b, c)"], ["value"]), ("meta", "type-of", "type-of", ["1px"], ["value"]),
    ("meta", "feature-exists", "feature-exists", ['"at-error"'], ["feature"]), ("meta", "function-exists", "function-exists", ['"nth"'], ["name"]),
    ("meta", "variable-exists", "variable-exists", ['"nope"'], ["name"]), ("meta", "global-variable-exists", "global-variable-exists", ['"nope"'], ["name"]),
    ("meta", "mixin-exists", "mixin-exists", ['"nope"'], ["name"]),
    ("selector", "is-superselector", "is-superselector", ['"a"', '"a.b"'], ["super", "sub"]), ("selector", "append", "selector-append", ['"a"', '".b"'], None),
    ("selector", "extend", "selector-extend", ['"a.b"', '".b"', '".c"'], ["selector", "extendee", "extender"]), ("selector", "nest", "selector-nest", ['"a"', '"b"'], None),
    ("selector", "parse", "selector-parse", ['"a b, c"'], ["selector"]), ("selector", "replace", "selector-replace", ['"a.b"', '".b"', '".c"'], ["selector", "original", "replacement"]),
    ("selector", "unify", "selector-unify", ['"a"', '".b"'], ["selector1", "selector2"]), ("selector", "simple-selectors", "simple-selectors", ['"a.b"'], ["selector"]),
    ("color", "adjust", "adjust-color", ["#abc", "$red: 5"], None), ("color", "change", "change-color", ["#abc", "$lightness: 5%"], None),
    ("color", "scale", "scale-color", ["#abc", "$red: 10%"], None), ("color", "complement", "complement", ["#abc"], ["color"]),
    ("color", "ie-hex-str", "ie-hex-str", ["rgba(1, 2, 3, .5)"], ["color"]), ("color", "mix", "mix", ["#abc", "#123", "30%"], ["color1", "color2", "weight"]),
    ("color", "red", "red", ["#abc"], ["color"]), ("color", "green", "green", ["#abc"], ["color"]), ("color", "blue", "blue", ["#abc"], ["color"]),
    ("color", "hue", "hue", ["#abc"], ["color"]), ("color", "saturation", "saturation", ["#abc"], ["color"]), ("color", "lightness", "lightness", ["#abc"], ["color"]),
    ("color", "alpha", "alpha", ["rgba(1, 2, 3, .5)"], ["color"]),
]


def _c34_probes():
    out = []
    for mod, lname, gname, args, names in _C34_CALLS:
        pos = ", ".join(args)
        out.append((("rel", "same-value", "%s(%s)" % (gname, pos), "%s.%s(%s)" % (mod, lname, pos)), None))
        if names:
            named = ", ".join("$%s: %s" % (n, a) for n, a in zip(names, args))
            out.append((("rel", "same-value", "%s(%s)" % (gname, named), "%s.%s(%s)" % (mod, lname, named)), None))
            out.append((("rel", "same-value", "%s.%s(%s)" % (mod, lname, pos), "%s.%s(%s)" % (mod, lname, named)), None))
            if len(args) > 1:   # mixed: first by position, the rest by name
                mixed = ", ".join([args[0]] + ["$%s: %s" % (n, a) for n, a in list(zip(names, args))[1:]])
                out.append((("rel", "same-value", "%s(%s)" % (gname, mixed), "%s.%s(%s)" % (mod, lname, pos)), None))
        out.append((("rel", "same-value", "meta.call(meta.get-function(%s), %s)" % ('"%s"' % gname, pos), "%s(%s)" % (gname, pos)), None))
    return out


STRUCTURAL_PROBES["k_expose_tables"] = _c34_probes()


def _c33_name_probes():
    """named colours whose CSS values are beyond doubt; each is read back channel by channel and, where the compressed
    printer prefers the name (name no longer than the hex form, first name of its value in the table), printed from bytes
    (aqua/cyan, gray/grey, fuchsia/magenta are left out of the printing direction: which synonym is printed is not part of the property)"""
    cols = {"red": (255, 0, 0), "tan": (210, 180, 140), "navy": (0, 0, 128), "teal": (0, 128, 128), "lime": (0, 255, 0),
            "pink": (255, 192, 203), "plum": (221, 160, 221), "gold": (255, 215, 0), "peru": (205, 133, 63), "snow": (255, 250, 250),
            "azure": (240, 255, 255), "beige": (245, 245, 220), "coral": (255, 127, 80), "olive": (128, 128, 0), "ivory": (255, 255, 240), "khaki": (240, 230, 140),
            "linen": (250, 240, 230), "wheat": (245, 222, 179)}
    out = []
    for n, (r, g, b) in sorted(cols.items()):
        out += [("red(%s)" % n, str(r)), ("green(%s)" % n, str(g)), ("blue(%s)" % n, str(b)), ("[compressed]a{b: rgb(%d, %d, %d)}" % (r, g, b), "b:%s}" % n)]
    out += [("green(aqua)", "255"), ("red(gray)", "128"), ("red(cyan)", "0"), ("blue(cyan)", "255"), ("green(grey)", "128"), ("red(Tan)", "210"), ("%s" % "tan", "tan"), ("alpha(transparent)", "0")]
    return out


STRUCTURAL_PROBES["k_rgba_name"] = _c33_name_probes()
STRUCTURAL_PROBES["k_unique_id"] = [(("rel", "threads-differ"), None), ("str-length(unique-id()) > 1", "true")]
STRUCTURAL_PROBES["k_rgba_transparent"] = [
    ("[compressed]a{b: rgba(0, 0, 0, 0)}", "b:transparent}"), ("[compressed]a{b: rgba(0, 0, 0, 0.001)}", "b:rgba(0,0,0,.001)}"), ("[compressed]a{b: rgba(0.4, 0.25, 0.3, 0)}", "b:rgba(.4,.25,.3,0)}"),
    ("[compressed]a{b: rgba(1, 0, 0, 0)}", "b:rgba(1,0,0,0)}"), ("[compressed]a{b: transparentize(rgba(0, 0, 0, 0.5), 0.499)}", "b:rgba(0,0,0,.001)}"),
    ("[compressed]a{b: transparent}", "b:transparent}"), ("rgba(0, 0, 0, 0)", "rgba(0, 0, 0, 0)"),
]
STRUCTURAL_PROBES["k_meta_call"] = [p for p in _c34_probes() if "meta.call" in p[0][2]] + [
    (("rel", "same-value", "meta.call(meta.get-function(\"f\"), 2, $b: 3)", "f(2, $b: 3)"), None),
    (("rel", "same-value", "meta.call(meta.get-function(\"f\"), (2 3)...)", "f(2, 3)"), None),
    (("rel", "same-value", "meta.call(meta.get-function(\"length\", $module: \"string\"), \"abc\")", "string.length(\"abc\")"), None),
    (("rel", "same-value", "meta.call(meta.get-function(\"nth\"), (a b c), $n: 2)", "nth((a b c), $n: 2)"), None),
    # a user function shadowing a built-in, and a star-used module member named like another global: both forms must pick the same one
    (("rel", "same-value", "meta.call(meta.get-function(\"percentage\"), 4)", "percentage(4)", "@function percentage($number) { @return $number * 2 }\n"), None),
    (("rel", "same-value", "meta.call(meta.get-function(\"nth\"), (a b c), 2)", "nth((a b c), 2)", "@function nth($l, $i) { @return shadow }\n"), None),
    (("rel", "same-value", "meta.function-exists(\"g\")", "true", "@function g() { @return 1 }\n"), None),
]
STRUCTURAL_PROBES["k_placeholder_algebra"] = [
    ("[exact]a, %p { b: c }", "a { b: c; }"), ("[exact]%p { b: c }", ""), ("[exact]a:not(%p) { b: c }", "a { b: c; }"), ("[exact]a:is(%p) { b: c }", ""),
    ("[exact]a:is(%p, b) { b: c }", "a:is(b) { b: c; }"), ("[exact]a %p, c { b: c }", "c { b: c; }"), ("[exact]:not(%p) { b: c }", "* { b: c; }"),
    ("[exact]a:not(%p, b) { b: c }", "a:not(b) { b: c; }"), ("[exact]%p a, d > %q, e { b: c }", "e { b: c; }"), ("[exact]a { %p & { b: c } }", ""),
    ("[exact]%p { a { b: c } }", ""), ("[exact]a:not(:is(%p)) { b: c }", "a { b: c; }"), ("[exact]a:where(%p, b c) { b: c }", "a:where(b c) { b: c; }"),
    ("[exact]x %p y { b: c } z { d: e }", "z { d: e; }"), ("[exact]a:matches(%p) { b: c }", ""), ("[exact]a:not(%p):not(b) { b: c }", "a:not(b) { b: c; }"),
    ("[exact]a, %p, b, %q, c { d: e }", "a, b, c { d: e; }"), ("[exact]a:hover, %p:hover { d: e }", "a:hover { d: e; }"),
    ("[exact]a::before, %p::before { d: e }", "a::before { d: e; }"), ("[exact]a:has(%p) { d: e }", ""), ("[exact]a:not(%p) b:is(%q) { d: e }", ""),
    ("[exact]a:is(> b, %p) { d: e }", ""), ("[exact][compressed]a, %p, b { d: e }", "a,b{d:e}"), ("[exact][compressed]a:not(%p, b) c, %q { d: e }", "a:not(b) c{d:e}"),
    ("[exact]a:not(%p) > b, c:is(%q) + d, e { f: g }", "a > b, e { f: g; }"), ("[exact]a:not(b:not(%p)) { f: g }", "a:not(b) { f: g; }"),
    ("[exact]a:not(:not(%p)) { f: g }", ""), ("[exact]a:is(b:not(%p), %q c) { f: g }", "a:is(b) { f: g; }"),
    ("[exact]a, :not(%p) { b: c }", "* { b: c; }"), ("[exact]a:is(:not(%p)) { b: c }", "a { b: c; }"), ("[exact]:is(:not(%p)) x { c: d }", "x { c: d; }"),
    ("[exact]a:not(:not(%p), b) { f: g }", ""), ("[exact]a:not(:is(:not(%p))) { f: g }", ""), ("[exact]> a { b: c }", "> a { b: c; }"),
    ("[exact]a { > b { c: d } }", "a > b { c: d; }"),
]
_C40_A = "a { b: (1/3); c: 10px * 1.23456789 }\n"
_C40_B = "@use 'lib'; d { e: lib.$v }\n"
_C40_PROBES = []
for _st, _pr in (("expanded", 5), ("compressed", 5), ("expanded", 0), ("compressed", 12), ("expanded", 10)):
    _fmt = (["--style", _st] if _st != "expanded" else []) + (["--precision", str(_pr)] if _pr != 5 else [])
    _C40_PROBES += [
        (("rel", "cli", {"files": {"a.scss": _C40_A}, "argv": _fmt + ["a.scss"], "equals_api": ["a.scss"], "format": (_st, _pr)}), None),
        (("rel", "cli", {"files": {"a.scss": _C40_A, "x/b.scss": _C40_B, "x/_lib.scss": "$v: (2/3);"}, "argv": _fmt + ["a.scss", "x/b.scss", "a.scss"],
                         "equals_api": ["a.scss", "x/b.scss", "a.scss"], "format": (_st, _pr)}), None),
    ]
_C40_PROBES += [
    (("rel", "cli", {"files": {"a.scss": _C40_A}, "argv": ["-t", "compressed", "a.scss"], "equals_api": ["a.scss"], "format": ("compressed", 5)}), None),
    (("rel", "cli", {"files": {"a.scss": "a { b: "}, "argv": ["a.scss"], "fails": True}), None),
    (("rel", "cli", {"files": {"a.scss": "a { @error \"no\" }"}, "argv": ["a.scss"], "fails": True}), None),
    (("rel", "cli", {"files": {}, "argv": ["missing.scss"], "fails": True}), None),
    (("rel", "cli", {"files": {"a.scss": _C40_A, "bad.scss": "a { b: "}, "argv": ["a.scss", "bad.scss", "a.scss"], "fails": True, "stdout_is_api": ["a.scss"]}), None),
    # --load-path: found there when the input's own directory has nothing ...
    (("rel", "cli", {"files": {"x/b.scss": _C40_B, "inc/_lib.scss": "$v: 7;", "y/b.scss": _C40_B, "y/_lib.scss": "$v: 7;"}, "argv": ["-I", "{dir}/inc", "x/b.scss"], "same_as": ["y/b.scss"]}), None),
    (("rel", "cli", {"files": {"x/b.scss": _C40_B, "inc/_lib.scss": "$v: 7;", "y/b.scss": _C40_B, "y/_lib.scss": "$v: 7;"}, "argv": ["--load-path", "inc", "x/b.scss"], "same_as": ["y/b.scss"]}), None),
    # ... and the input file's own directory wins over --load-path
    (("rel", "cli", {"files": {"x/b.scss": _C40_B, "x/_lib.scss": "$v: own;", "inc/_lib.scss": "$v: other;", "y/b.scss": _C40_B, "y/_lib.scss": "$v: own;"},
                     "argv": ["-I", "inc", "x/b.scss"], "same_as": ["y/b.scss"]}), None),
    (("rel", "cli", {"files": {"x/b.scss": _C40_B}, "argv": ["-I", "inc", "x/b.scss"], "fails": True}), None),
]
STRUCTURAL_PROBES["k_cli"] = _C40_PROBES
_C07_DOCS = ["a { b: c }", "", "a { b: c }\n\n\n", "@import 'x.css';", "@foo bar;", "@x #{\"\\a\"};", "@x y#{\"\\a\"};", "a { b: c } @x #{\"\\a \\a\"};",
             "a { b: \"\u00e4\" }", "/* \u00e4 */ a { b: c }", "@foo \"bl\u00e5b\u00e4r\";", "@media (foo: \"\u00e9\") { a { b: c } }", "@foo b\\e5 r;",
             "@import url(foo.css) scr\u00e9en;", ".\u00e4 { b: c }", "a { --x: \u00e4 }", "a { b: c; }\n/* d */\n", "a { --x: {\n} }", "@media print { a { b: c } }\n"]
STRUCTURAL_PROBES["k_output_frame"] = [(("rel", "framed", d, st) + (("nonascii",) if any(ord(ch) > 127 for ch in d) and "/*" not in d else ()), None) for d in _C07_DOCS for st in ("expanded", "compressed")]
STRUCTURAL_PROBES["k_do_find_file"] = STRUCTURAL_PROBES["k_find_file"] + [((_FLAKY, "[fail-lookup %d]a.scss" % k), "<error>") for k in range(6)] + [
    ((_FLAKY, "[fail-lookup 99]a.scss"), "a { b: 1; c: 2; }")]
# read failures (the file is found, reading it fails): every kind of load, in particular the ones whose "not found" is not an error
_FLAKY_READ = {"a.scss": '@use "u";\n@import "p.css";\n@import "q";\na { b: u.$v; }\n', "_u.scss": "$v: 1;\n", "p.css": "p { q: r }\n", "_q.scss": "s { t: u }\n"}
STRUCTURAL_PROBES["k_find_file"] = STRUCTURAL_PROBES["k_find_file"] + [((_FLAKY_READ, "[fail-read %d]a.scss" % k), "<error>") for k in range(3)] + [
    ((_FLAKY_READ, "[fail-read 99]a.scss"), "p { q: r; } s { t: u; } a { b: 1; }"),
    (({"a.scss": '@import "reset.css";\na { b: c }\n', "reset.css": "x { y: z }\n"}, "[fail-read 0]a.scss"), "<error>"),
    (({"a.scss": '@use "sass:meta";\na { @include meta.load-css("m") }\n', "_m.scss": "x { y: z }\n"}, "[fail-read 0]a.scss"), "<error>")]
STRUCTURAL_PROBES["k_fsloader_find"] = STRUCTURAL_PROBES["k_find_file"]


def structural_probe(kernel, label=""):
    probes = STRUCTURAL_PROBES.get(kernel)
    if isinstance(probes, dict):
        # probes keyed by a substring of the obligation text ("" = default)
        chosen = None
        for key, val in probes.items():
            if key and key in label:
                chosen = val
        probes = chosen if chosen is not None else probes.get("")
    if not probes:
        return None
    diffs = []
    for src, want in probes:
        if isinstance(src, tuple) and src and src[0] == "rel":  # a relation between native runs, no expected text
            d = relation_probe(src)
            if d:
                diffs.append(d)
            continue
        if isinstance(src, tuple):  # several files on disk
            files, entry = src
            comp = entry.startswith("[compressed]")
            entry = entry[len("[compressed]"):] if comp else entry
            fail = None
            m_fail = re.match(r"\[fail-lookup (\d+)\](.*)", entry)
            if m_fail:
                fail, entry = int(m_fail.group(1)), m_fail.group(2)
            fail_read = None
            m_fail = re.match(r"\[fail-read (\d+)\](.*)", entry)
            if m_fail:
                fail_read, entry = int(m_fail.group(1)), m_fail.group(2)
            outs = [native.run_files(files, entry, prof, comp, fail, fail_read) for prof in ("dev", "release")]
            vals = [(" ".join(r["message"].split()) if r["outcome"] == "ok" else "<%s>" % r["outcome"]) for r in outs]
            if any(want not in v for v in vals):
                diffs.append({"files": files, "entry": entry, "want": want, "got": vals})
            continue
        if "{" in src:  # a whole stylesheet: the expected text must occur in the output ([exact]: be the output)
            exact = src.startswith("[exact]")
            src1 = src[len("[exact]"):] if exact else src
            comp = src1.startswith("[compressed]")
            doc = src1[len("[compressed]"):] if comp else src1
            outs = [native.run_scss(doc, prof, comp) for prof in ("dev", "release")]
            vals = [(" ".join(r["message"].split()) if r["outcome"] == "ok" else "<%s>" % r["outcome"]) for r in outs]
            if any((want != v) if exact else (want not in v) for v in vals):
                diffs.append({"scss": src, "want": want, "got": vals})
            continue
        vals, outs = _css_value(src)
        if any(v != want for v in vals):
            diffs.append({"scss": src, "want": want, "got": vals})
    return {"probes": len(probes), "disagreements": diffs, "reproduced": bool(diffs) or None}


_FULL_PRELUDE = ("@use 'sass:math'; @use 'sass:color'; @use 'sass:string'; @use 'sass:list'; @use 'sass:map'; "
                 "@use 'sass:meta'; @use 'sass:selector';\n@function f($a, $b: 10) { @return $a * 100 + $b }\n")


def _decl_value(r, compressed):
    if r["outcome"] != "ok":
        return "<%s>" % r["outcome"]
    m = re.search(r"y:(.*?)}" if compressed else r"y: (.*);", r["message"], re.S)
    return m.group(1) if m else "<no declaration>"


def relation_probe(src):
    """("rel", kind, ...) -> None if the relation holds natively in both profiles, else a description."""
    kind = src[1]
    for prof in ("dev", "release"):
        if kind == "same-value":          # two expressions must print the same (or both fail)
            a, b = src[2], src[3]
            extra = src[4] if len(src) > 4 else ""
            ra = native.run_scss(_FULL_PRELUDE + extra + "x{y: meta.inspect(%s)}" % a, prof)
            rb = native.run_scss(_FULL_PRELUDE + extra + "x{y: meta.inspect(%s)}" % b, prof)
            va, vb = _decl_value(ra, False), _decl_value(rb, False)
            if va != vb:
                return {"relation": "%s == %s" % (a, b), "profile": prof, "got": [va, vb]}
        elif kind == "value-vs-declaration":   # compile_value(v) == the text of `y: v` in a declaration
            v, style, prec = src[2], src[3], src[4]
            rv = native.run_api("value", style, prec, v, prof)
            rd = native.run_api("scss", style, prec, "x{y: %s}" % v, prof)
            tv = rv["message"] if rv["outcome"] == "ok" else "<%s>" % rv["outcome"]
            td = _decl_value(rd, style == "compressed")
            if tv != td:
                return {"relation": "compile_value(%s) == declaration text [%s, precision %s]" % (v, style, prec), "profile": prof, "got": [tv, td]}
        elif kind == "entries-agree":          # compile_scss == for_cwd().with_format().transform() == compile_scss_path(file with the same bytes)
            doc, style, prec = src[2], src[3], src[4]
            import shutil
            import tempfile
            d = tempfile.mkdtemp(prefix="kaj-rsass-c38-")
            try:
                with open(os.path.join(d, "in.scss"), "w") as f:
                    f.write(doc)
                outs = [native.run_api(e, style, prec, a, prof) for e, a in (("scss", doc), ("transform", doc), ("path", os.path.join(d, "in.scss")))]
            finally:
                shutil.rmtree(d, ignore_errors=True)
            texts = [(r["message"] if r["outcome"] == "ok" else "<%s>" % r["outcome"]) for r in outs]
            if len(set(texts)) != 1:
                return {"relation": "compile_scss == transform == compile_scss_path [%s, precision %s] on %r" % (style, prec, doc), "profile": prof, "got": texts}
        elif kind == "threads-differ":         # unique-id() values produced on three different threads of one process are pairwise distinct
            outs = native.run_threads("a{b: unique-id(); c: unique-id()}", prof)
            ids = re.findall(r"[bc]: ([^;]+);", "".join(outs or []))
            if outs is None or len(ids) != 6 or len(set(ids)) != 6 or not all(re.fullmatch(r"[a-zA-Z_][a-zA-Z0-9_-]*", x) for x in ids):
                return {"relation": "six unique-id() calls on three threads give six distinct identifiers", "profile": prof, "got": ids or outs}
        elif kind == "framed":                 # the framing of a real output: one final newline, charset / BOM iff non-ASCII
            doc, style = src[2], src[3]
            r = native.run_api("scss", style, 5, doc, prof)
            if r["outcome"] != "ok":
                return {"relation": "framed(%r, %s)" % (doc, style), "profile": prof, "got": r["outcome"]}
            out = r["message"]
            ok = out == "" or (out.endswith("\n") and not out.endswith("\n\n"))
            mark = "\ufeff" if style == "compressed" else '@charset "UTF-8";\n'
            ascii_only = all(ord(ch) < 128 for ch in out)
            ok = ok and (ascii_only or out.startswith(mark)) and not (ascii_only and src[4:] == ("nonascii",))
            if not ok:
                return {"relation": "framed(%r, %s)" % (doc, style), "profile": prof, "got": out}
        elif kind == "cli":                    # the real rsass binary against the library (and against itself)
            spec = src[2]
            import shutil
            import tempfile
            d = tempfile.mkdtemp(prefix="kaj-rsass-c40-")
            try:
                for name, text in spec["files"].items():
                    os.makedirs(os.path.dirname(os.path.join(d, name)) or d, exist_ok=True)
                    with open(os.path.join(d, name), "w") as f:
                        f.write(text)
                r = native.run_cli([a.replace("{dir}", d) for a in spec["argv"]], d, prof)
                bad = None
                if "equals_api" in spec:
                    style, prec = spec.get("format", ("expanded", 5))
                    want = ""
                    for entry in spec["equals_api"]:
                        o = native.run_api("path", style, prec, os.path.join(d, entry), prof)
                        want += o["message"] if o["outcome"] == "ok" else "<%s>" % o["outcome"]
                    if r["code"] != 0 or r["stdout"] != want:
                        bad = [r["code"], r["stdout"], want]
                if spec.get("fails"):
                    if r["code"] in (0, None) or not r["stderr"].startswith("Error: "):
                        bad = [r["code"], r["stderr"][:200]]
                    if "stdout_is_api" in spec:
                        style, prec = spec.get("format", ("expanded", 5))
                        want = "".join(native.run_api("path", style, prec, os.path.join(d, e), prof)["message"] for e in spec["stdout_is_api"])
                        if r["stdout"] != want:
                            bad = [r["code"], r["stdout"], want]
                if "same_as" in spec:
                    r2 = native.run_cli([a.replace("{dir}", d) for a in spec["same_as"]], d, prof)
                    if (r["code"], r["stdout"]) != (r2["code"], r2["stdout"]) or r["code"] != 0:
                        bad = [r["code"], r["stdout"], r2["code"], r2["stdout"]]
            finally:
                shutil.rmtree(d, ignore_errors=True)
            if bad:
                return {"relation": "rsass %s" % " ".join(spec["argv"]), "profile": prof, "got": bad}
    return None


def lift(ob):
    kind = ob.get("lift")
    model = ob.get("model")
    try:
        if kind == "random":
            return lift_random(model)
        if kind and kind.startswith("adjust:"):
            return lift_adjust(model, kind.split(":", 1)[1])
        if kind == "str-slice":
            return lift_str_slice(model)
        if kind == "str-insert":
            return lift_str_insert(model)
        if kind == "nth":
            return lift_nth(model)
        if kind == "not":
            return lift_not(model, ob.get("variants", []))
        if kind == "deg_mod":
            return lift_deg_mod(model)
        if kind and kind.startswith("math1:"):
            return lift_math1(model, kind.split(":", 1)[1])
        if kind == "hexcolor":
            return lift_hexcolor(model)
        if kind == "namedcolor":
            return lift_namedcolor(model)
        if kind == "transparent":
            return lift_transparent(model)
        if kind == "index-map":
            return lift_index_map(model)
    except Exception as e:  # a broken lifter must not turn into a verdict
        return {"error": repr(e), "reproduced": None}
    return None


# ------------------------------------------------------------------ translator validation

def validate_references(pid, log):
    """Cheap per-run cross-check of the reference models used in the obligations
    against the real build (public API), on seed-driven concrete inputs."""
    import random
    rnd = random.Random(seed() * 7919 + 13)
    n = 0
    bad = []
    if pid in ("C26", "C01"):
        for _ in range(10):
            ln = rnd.randint(0, 7)
            s = SAMPLE[:ln]
            a, b = rnd.randint(-ln - 2, ln + 2), rnd.randint(-ln - 2, ln + 2)
            vals, _ = _css_value('str-slice("%s", %d, %d)' % (s, a, b))
            n += 1
            if any(v != '"%s"' % ref_slice(s, a, b) for v in vals):
                bad.append(('str-slice("%s",%d,%d)' % (s, a, b), vals, ref_slice(s, a, b)))
            i = rnd.randint(-ln - 2, ln + 2)
            vals, _ = _css_value('str-insert("%s", "XY", %d)' % (s, i))
            n += 1
            if any(v != '"%s"' % ref_insert(s, "XY", i) for v in vals):
                bad.append(('str-insert("%s","XY",%d)' % (s, i), vals, ref_insert(s, "XY", i)))
    if pid in ("C28",):
        for _ in range(10):
            ln = rnd.randint(1, 6)
            k = rnd.randint(-ln - 1, ln + 1)
            r = lift_nth({"n#": "(_ bv%d 64)" % (k % (1 << 64)), "len": "(_ bv%d 64)" % ln})
            n += 1
            if r and r["reproduced"]:
                bad.append((r["scss"], r["got"], r["want"]))
    return n, bad


# ------------------------------------------------------------------ main entry

def run(pid, tier, known, log, write_replay_file):
    names = KERNELS.get(pid, [])
    if not names:
        return [], [], [], []
    E = get_engine(log)
    known_ids = {k["id"]: k for k in known if k.get("status") == "known" and k.get("property") == pid and k.get("engine") == "E2"}
    records, violations, inconclusive, known_hits = [], [], [], []
    for kn in names:
        fn = getattr(kernels, kn, None) or getattr(kernels2, kn, None)
        if fn is None:
            inconclusive.append("E2 kernel %s is not implemented" % kn)
            continue
        t0 = time.time()
        try:
            sym.CURRENT_KERNEL = kn
            rec = fn(E, tier)
            if pid in PANIC_ONLY:
                rec.obligations = [o for o in rec.obligations if o["obligation"].startswith("no panic")]
                rec.kernel += " (panic obligations)"
                if not rec.obligations:
                    continue
            d = rec.to_dict()
        except sym.Unsupported as e:
            inconclusive.append("E2 %s: outside the supported MIR subset: %s" % (kn, str(e)[:300]))
            log("  E2 %s: unsupported: %s" % (kn, str(e)[:200]))
            continue
        d["wall_s"] = round(time.time() - t0, 2)
        d["witnesses"] = []
        for ob in d["obligations"]:
            if ob["verdict"] == "holds":
                continue
            if ob["verdict"] == "inconclusive":
                inconclusive.append("E2 %s: %s: no verdict %s" % (kn, ob["obligation"], ob.get("solvers")))
                continue
            # violated: a solver model (or a structural mismatch) is only reported when it is confirmed natively,
            # through the lifter of this obligation or the public-API probes of this kernel
            has_native = bool(ob.get("lift")) or kn in STRUCTURAL_PROBES
            lf = lift(ob)
            if lf is None or lf.get("reproduced") is None:
                pr = structural_probe(kn, ob["obligation"])
                if pr is not None:
                    if lf is not None:
                        pr["lifter"] = lf
                    lf = pr
            ob["lifted"] = lf
            kmatch = None
            for kid, k in known_ids.items():
                if k.get("kernel") == kn and any(l in ob["obligation"] for l in k.get("labels", [])):
                    kmatch = k
            if kmatch is not None and ob.get("region_excluded") == "holds":
                # the recorded finding (natively established by its recorded witness); outside its region the obligation holds
                known_hits.append((kmatch, kn, ob["obligation"]))
                ob["known_finding"] = kmatch["id"]
                continue
            if has_native:
                confirmed = lf is not None and (lf.get("reproduced") is True or bool(lf.get("disagreements")))
                if lf is not None and lf.get("reproduced") is False:
                    inconclusive.append(
                        "E2 %s: solver model for '%s' does not reproduce through the public API (%s): encoding error"
                        % (kn, ob["obligation"], json.dumps(lf)[:300]))
                    continue
                if not confirmed:
                    inconclusive.append(
                        "E2 %s: '%s' is not satisfied by the code as encoded (model %s), but nothing reproduces through the public API "
                        "(%s probes of this kernel give the expected output): the code shape is probably not recognised; no verdict"
                        % (kn, ob["obligation"], json.dumps(ob.get("model"))[:160], (lf or {}).get("probes", 0)))
                    continue
            if kmatch is not None:
                region = ob.get("region_excluded")
                if region == "holds":
                    known_hits.append((kmatch, kn, ob["obligation"]))
                    ob["known_finding"] = kmatch["id"]
                    continue
                if region is None:
                    inconclusive.append("E2 %s: '%s' matches %s but has no region re-check" % (kn, ob["obligation"], kmatch["id"]))
                    continue
                # violated outside the known region: fall through to VIOLATION
            path = write_replay_file(pid, "E2", kn, ob["obligation"], None, [], {"kernel": kn, "model": ob.get("model"), "lifted": lf})
            violations.append((kn, ob["obligation"], path))
            d["witnesses"].append({"label": ob["obligation"], "model": ob.get("model"), "lifted": lf, "replay_file": path})
        log("  E2 %s: %s (%d obligations, %d paths, %.1f s)" % (kn, d["status"], len(d["obligations"]), d["paths"], d["wall_s"]))
        records.append(d)
    nval, bad = validate_references(pid, log)
    if nval:
        log("E2: reference models cross-checked against the real build on %d concrete inputs, %d disagreements" % (nval, len(bad)))
        if records:
            records[0].setdefault("notes", []).append("translator validation: %d concrete inputs, %d disagreements" % (nval, len(bad)))
        for b in bad[:3]:
            inconclusive.append("E2 reference model disagrees with the real build on %s: got %s want %s" % b)
    if records:
        records[-1]["solver_sessions"] = E.solver_stats()
    return records, violations, inconclusive, known_hits


def replay(doc, log):
    """Re-decide one kernel on the current tree; exit 1 if the obligation is still violated."""
    def lg(m):
        print("[replay] " + m, flush=True)
    E = get_engine(lg)
    fn = getattr(kernels, doc["kernel"], None) or getattr(kernels2, doc["kernel"])
    sym.CURRENT_KERNEL = doc["kernel"]
    rec = fn(E, "quick").to_dict()
    for ob in rec["obligations"]:
        if ob["obligation"] == doc["label"] and ob["verdict"] == "violated":
            lf = lift(ob)
            if lf is None or lf.get("reproduced") in (True, None):
                print("VIOLATION property=%s replay=%s" % (doc["property"], doc.get("_path", "?")))
                lg("still violated: %s %s" % (ob.get("model"), json.dumps(lf)[:300] if lf else ""))
                return 1
    lg("obligation holds on the current tree")
    return 0
