"""E2 driver (placeholder until the MIR engine lands)."""


def run(pid, tier, known, log, write_replay_file):
    return [], [], [], []


def replay(doc, log):
    return 0
