//! Sequential stand-in for the part of `arc-swap` that rsass uses
//! (`ArcSwapOption<T>`: `From<Option<Arc<T>>>`, `store`, `load`, `load_full`).
//!
//! Kani 0.68 ICEs on the `catch_unwind` intrinsic which the real crate
//! reaches through a thread-local with a destructor.  Only `Scope::content`
//! uses this type and no claimed property depends on it.
use std::sync::{Arc, Mutex};

pub struct ArcSwapOption<T>(Mutex<Option<Arc<T>>>);

impl<T> ArcSwapOption<T> {
    pub fn new(v: Option<Arc<T>>) -> Self {
        Self(Mutex::new(v))
    }
    pub fn empty() -> Self {
        Self(Mutex::new(None))
    }
    pub fn store(&self, v: Option<Arc<T>>) {
        *self.0.lock().unwrap() = v;
    }
    pub fn load_full(&self) -> Option<Arc<T>> {
        self.0.lock().unwrap().clone()
    }
    pub fn load(&self) -> Guard<T> {
        Guard(self.load_full())
    }
}
impl<T> From<Option<Arc<T>>> for ArcSwapOption<T> {
    fn from(v: Option<Arc<T>>) -> Self {
        Self::new(v)
    }
}
impl<T> Default for ArcSwapOption<T> {
    fn default() -> Self {
        Self::empty()
    }
}

pub struct Guard<T>(Option<Arc<T>>);
impl<T> std::ops::Deref for Guard<T> {
    type Target = Option<Arc<T>>;
    fn deref(&self) -> &Self::Target {
        &self.0
    }
}
