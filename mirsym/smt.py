"""SMT-LIB2 plumbing: term helpers and solver sessions (z3, cvc5) over pipes."""
import re
import shutil
import struct
import subprocess
import time


def bvlit(value, width):
    return "(_ bv%d %d)" % (value % (1 << width), width)


def f64lit(x):
    bits = struct.unpack("<Q", struct.pack("<d", x))[0]
    s = bits >> 63
    e = (bits >> 52) & 0x7FF
    m = bits & ((1 << 52) - 1)
    return "(fp #b%d #b%s #b%s)" % (s, format(e, "011b"), format(m, "052b"))


def f64_from_model(term):
    """(fp #b0 #b... #b...) or (_ +zero 11 53) etc. -> python float"""
    term = term.strip()
    m = re.match(r"\(fp #b([01]) #b([01]{11}) #[bx]([0-9a-f]+)\)", term)
    if m:
        mant = m.group(3)
        mbits = int(mant, 2) if len(mant) == 52 else int(mant, 16)
        bits = (int(m.group(1)) << 63) | (int(m.group(2), 2) << 52) | mbits
        return struct.unpack("<d", struct.pack("<Q", bits))[0]
    if "+zero" in term:
        return 0.0
    if "-zero" in term:
        return -0.0
    if "+oo" in term:
        return float("inf")
    if "-oo" in term:
        return float("-inf")
    if "NaN" in term:
        return float("nan")
    return None


def bv_from_model(term, signed, width):
    term = term.strip()
    m = re.match(r"#b([01]+)", term)
    v = None
    if m:
        v = int(m.group(1), 2)
    m = re.match(r"#x([0-9a-fA-F]+)", term)
    if m:
        v = int(m.group(1), 16)
    m = re.match(r"\(_ bv(\d+) \d+\)", term)
    if m:
        v = int(m.group(1))
    if v is None:
        return None
    if signed and v >= 1 << (width - 1):
        v -= 1 << width
    return v


def smt_sort(sort):
    if sort == "bool":
        return "Bool"
    if sort == "f64":
        return "(_ FloatingPoint 11 53)"
    if isinstance(sort, tuple) and sort[0] == "bv":
        return "(_ BitVec %d)" % sort[1]
    raise ValueError(sort)


# Rust's `%` on f64 is C fmod (truncated, exact, sign of the dividend), built
# here from the IEEE remainder fp.rem, which is exact as well.
PREAMBLE = [
    "(define-fun fp_fmod ((x (_ FloatingPoint 11 53)) (y (_ FloatingPoint 11 53))) (_ FloatingPoint 11 53) "
    "(let ((ax (fp.abs x)) (ay (fp.abs y))) (let ((r (fp.rem ax ay))) "
    "(let ((r2 (ite (fp.lt r ((_ to_fp 11 53) RNE 0.0)) (fp.add RNE r ay) r))) "
    "(ite (fp.isNegative x) (fp.neg r2) r2)))))",
]


class Session:
    """One solver process kept alive; queries with push/pop."""

    def __init__(self, kind="z3", timeout_s=30):
        self.kind = kind
        self.timeout_s = timeout_s
        if kind == "z3":
            exe = shutil.which("z3-new") or shutil.which("z3")
            cmd = [exe, "-in", "-smt2", "-t:%d" % (timeout_s * 1000)]
        elif kind == "z3old":
            cmd = ["/usr/bin/z3", "-in", "-smt2", "-t:%d" % (timeout_s * 1000)]
        else:
            cmd = ["cvc5", "--lang", "smt2", "--incremental", "--produce-models", "--tlimit-per=%d" % (timeout_s * 1000)]
        self.cmd = cmd
        self.time_s = 0.0
        self.queries = 0
        self.errors = []
        self.restarts = 0
        self._start()

    def _start(self):
        self.p = subprocess.Popen(self.cmd, stdin=subprocess.PIPE, stdout=subprocess.PIPE, stderr=subprocess.STDOUT, text=True, bufsize=1)
        self.declared = 0
        self.p.stdin.write("(set-option :print-success true)\n")
        self.p.stdin.flush()
        self._read_reply()
        self._send("(set-option :produce-models true)")
        self._send("(set-logic ALL)")
        for line in PREAMBLE:
            self._send(line)

    def _send(self, text):
        """Send one command; every command answers (print-success), so replies stay aligned."""
        try:
            self.p.stdin.write(text + "\n")
            self.p.stdin.flush()
            r = self._read_reply()
        except (BrokenPipeError, OSError):
            r = '(error "solver died")'
        if "solver died" in r and text != "(exit)":
            # cvc5 exits on a parse error: restart (declarations are re-sent by the next check)
            self.errors.append((text[:200], r[:300]))
            self.restarts += 1
            if self.restarts < 50:
                try:
                    self.p.kill()
                except Exception:
                    pass
                self._start()
            return r
        if r.startswith("(error") or "(error" in r[:40]:
            self.errors.append((text[:200], r[:300]))
        return r

    def _read_reply(self):
        """Read one reply: a line, or a balanced s-expression over several lines."""
        out = []
        depth = 0
        while True:
            line = self.p.stdout.readline()
            if line == "":
                return "".join(out) or "(error \"solver died\")"
            out.append(line)
            depth += line.count("(") - line.count(")")
            if depth <= 0 and "".join(out).strip():
                return "".join(out).strip()

    def sync_decls(self, decls):
        for name, sort in decls[self.declared:]:
            self._send("(declare-fun %s () %s)" % (name, smt_sort(sort)))
        self.declared = len(decls)

    def check(self, decls, assertions, want_model=None):
        """-> ('sat'|'unsat'|'unknown'|'error', model dict or None)"""
        t0 = time.time()
        nerr = len(self.errors)
        nrest = self.restarts
        self._send("(push 1)")
        # declarations live inside the scope: each kernel has its own symbol table
        for name, sort in decls:
            self._send("(declare-fun %s () %s)" % (name, smt_sort(sort)))
        for a in assertions:
            self._send("(assert %s)" % a)
        r = self._send("(check-sat)")
        self.queries += 1
        res = r.split()[0] if r.split() else "error"
        if "(error" in r or res not in ("sat", "unsat", "unknown") or len(self.errors) > nerr:
            res = "error"
        model = None
        if res == "sat" and want_model:
            model = {}
            for name in want_model:
                v = self._send("(get-value (%s))" % name)
                m = re.match(r"\(\(\s*%s\s+(.*)\)\)\s*$" % re.escape(name), v, re.S)
                model[name] = m.group(1).strip() if m else v
        if self.restarts == nrest:
            self._send("(pop 1)")
        else:
            res, model = "error", None
        self.time_s += time.time() - t0
        return res, model

    def close(self):
        try:
            self._send("(exit)")
            self.p.wait(timeout=5)
        except Exception:
            self.p.kill()
