"""Kernel-level driver for E2: locate functions in the MIR dump, run them
symbolically, discharge obligations with z3/cvc5, collect evidence records."""
import os
import re
import time

import mir
import smt
import sym


class Engine:
    def __init__(self, mir_path, rsass_src, log=print):
        self.mir_path = mir_path
        self.src = rsass_src
        self.log = log
        t0 = time.time()
        self.funcs = mir.parse(mir_path)
        self.parse_s = round(time.time() - t0, 2)
        self.sessions = {}
        self.records = []
        self.enum_variants = {}

    def load_enum(self, rel_path, enum_name, key=None):
        """Variant names of a fieldless-or-not enum, in declaration order, from the current source."""
        text = open(os.path.join(self.src, rel_path)).read()
        m = re.search(r"(?:pub(?:\([a-z]+\))? )?enum %s\s*(?:<[^{]*>)?\s*\{" % re.escape(enum_name), text)
        if not m:
            raise sym.Unsupported("enum %s not found in %s" % (enum_name, rel_path))
        i = m.end()
        depth = 1
        body = []
        while depth > 0 and i < len(text):
            c = text[i]
            if c == "{":
                depth += 1
            elif c == "}":
                depth -= 1
            body.append(c)
            i += 1
        body = "".join(body)
        # strip comments/attributes and nested payloads
        body = re.sub(r"//[^\n]*", "", body)
        body = re.sub(r"#\[[^\]]*\]", "", body)
        out = []
        depth = 0
        cur = ""
        for c in body:
            if c in "({[<":
                depth += 1
            elif c in ")}]>":
                depth -= 1
            elif c == "," and depth == 0:
                out.append(cur)
                cur = ""
                continue
            if depth == 0:
                cur += c
        out.append(cur)
        names = [re.match(r"\s*([A-Z][A-Za-z0-9_]*)", v).group(1) for v in out if re.match(r"\s*[A-Z]", v)]
        self.enum_variants[key or enum_name] = names
        return names

    def find(self, name=None, name_re=None, contains=(), not_contains=()):
        c = []
        for f in self.funcs:
            if name is not None and f.name != name:
                continue
            if name_re is not None and not re.search(name_re, f.name):
                continue
            src = None
            ok = True
            for needle in contains:
                src = src or f.source()
                if needle not in src:
                    ok = False
                    break
            for needle in not_contains:
                src = src or f.source()
                if needle in src:
                    ok = False
                    break
            if ok:
                c.append(f)
        if len(c) != 1:
            raise sym.Unsupported(
                "kernel locator found %d candidates for name=%r name_re=%r contains=%r: %s"
                % (len(c), name, name_re, contains, [f.name for f in c][:6])
            )
        return c[0]

    def session(self, kind, timeout_s=30):
        key = (kind, timeout_s)
        if key not in self.sessions:
            self.sessions[key] = smt.Session(kind, timeout_s)
        return self.sessions[key]

    def ctx(self):
        return sym.Ctx(self.funcs, self.enum_variants)

    def feasibility(self, ctx, timeout_s=5):
        sess = self.session("z3", timeout_s)

        def feasible(pc):
            r, _ = sess.check(ctx.decls, ctx.assumptions + pc)
            return r != "unsat"

        return feasible

    def decide(self, ctx, assertions, solvers=("z3", "cvc5"), timeout_s=30, model_names=None):
        """All `assertions` (plus the context's assumptions) together must be UNSAT.
        -> dict(verdict='holds'|'violated'|'inconclusive', model, per_solver, time_s)"""
        full = ctx.assumptions + assertions
        per = {}
        model = None
        t0 = time.time()
        for k in solvers:
            s = self.session(k, timeout_s)
            r, mdl = s.check(ctx.decls, full, model_names)
            per[k] = r
            if r == "sat" and model is None:
                model = mdl
        vals = set(per.values())
        if vals == {"unsat"}:
            verdict = "holds"
        elif "sat" in vals and "unsat" not in vals:
            verdict = "violated"
        elif "sat" in vals and "unsat" in vals:
            verdict = "inconclusive"  # solvers disagree
        elif "unsat" in vals and len(solvers) > 1 and vals <= {"unsat", "unknown"}:
            verdict = "holds"  # one solver decided, the other timed out (recorded)
        else:
            verdict = "inconclusive"
        return {"verdict": verdict, "model": model, "per_solver": per, "time_s": round(time.time() - t0, 3)}

    def close(self):
        for s in self.sessions.values():
            s.close()

    def solver_stats(self):
        return {
            "%s(t=%ds)" % k: {"queries": s.queries, "time_s": round(s.time_s, 3), "errors": len(s.errors), "cmd": " ".join(s.cmd)}
            for k, s in self.sessions.items()
        }
