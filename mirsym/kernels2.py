"""Kernels added late (C38): the library entry points are thin wrappers over one pipeline."""
import os
import re

import sym
from kernels import BASE_MODELS, Rec
from smt import bvlit


def _full(ex, st, x):
    while isinstance(x, sym.Ref):
        x = ex.deref(st, x)
    return x


def _structural(ok, detail=""):
    return {"verdict": "holds" if ok else "violated", "per_solver": {"structural": detail or ("ok" if ok else "mismatch")}, "time_s": 0}


def _inconclusive(rec, what):
    rec.add(what + " (shape not recognised)", {"verdict": "inconclusive", "per_solver": {}, "time_s": 0})


def k_entry_points(E, tier):
    """C38: compile_scss, compile_scss_path, Context::with_format, Context::transform and FsLoader::for_path pass the
    bytes, the path and the format through unchanged to one pipeline (parse -> handle_parsed -> into_buffer) and return
    its result unchanged."""
    f_scss = E.find(name="compile_scss")
    rec = Rec("compile_scss / compile_scss_path / Context::with_format / Context::transform", f_scss, E)

    def mk(ctx, log):
        def ev(name, ret=None, fork=None):
            def m(ex, st, c, a, d):
                ra = [_full(ex, st, x) for x in a]
                if fork:
                    out = []
                    for kind, val in fork(d, ra):
                        s2 = st.fork()
                        e = sym.Event(name, a, kind, len(st.pc))
                        e.rargs, e.ret = ra, val
                        s2.events.append(e)
                        out.append((s2, val))
                    return out
                e = sym.Event(name, a, None, len(st.pc))
                e.rargs = ra
                val = ret(d, ra) if ret else sym.Opaque(d or "?", name + "#%d" % len(log), ctx)
                e.ret = val
                log.append(e)
                st.events.append(e)
                return val
            return m
        return ev

    def okerr(okname, ctx, errname="error"):
        def fk(d, ra):
            return [("ok", sym.Agg(d, "Ok", {"0": sym.Opaque("T", okname, ctx)}, 0)),
                    ("err", sym.Agg(d, "Err", {"0": sym.Opaque("Error", errname, ctx)}, 1))]
        return fk

    # ---- compile_scss -------------------------------------------------------------------------------------------
    ctx = E.ctx()
    ev = mk(ctx, [])
    inp, fmt = sym.Opaque("&[u8]", "input", ctx), sym.Opaque("Format", "format", ctx)
    models = [(r"::for_cwd$", ev("for_cwd")), (r"::with_format$", ev("with_format")), (r"^SourceName::root::<", ev("root")),
              (r"^SourceFile::scss_bytes::<", ev("scss_bytes")), (r"::transform$", ev("transform", fork=okerr("css", ctx)))] + BASE_MODELS
    ex = sym.Executor(ctx, models=models, feasibility=E.feasibility(ctx), max_paths=200)
    paths = [p for p in ex.run(f_scss, [inp, fmt]) if p.status == "return"]
    rec.paths += len(paths)
    if not paths:
        _inconclusive(rec, "compile_scss returns")
    for i, p in enumerate(paths):
        by = {}
        for e in p.events:
            by.setdefault(e.callee, []).append(e)
        one = all(len(by.get(k, [])) == 1 for k in ("for_cwd", "with_format", "scss_bytes", "transform"))
        good = False
        if one:
            t, w, s, c = by["transform"][0], by["with_format"][0], by["scss_bytes"][0], by["for_cwd"][0]
            good = (t.rargs[0] is w.ret and t.rargs[1] is s.ret and w.rargs[0] is c.ret and w.rargs[1] is fmt and s.rargs[0] is inp
                    and p.ret is t.ret)
        rec.add("compile_scss path %d: the result is exactly Context::for_cwd().with_format(<the format given>).transform(scss_bytes(<the bytes given>))" % i,
                _structural(good, "events: " + ",".join(e.callee for e in p.events)))

    # ---- compile_scss_path --------------------------------------------------------------------------------------
    f_path = E.find(name="compile_scss_path")
    ctx = E.ctx()
    ev = mk(ctx, [])
    pth, fmt = sym.Opaque("&Path", "path", ctx), sym.Opaque("Format", "format", ctx)
    pctx, psrc = sym.Opaque("Context<FsLoader>", "path-context", ctx), sym.Opaque("SourceFile", "path-source", ctx)

    def fk_for_path(d, ra):
        return [("ok", sym.Agg(d, "Ok", {"0": sym.Agg("tuple", None, {"0": pctx, "1": psrc})}, 0)),
                ("err", sym.Agg(d, "Err", {"0": sym.Opaque("LoadError", "load-error", ctx)}, 1))]

    models = [(r"::for_path$", ev("for_path", fork=fk_for_path)), (r"::with_format$", ev("with_format")),
              (r"::transform$", ev("transform", fork=okerr("css", ctx)))] + BASE_MODELS
    ex = sym.Executor(ctx, models=models, feasibility=E.feasibility(ctx), max_paths=200)
    paths = [p for p in ex.run(f_path, [pth, fmt]) if p.status == "return"]
    rec.paths += len(paths)
    if not paths:
        _inconclusive(rec, "compile_scss_path returns")
    for i, p in enumerate(paths):
        by = {}
        for e in p.events:
            by.setdefault(e.callee, []).append(e)
        fp = by.get("for_path", [])
        if len(fp) != 1 or fp[0].rargs[0] is not pth:
            rec.add("compile_scss_path path %d: the file is opened by for_path(<the path given>), once" % i, _structural(False))
            continue
        if fp[0].result == "err":
            good = isinstance(p.ret, sym.Agg) and p.ret.variant == "Err" and not by.get("transform")
            rec.add("compile_scss_path path %d: a load failure is returned as an error and nothing is compiled" % i, _structural(good))
            continue
        one = len(by.get("with_format", [])) == 1 and len(by.get("transform", [])) == 1
        good = False
        if one:
            t, w = by["transform"][0], by["with_format"][0]
            good = t.rargs[0] is w.ret and t.rargs[1] is psrc and w.rargs[0] is pctx and w.rargs[1] is fmt and p.ret is t.ret
        rec.add("compile_scss_path path %d: the result is exactly <context of for_path>.with_format(<the format given>).transform(<source of for_path>)" % i,
                _structural(good, "events: " + ",".join(e.callee for e in p.events)))

    # ---- Context::with_format -----------------------------------------------------------------------------------
    f_wf = E.find(name_re=r"^input::context::<impl at .*>::with_format$")
    ctx = E.ctx()
    ev = mk(ctx, [])
    loader, loading = sym.Opaque("AnyLoader", "loader", ctx), sym.Opaque("Vec", "loading", ctx)
    me = sym.Agg("Context", None, {"0": loader, "1": sym.Opaque("std::option::Option<ScopeRef>", "old-scope", ctx), "2": loading})
    for k, n in (("0", "loader"), ("1", "scope"), ("2", "loading")):
        me.fields[n] = me.fields[k]
    fmt = sym.Opaque("Format", "format", ctx)
    models = [(r"^variablescope::ScopeRef::new_global$|^ScopeRef::new_global$", ev("new_global"))] + BASE_MODELS
    ex = sym.Executor(ctx, models=models, feasibility=E.feasibility(ctx), max_paths=200)
    try:
        paths = [p for p in ex.run(f_wf, [me, fmt]) if p.status == "return"]
    except sym.Unsupported as e:
        paths = []
        rec.notes.append("with_format: %s" % e)
    rec.paths += len(paths)
    if not paths:
        _inconclusive(rec, "with_format returns")
    for i, p in enumerate(paths):
        ng = [e for e in p.events if e.callee == "new_global"]
        r = _full(ex, None, p.ret) if not isinstance(p.ret, sym.Ref) else p.ret
        good = False
        if len(ng) == 1 and isinstance(r, sym.Agg):
            sc = r.fields.get("1")
            good = (ng[0].rargs[0] is fmt and isinstance(sc, sym.Agg) and sc.variant == "Some" and sc.fields.get("0") is ng[0].ret
                    and r.fields.get("0") is loader and r.fields.get("2") is loading)
        rec.add("with_format path %d: the context returned has the same loader and loading stack and a fresh global scope for exactly the format given" % i,
                _structural(good))

    # ---- Context::transform -------------------------------------------------------------------------------------
    f_tr = E.find(name_re=r"^input::context::<impl at .*>::transform$")
    ctx = E.ctx()
    log = []
    ev = mk(ctx, log)
    thescope = sym.Opaque("ScopeRef", "context-scope", ctx)
    me = sym.Agg("Context", None, {"0": sym.Opaque("AnyLoader", "loader", ctx), "1": sym.Agg("std::option::Option<ScopeRef>", "Some", {"0": thescope}, 1),
                                    "2": sym.Opaque("Vec", "loading", ctx)})
    for k, n in (("0", "loader"), ("1", "scope"), ("2", "loading")):
        me.fields[n] = me.fields[k]
    src = sym.Opaque("SourceFile", "file", ctx)
    scope_clone = sym.Opaque("ScopeRef", "scope-clone", ctx)

    def m_clone(ex, st, c, a, d):
        x = _full(ex, st, a[0])
        if isinstance(x, sym.Agg) and x.variant == "Some" and x.fields["0"] is thescope:
            return sym.Agg(d, "Some", {"0": scope_clone}, 1)
        return None

    def m_unwrap_or_else(ex, st, c, a, d):
        x = a[0]
        if isinstance(x, sym.Agg) and x.variant == "Some":
            return x.fields["0"]
        return None

    def unit_okerr(name):
        def fk(d, ra):
            return [("ok", sym.Agg(d, "Ok", {"0": sym.Unit()}, 0)), ("err", sym.Agg(d, "Err", {"0": sym.Opaque("Error", name + "-error", ctx)}, 1))]
        return fk

    models = [(r"^<Option<ScopeRef> as Clone>::clone$", m_clone), (r"^Option::<ScopeRef>::unwrap_or_else::<", m_unwrap_or_else),
              (r"::lock_loading$", ev("lock", fork=unit_okerr("lock"))), (r"::unlock_loading$", ev("unlock", ret=lambda d, ra: sym.Unit())),
              (r"^CssData::new$", ev("css_new")), (r"^<ScopeRef as Deref>::deref$", lambda ex, st, c, a, d: a[0]),
              (r"::get_format$", ev("get_format")), (r"^SourceFile::parse$", ev("parse", fork=okerr("parsed", ctx, "parse-error"))),
              (r"^handle_parsed::<", ev("handle_parsed", fork=unit_okerr("body"))),
              (r"^CssData::into_buffer$", ev("into_buffer", fork=okerr("bytes", ctx, "write-error")))] + BASE_MODELS
    ex = sym.Executor(ctx, models=models, feasibility=E.feasibility(ctx), max_paths=400)
    try:
        paths = [p for p in ex.run(f_tr, [me, src]) if p.status == "return"]
    except sym.Unsupported as e:
        paths = []
        rec.notes.append("transform: %s" % e)
    rec.paths += len(paths)
    if not paths:
        _inconclusive(rec, "transform returns")
    for i, p in enumerate(paths):
        seq = [e.callee for e in p.events if e.callee in ("lock", "parse", "handle_parsed", "unlock", "into_buffer")]
        by = {}
        for e in p.events:
            by.setdefault(e.callee, []).append(e)
        failed = [e for e in p.events if e.result == "err"]
        if failed:
            later = [e.callee for e in p.events[p.events.index(failed[0]) + 1:] if e.callee in ("parse", "handle_parsed", "into_buffer")]
            good = isinstance(p.ret, sym.Agg) and p.ret.variant == "Err" and not later
            rec.add("transform path %d: the first failing step (%s) ends the compilation with an error" % (i, failed[0].callee), _structural(bool(good)))
            continue
        good = seq == ["lock", "parse", "handle_parsed", "unlock", "into_buffer"]
        detail = "sequence " + ",".join(seq)
        if good:
            hp, ib, gf, pa, cn = by["handle_parsed"][0], by["into_buffer"][0], by["get_format"][0], by["parse"][0], by["css_new"][0]
            parsed = pa.ret.fields["0"]
            checks = {
                "parse(<the file given>)": pa.rargs[0] is src,
                "handle_parsed gets that parse": hp.rargs[0] is parsed,
                "handle_parsed fills the fresh CssData": hp.rargs[1] is cn.ret,
                "handle_parsed runs in the context's scope": hp.rargs[2] is scope_clone,
                "format = get_format of that same scope": gf.rargs[0] is scope_clone,
                "into_buffer(<that CssData>, <that format>)": ib.rargs[0] is cn.ret and ib.rargs[1] is gf.ret,
                "the bytes returned are into_buffer's": p.ret is ib.ret,
                "lock and unlock name the file given": by["lock"][0].rargs[1] is src and by["unlock"][0].rargs[1] is src,
            }
            good = all(checks.values())
            detail = "; ".join(k for k, v in checks.items() if not v) or "all links ok"
        rec.add("transform path %d: lock, parse the file given, handle_parsed into a fresh CssData in the context's scope, unlock, into_buffer with that scope's format; its bytes are the result" % i,
                _structural(good, detail))
    return rec


def k_value_text(E, tier):
    """C38 (third sentence): compile_value prints the evaluated value with `value.format(<the format given>)`, and a
    declaration prints its value with `value.format(<the buffer's format>)` — the same formatter, the same format."""
    f_cv = E.find(name="compile_value")
    rec = Rec("compile_value and css::Property::write", f_cv, E)
    ctx = E.ctx()
    inp, fmt = sym.Opaque("&[u8]", "input", ctx), sym.Opaque("Format", "format", ctx)

    def ev(name, fork=None, ret=None):
        def m(ex, st, c, a, d):
            ra = [_full(ex, st, x) for x in a]
            if fork:
                out = []
                for kind, val in fork(d):
                    s2 = st.fork()
                    e = sym.Event(name, a, kind, len(st.pc))
                    e.rargs, e.ret = ra, val
                    s2.events.append(e)
                    out.append((s2, val))
                return out
            e = sym.Event(name, a, None, len(st.pc))
            e.rargs = ra
            e.ret = ret(d, ra) if ret else sym.Opaque(d or "?", name + "-result", ctx)
            st.events.append(e)
            return e.ret
        return m

    def okerr(okty, okname):
        def fk(d):
            return [("ok", sym.Agg(d, "Ok", {"0": sym.Opaque(okty, okname, ctx)}, 0)), ("err", sym.Agg(d, "Err", {"0": sym.Opaque("Error", okname + "-error", ctx)}, 1))]
        return fk

    models = [(r"ScopeRef::new_global$", ev("new_global")), (r"^parse_value_data$|::parse_value_data$", ev("parse", fork=okerr("sass::Value", "parsed"))),
              (r"^sass::value::Value::evaluate$|^sass::Value::evaluate$", ev("evaluate", fork=okerr("css::Value", "value"))),
              (r"^css::value::Value::format$|^css::Value::format$", ev("format")),
              (r" as ToString>::to_string$", ev("to_string")), (r"^String::into_bytes$|::into_bytes$", ev("into_bytes")),
              (r"^std::result::Result::<.*>::map_err::<", lambda ex, st, c, a, d: a[0] if isinstance(a[0], sym.Agg) else None)] + BASE_MODELS
    ex = sym.Executor(ctx, models=models, feasibility=E.feasibility(ctx), max_paths=400)
    try:
        paths = [p for p in ex.run(f_cv, [inp, fmt]) if p.status == "return"]
    except sym.Unsupported as e:
        paths = []
        rec.notes.append("compile_value: %s" % e)
    rec.paths += len(paths)
    okp = [p for p in paths if isinstance(p.ret, sym.Agg) and p.ret.variant == "Ok"]
    if not okp:
        _inconclusive(rec, "compile_value has an Ok path")
    for i, p in enumerate(paths):
        by = {}
        for e in p.events:
            by.setdefault(e.callee, []).append(e)
        failed = [e for e in p.events if e.result == "err"]
        if failed:
            rec.add("compile_value path %d: a parse or evaluation failure is returned as an error" % i,
                    _structural(isinstance(p.ret, sym.Agg) and p.ret.variant == "Err" and not by.get("format")))
            continue
        need = ("new_global", "parse", "evaluate", "format", "to_string", "into_bytes")
        good = all(len(by.get(k, [])) == 1 for k in need)
        detail = "events " + ",".join(e.callee for e in p.events)
        if good:
            ng, pa, evl, fo, ts, ib = (by[k][0] for k in need)
            checks = {
                "the scope is a global scope for the format given": ng.rargs[0] is fmt,
                "the bytes given are parsed": pa.rargs[0] is inp,
                "the parsed value is evaluated in that scope": evl.rargs[0] is pa.ret.fields["0"] and evl.rargs[1] is ng.ret,
                "the evaluated value is formatted with the format given": fo.rargs[0] is evl.ret.fields["0"] and fo.rargs[1] is fmt,
                "the text is that formatter's to_string, unchanged": ts.rargs[0] is fo.ret and ib.rargs[0] is ts.ret,
                "the bytes returned are that text": isinstance(p.ret, sym.Agg) and p.ret.fields["0"] is ib.ret,
            }
            good = all(checks.values())
            detail = "; ".join(k for k, v in checks.items() if not v) or "all links ok"
        rec.add("compile_value path %d: parse -> evaluate in a global scope of the format given -> value.format(<that format>).to_string() -> bytes" % i,
                _structural(good, detail))

    # ---- Property::write ----------------------------------------------------------------------------------------
    f_pw = E.find(name_re=r"^css::rule::<impl at .*>::write$", contains=["const \": \""])
    ctx = E.ctx()
    name, value = sym.Opaque("String", "prop-name", ctx), sym.Opaque("css::Value", "prop-value", ctx)
    prop = sym.Agg("Property", None, {"0": name, "1": value, "name": name, "value": value})
    buf = sym.Opaque("CssBuf", "buf", ctx)
    models = [(r"^CssBuf::format$|::CssBuf::format$", ev("buf_format")), (r"^css::value::Value::format$|^css::Value::format$", ev("format")),
              (r" as ToString>::to_string$", ev("to_string")), (r"::replace::<char>$|::replace::<", ev("replace")),
              (r"CssBuf::add_str$", ev("add_str", ret=lambda d, ra: sym.Unit())), (r"CssBuf::add_one$", ev("add_one", ret=lambda d, ra: sym.Unit())),
              (r"CssBuf::do_indent_no_nl$", ev("indent", ret=lambda d, ra: sym.Unit())),
              (r" as Deref>::deref$", lambda ex, st, c, a, d: a[0])] + BASE_MODELS
    ex = sym.Executor(ctx, models=models, feasibility=E.feasibility(ctx), max_paths=400)
    try:
        paths = [p for p in ex.run(f_pw, [sym.Ref("val", prop), sym.Ref("val", buf)]) if p.status == "return"]
    except sym.Unsupported as e:
        paths = []
        rec.notes.append("Property::write: %s" % e)
    rec.paths += len(paths)
    if not paths:
        _inconclusive(rec, "Property::write returns")
    for i, p in enumerate(paths):
        by = {}
        for e in p.events:
            by.setdefault(e.callee, []).append(e)
        adds = by.get("add_str", [])
        good = len(by.get("format", [])) == 1 and len(by.get("buf_format", [])) == 1 and len(by.get("to_string", [])) == 1 and len(adds) == 2
        detail = "events " + ",".join(e.callee for e in p.events)
        if good:
            fo, bf, ts = by["format"][0], by["buf_format"][0], by["to_string"][0]
            rp = by.get("replace", [])
            text = ts.ret
            if rp:
                # the only rewrite allowed between the formatter and the buffer: newline -> space (a declaration is one line)
                r0 = rp[0]
                nl = len(rp) == 1 and r0.rargs[0] is ts.ret and _is_char(r0.rargs[1], 10) and _is_str(ex, r0.rargs[2], " ")
                text = r0.ret if nl else None
            checks = {
                "the value formatted is the property's own": fo.rargs[0] is value,
                "with the buffer's format": bf.rargs[0] is buf and fo.rargs[1] is bf.ret,
                "the name is written first, as it is": adds[0].rargs[1] is name,
                "the text written is the formatter's to_string (newlines may become spaces, nothing else)": text is not None and ts.rargs[0] is fo.ret and adds[1].rargs[1] is text,
            }
            good = all(checks.values())
            detail = "; ".join(k for k, v in checks.items() if not v) or "all links ok"
        rec.add("Property::write path %d: a declaration's value is written as value.format(<the buffer's format>).to_string()" % i, _structural(good, detail))
    return rec


def k_for_path(E, tier):
    """C38 (second sentence): FsLoader::for_path reads its source from the very file it opened at the path given and
    hands that source back; a failure to open or read is an error."""
    f = E.find(name_re=r"^fsloader::<impl at .*>::for_path$")
    rec = Rec("FsLoader::for_path", f, E)
    ctx = E.ctx()
    pth = sym.Opaque("&Path", "path", ctx)
    thefile = sym.Opaque("File", "opened-file", ctx)
    thesrc = sym.Opaque("SourceFile", "source-read", ctx)

    def ev(name, fork=None, ret=None):
        def m(ex, st, c, a, d):
            ra = [_full(ex, st, x) for x in a]
            if fork:
                out = []
                for kind, val in fork(d):
                    s2 = st.fork()
                    e = sym.Event(name, a, kind, len(st.pc))
                    e.rargs, e.ret = ra, val
                    s2.events.append(e)
                    out.append((s2, val))
                return out
            e = sym.Event(name, a, None, len(st.pc))
            e.rargs = ra
            e.ret = ret(d, ra) if ret else sym.Opaque(d or "?", name + "-result", ctx)
            st.events.append(e)
            return e.ret
        return m

    def fk_open(d):
        return [("ok", sym.Agg(d, "Ok", {"0": thefile}, 0)), ("err", sym.Agg(d, "Err", {"0": sym.Opaque("io::Error", "open-error", ctx)}, 1))]

    def fk_read(d):
        return [("ok", sym.Agg(d, "Ok", {"0": thesrc}, 0)), ("err", sym.Agg(d, "Err", {"0": sym.Opaque("LoadError", "read-error", ctx)}, 1))]

    def m_map_err(ex, st, c, a, d):
        x = a[0]
        if isinstance(x, sym.Agg) and x.variant == "Ok":
            return sym.Agg(d, "Ok", {"0": x.fields["0"]}, 0)
        if isinstance(x, sym.Agg) and x.variant == "Err":
            return sym.Agg(d, "Err", {"0": sym.Opaque("LoadError", "open-load-error", ctx)}, 1)
        return None

    models = [(r"^File::open::<", ev("open", fork=fk_open)), (r"^std::result::Result::<File, .*>::map_err::<", m_map_err),
              (r"^Path::parent$", ev("parent")), (r"^Option::<&Path>::and_then::<", ev("and_then")),
              (r"::unwrap_or_else::<", ev("unwrap_or_else")), (r"^Path::display$", ev("display")), (r" as ToString>::to_string$", ev("to_string")),
              (r"^SourceName::root::<", ev("root")), (r"^SourceFile::read::<", ev("read", fork=fk_read))] + BASE_MODELS
    ex = sym.Executor(ctx, models=models, feasibility=E.feasibility(ctx), max_paths=400)
    paths = [p for p in ex.run(f, [pth]) if p.status == "return"]
    rec.paths = len(paths)
    if not paths:
        _inconclusive(rec, "for_path returns")
    for i, p in enumerate(paths):
        by = {}
        for e in p.events:
            by.setdefault(e.callee, []).append(e)
        op = by.get("open", [])
        if len(op) != 1 or op[0].rargs[0] is not pth:
            rec.add("for_path path %d: the file at the path given is opened, once" % i, _structural(False))
            continue
        if op[0].result == "err":
            rec.add("for_path path %d: a file that cannot be opened is an error" % i,
                    _structural(isinstance(p.ret, sym.Agg) and p.ret.variant == "Err" and not by.get("read")))
            continue
        rd = by.get("read", [])
        if len(rd) != 1:
            rec.add("for_path path %d: the opened file is read once" % i, _structural(False, "reads: %d" % len(rd)))
            continue
        same_file = rd[0].rargs[0] is thefile
        if rd[0].result == "err":
            rec.add("for_path path %d: a read failure is an error" % i, _structural(same_file and isinstance(p.ret, sym.Agg) and p.ret.variant == "Err"))
            continue
        tup = p.ret.fields.get("0") if isinstance(p.ret, sym.Agg) and p.ret.variant == "Ok" else None
        good = same_file and isinstance(tup, sym.Agg) and tup.fields.get("1") is thesrc
        rec.add("for_path path %d: the source handed back is what was read from the file opened at the path given" % i, _structural(bool(good)))
    return rec


def _is_char(v, code):
    if isinstance(v, sym.FnItem):          # a char literal the executor keeps as written in the MIR
        return v.name == {10: "'\\n'"}.get(code, repr(chr(code)))
    t = getattr(v, "term", None)
    if t is None:
        return False
    m = re.match(r"^\(_ bv(\d+) 32\)$", t) or re.match(r"^#x([0-9a-fA-F]{8})$", t)
    if not m:
        return False
    return (int(m.group(1)) if t.startswith("(_") else int(m.group(1), 16)) == code


def _is_str(ex, v, text):
    if isinstance(v, sym.Ref):
        try:
            v = ex.deref(None, v)
        except Exception:
            return False
    return isinstance(v, sym.ConstStr) and v.s == text


# ------------------------------------------------------------------------------------------------ C34
# Global name -> module function, as the Sass documentation lists them (names as written in the source, `_` for `-`).
# abs / min / max / round and grayscale / invert are left out on purpose: their global forms are the CSS-aware special forms
# (they also accept plain numbers / calc values and then print a CSS function call).
DOC_PAIRS = {
    "string": {"quote": "quote", "str_index": "index", "str_insert": "insert", "str_length": "length", "str_slice": "slice",
               "to_upper_case": "to_upper_case", "to_lower_case": "to_lower_case", "unique_id": "unique_id", "unquote": "unquote"},
    "list": {"append": "append", "index": "index", "is_bracketed": "is_bracketed", "join": "join", "length": "length",
             "list_separator": "separator", "nth": "nth", "set_nth": "set_nth", "zip": "zip"},
    "map": {"map_get": "get", "map_has_key": "has_key", "map_keys": "keys", "map_merge": "merge", "map_remove": "remove", "map_values": "values"},
    "math": {"ceil": "ceil", "floor": "floor", "percentage": "percentage", "comparable": "compatible", "unitless": "is_unitless", "unit": "unit",
             "random": "random"},
    "meta": {"call": "call", "content_exists": "content_exists", "feature_exists": "feature_exists", "function_exists": "function_exists",
             "get_function": "get_function", "global_variable_exists": "global_variable_exists", "inspect": "inspect", "keywords": "keywords",
             "mixin_exists": "mixin_exists", "type_of": "type_of", "variable_exists": "variable_exists"},
    "selector": {"is_superselector": "is_superselector", "selector_append": "append", "selector_extend": "extend", "selector_nest": "nest",
                 "selector_parse": "parse", "selector_replace": "replace", "selector_unify": "unify", "simple_selectors": "simple_selectors"},
    "color": {"adjust_color": "adjust", "change_color": "change", "scale_color": "scale", "complement": "complement",
              "ie_hex_str": "ie_hex_str", "mix": "mix", "red": "red", "green": "green", "blue": "blue", "hue": "hue",
              "saturation": "saturation", "lightness": "lightness", "alpha": "alpha"},
}
EXPOSE_FUNCS = {
    "string": [r"^functions::string::expose$|^string::expose$"], "list": [r"^list::expose$|^functions::list::expose$"],
    "map": [r"^map::expose$|^functions::map::expose$"], "math": [r"^functions::math::expose$|^math::expose$"],
    "meta": [r"^meta::expose$|^functions::meta::expose$"], "selector": [r"^functions::selector::expose$|^selector::expose$"],
    "color": [r"^rgb::expose$", r"^hsl::expose$", r"^hwb::expose$", r"^other::expose$"],
}


class _Name(sym.Agg):
    pass


def _expose_run(E, f, rec):
    """Execute one expose()-like function. Returns (inserts, scope, ok) with inserts = [(key text, value, in_loop)]."""
    ctx = E.ctx()
    scope = sym.Opaque("&Scope", "module-scope", ctx)
    glob = sym.Opaque("&mut FunctionMap", "global-table", ctx)
    inserts = []

    def m_from_static(ex, st, c, a, d):
        x = a[0]
        if isinstance(x, sym.Ref):
            x = ex.deref(st, x)
        if not isinstance(x, sym.ConstStr):
            raise sym.Unsupported("Name::from_static of a non-literal")
        return sym.Agg("Name", None, {"0": x, "text": x})

    def m_into_iter(ex, st, c, a, d):
        arr = _full(ex, st, a[0])
        if not isinstance(arr, sym.Agg):
            raise sym.Unsupported("into_iter over something that is not a literal array")
        elems = [arr.fields[k] for k in sorted((k for k in arr.fields if k.isdigit()), key=int)]
        return sym.Agg("slice::Iter", None, {"elems": elems, "pos": [0]})

    def m_next(ex, st, c, a, d):
        it = _full(ex, st, a[0])
        if not (isinstance(it, sym.Agg) and "pos" in it.fields):
            raise sym.Unsupported("next() on an unknown iterator")
        i = it.fields["pos"][0]
        if i >= len(it.fields["elems"]):
            return sym.Agg(d, "None", {}, 0)
        it.fields["pos"][0] = i + 1
        return sym.Agg(d, "Some", {"0": sym.Ref("val", it.fields["elems"][i])}, 1)

    def m_clone(ex, st, c, a, d):
        return _full(ex, st, a[0])

    def m_get_l(ex, st, c, a, d):
        ra = [_full(ex, st, x) for x in a]
        v = sym.Opaque("Function", "module-function", ctx)
        v.of_scope, v.of_name = ra[0], ra[1]
        return v

    def key_text(k):
        k = k if not isinstance(k, sym.Ref) else None
        if isinstance(k, sym.Agg) and isinstance(k.fields.get("text"), sym.ConstStr):
            return k.fields["text"].s
        return None

    def m_insert(ex, st, c, a, d):
        ra = [_full(ex, st, x) for x in a]
        inserts.append((key_text(ra[1]), ra[2], ra[0]))
        return sym.Agg(d, "None", {}, 0)

    def m_builtin_fn(ex, st, c, a, d):
        ra = [_full(ex, st, x) for x in a]
        inserts.append((key_text(ra[1]), "builtin", ra[0]))
        return sym.Unit()

    def m_other_table_fn(ex, st, c, a, d):
        ra = [_full(ex, st, x) for x in a]
        inserts.append(("<call:%s>" % c, "call", ra[0] if ra else None))
        return sym.Unit()

    models = [(r"^Name::from_static$|::Name::from_static$", m_from_static), (r" as IntoIterator>::into_iter$", m_into_iter),
              (r"^<std::slice::Iter<'_, \(Name, Name\)> as Iterator>::next$", m_next), (r"^<Name as Clone>::clone$", m_clone),
              (r"Scope::get_lfunction$", m_get_l), (r"^BTreeMap::<Name, functions::Function>::insert$", m_insert),
              (r" as Functions>::builtin_fn$", m_builtin_fn), (r"::global$", m_other_table_fn)] + BASE_MODELS
    ex = sym.Executor(ctx, models=models, feasibility=E.feasibility(ctx), max_paths=50)
    ex.unroll = 200          # the tables are literal arrays: the loop runs exactly once per row
    paths = [p for p in ex.run(f, [scope, glob] if len(f.params) == 2 else [glob]) if p.status == "return"]
    rec.paths += len(paths)
    return inserts, scope, glob, len(paths) == 1


def k_expose_tables(E, tier):
    """C34: every global function the Sass documentation pairs with a module function is, in the global table, the module's
    own function object (so position/name binding, defaults and body are shared), and nothing redefines it afterwards."""
    rec = Rec("sass::functions::*::expose and the FUNCTIONS initialiser", None, E)
    for mod, pats in sorted(EXPOSE_FUNCS.items()):
        table, later, structure_ok, single = {}, [], True, True
        first = None
        for pat in pats:
            f = E.find(name_re=pat)
            first = first or f
            inserts, scope, glob, one = _expose_run(E, f, rec)
            single = single and one
            todo = list(inserts)
            while todo:
                key, val, tab = todo.pop(0)
                if tab is not glob:                      # a definition in some other table (the helper scope of global-only colour functions)
                    continue
                if isinstance(val, sym.Opaque) and hasattr(val, "of_name"):
                    ln = val.of_name.fields["text"].s if isinstance(val.of_name, sym.Agg) and "text" in val.of_name.fields else None
                    if key is None or ln is None:
                        structure_ok = False
                    elif val.of_scope is not scope:      # a function that exists only for the global table (darken, invert(number), ...)
                        later.append((key, "bound to a function of another scope than the module given"))
                    elif key in table or key in [k for k, _ in later]:
                        later.append((key, "exposed twice"))
                    else:
                        table[key] = ln
                elif val == "call":
                    g = E.find(name_re="^" + re.escape(key[6:-1]) + "$")
                    ins2, _s, g2, one2 = _expose_run(E, g, rec)
                    single = single and one2
                    later.extend((k, "defined by %s" % key[6:-1]) for k, _v, _t in ins2)
                    if any(k is None for k, _v, _t in ins2):
                        structure_ok = False
                else:
                    if key is None:
                        structure_ok = False
                    later.append((key, "defined after the table"))
        rec.func = rec.func or first
        if not single:
            rec.add("sass:%s expose(): one straight-line path" % mod + " (shape not recognised)", {"verdict": "inconclusive", "per_solver": {}, "time_s": 0})
            continue
        rec.add("sass:%s expose(): every table row inserts, under its global name, the function the module given holds under the row's local name — into the global table" % mod,
                _structural(structure_ok, "%d rows" % len(table)))
        want = DOC_PAIRS[mod]
        wrong = sorted("%s -> %s (documented: %s)" % (g, table.get(g), l) for g, l in want.items() if table.get(g) != l)
        rec.add("sass:%s expose(): each documented global name is bound to its module function (%s)" % (mod, ", ".join("%s=%s" % kv for kv in sorted(want.items()))),
                _structural(not wrong, "; ".join(wrong)), extra={"pairs_wrong": wrong} if wrong else None)
        over = sorted("%s %s" % (k, why) for k, why in later if k in want)
        rec.add("sass:%s expose(): no documented global name is redefined after the table" % mod, _structural(not over, "; ".join(over)),
                extra={"redefined": over} if over else None)
    # the initialiser of the global table: each expose() gets its own module
    f = E.find(name_re=r"^FUNCTIONS::\{closure#0\}$")
    ctx = E.ctx()
    calls = []

    def m_get(ex, st, c, a, d):
        k = _full(ex, st, a[1])
        o = sym.Opaque("&Scope", "module", ctx)
        o.key = k.s if isinstance(k, sym.ConstStr) else None
        return sym.Agg(d, "Some", {"0": o}, 1)

    def m_unwrap(ex, st, c, a, d):
        x = a[0]
        return x.fields["0"] if isinstance(x, sym.Agg) and x.variant == "Some" else None

    def m_expose(ex, st, c, a, d):
        ra = [_full(ex, st, x) for x in a]
        calls.append((c, getattr(ra[0], "key", None)))
        return sym.Unit()

    models = [(r"^BTreeMap::<&str, variablescope::Scope>::get::<", m_get), (r"^Option::<&variablescope::Scope>::unwrap$|^Option::<&Scope>::unwrap$", m_unwrap),
              (r"::expose$", m_expose), (r" as Deref>::deref$", lambda ex, st, c, a, d: a[0])] + BASE_MODELS
    ex = sym.Executor(ctx, models=models, feasibility=E.feasibility(ctx), max_paths=50)
    try:
        paths = [p for p in ex.run(f, [sym.Opaque("&closure", "init", ctx)]) if p.status == "return"]
    except sym.Unsupported as e:
        paths = []
        rec.notes.append("FUNCTIONS initialiser: %s" % e)
    rec.paths += len(paths)
    if len(paths) != 1 or not calls:
        _inconclusive(rec, "the FUNCTIONS initialiser is one straight-line path with expose() calls")
    else:
        bad = sorted("%s gets %s" % (c, k) for c, k in calls if k != "sass:" + c.split("::")[-2])
        mods = sorted(c.split("::")[-2] for c, _k in calls)
        rec.add("FUNCTIONS initialiser: expose() of each of the seven modules is called once, with that module's own scope (MODULES[\"sass:<name>\"])",
                _structural(not bad and mods == sorted(EXPOSE_FUNCS), "; ".join(bad) or ",".join(mods)))
    return rec


def k_meta_call(E, tier):
    """C34 (last sentence): meta.call with a function reference calls exactly the referenced function object with the
    argument list it was given in the caller's scope and returns its result; the reference made by get-function wraps the
    function found by the same two-step lookup (scope chain, then built-ins) a direct call uses."""
    f_call = E.find(name_re=r"^meta::create_module::\{closure#\d+\}$", contains=['const "function"', "Function::call"])
    rec = Rec("meta.call / meta.get-function / get_function() and the Call arm of sass::Value::do_evaluate", f_call, E)

    def mk(ctx):
        def ev(name, fork=None, ret=None):
            def m(ex, st, c, a, d):
                ra = [_full(ex, st, x) for x in a]
                if fork:
                    out = []
                    for kind, val in fork(d, ra):
                        s2 = st.fork()
                        e = sym.Event(name, a, kind, len(st.pc))
                        e.rargs, e.ret = ra, val
                        s2.events.append(e)
                        out.append((s2, val))
                    return out
                e = sym.Event(name, a, None, len(st.pc))
                e.rargs = ra
                e.ret = ret(d, ra) if ret else sym.Opaque(d or "?", name + "-result", ctx)
                st.events.append(e)
                return e.ret
            return m
        return ev

    def name_text(x):
        return x.s if isinstance(x, sym.ConstStr) else None

    # ---- the call closure -----------------------------------------------------------------------------------------
    ctx = E.ctx()
    ev = mk(ctx)
    s_args = sym.Opaque("&ResolvedArgs", "s", ctx)
    func = sym.Opaque("Function", "referenced-function", ctx)
    fname = sym.Opaque("String", "reference-name", ctx)
    found = sym.Opaque("Function", "function-found-by-name", ctx)
    cargs = sym.Opaque("CallArgs", "call-args", ctx)

    def fk_get_map(d, ra):
        key = name_text(ra[1].fields.get("text")) if isinstance(ra[1], sym.Agg) else None
        if key == "function":
            def tup(opt):
                return sym.Agg("tuple", None, {"0": opt, "1": fname})
            some = lambda v: sym.Agg("Option", "Some", {"0": v}, 1)  # noqa: E731
            none = sym.Agg("Option", "None", {}, 0)
            return [("function-ref", sym.Agg(d, "Ok", {"0": tup(some(some(func)))}, 0)),
                    ("css-function-ref", sym.Agg(d, "Ok", {"0": tup(some(none))}, 0)),
                    ("string", sym.Agg(d, "Ok", {"0": tup(none)}, 0)),
                    ("err", sym.Agg(d, "Err", {"0": sym.Opaque("CallError", "bad-function-arg", ctx)}, 1))]
        if key == "args":
            return [("args", sym.Agg(d, "Ok", {"0": cargs}, 0)), ("err", sym.Agg(d, "Err", {"0": sym.Opaque("CallError", "bad-args", ctx)}, 1))]
        raise sym.Unsupported("get_map of an unexpected argument %r" % key)

    def m_from_static(ex, st, c, a, d):
        x = _full(ex, st, a[0])
        return sym.Agg("Name", None, {"0": x, "text": x})

    def m_ok_or(ex, st, c, a, d):
        x = a[0]
        if isinstance(x, sym.Agg) and x.variant == "Some":
            return sym.Agg(d, "Ok", {"0": x.fields["0"]}, 0)
        if isinstance(x, sym.Agg) and x.variant == "None":
            return sym.Agg(d, "Err", {"0": sym.Unit()}, 1)
        return None

    def m_or_else(ex, st, c, a, d):
        x = a[0]
        if isinstance(x, sym.Agg) and x.variant == "Ok":
            return sym.Agg(d, "Ok", {"0": x.fields["0"]}, 0)
        out = []
        for kind, val in (("found", sym.Agg(d, "Ok", {"0": sym.Agg("Option", "Some", {"0": found}, 1)}, 0)),
                          ("not-found", sym.Agg(d, "Ok", {"0": sym.Agg("Option", "None", {}, 0)}, 0)),
                          ("err", sym.Agg(d, "Err", {"0": sym.Opaque("CallError", "lookup-error", ctx)}, 1))):
            s2 = st.fork()
            e = sym.Event("lookup-by-name", a, kind, len(st.pc))
            e.rargs = [_full(ex, st, v) for v in a]
            s2.events.append(e)
            out.append((s2, val))
        return out

    models = [(r"^Name::from_static$|::Name::from_static$", m_from_static), (r"^ResolvedArgs::get_map::<", ev("get_map", fork=fk_get_map)),
              (r"^Option::<Option<functions::Function>>::ok_or::<", m_ok_or), (r"^std::result::Result::<Option<functions::Function>, \(\)>::or_else::<", m_or_else),
              (r"^ResolvedArgs::call_scope$", ev("call_scope")), (r"^functions::Function::call$|::Function::call$", ev("fcall"))] + BASE_MODELS
    ex = sym.Executor(ctx, models=models, feasibility=E.feasibility(ctx), max_paths=400)
    try:
        paths = [p for p in ex.run(f_call, [sym.Opaque("&closure", "env", ctx), s_args]) if p.status == "return"]
    except sym.Unsupported as e:
        paths = []
        rec.notes.append("meta.call: %s" % e)
    rec.paths += len(paths)
    refp = [p for p in paths if any(e.callee == "get_map" and e.result == "function-ref" for e in p.events)]
    if not refp:
        _inconclusive(rec, "meta.call has a path for a function reference")
    for i, p in enumerate(refp):
        by = {}
        for e in p.events:
            by.setdefault(e.callee, []).append(e)
        if any(e.result == "err" for e in p.events):
            rec.add("meta.call path %d (function reference, bad argument list): the call fails" % i, _structural(isinstance(p.ret, sym.Agg) and p.ret.variant == "Err" and not by.get("fcall")))
            continue
        fc = by.get("fcall", [])
        good = len(fc) == 1 and not by.get("lookup-by-name")
        detail = "events " + ",".join(e.callee for e in p.events)
        if good:
            callarg = fc[0].rargs[1]
            cs = by.get("call_scope", [])
            checks = {
                "the function called is the referenced function object": fc[0].rargs[0] is func,
                "with the argument list given": isinstance(callarg, sym.Agg) and (callarg.fields.get("args") is cargs or callarg.fields.get("0") is cargs),
                "in the caller's scope": len(cs) == 1 and cs[0].rargs[0] is s_args and isinstance(callarg, sym.Agg) and (callarg.fields.get("scope") is cs[0].ret or callarg.fields.get("1") is cs[0].ret),
                "and its result is the result of meta.call": p.ret is fc[0].ret,
            }
            good = all(checks.values())
            detail = "; ".join(k for k, v in checks.items() if not v) or "all links ok"
        rec.add("meta.call path %d (function reference): exactly the referenced function is called, once, with the argument list given, in the caller's scope; its result is returned; no lookup by name" % i,
                _structural(good, detail))

    # ---- how the $function argument is unpacked --------------------------------------------------------------------
    f_un = E.find(name_re=r"^meta::create_module::\{closure#\d+\}::\{closure#0\}$", contains=['const "a function reference"'])
    vals = E.load_enum("css/value.rs", "Value", "css::value::Value")
    ctx = E.ctx()
    ev = mk(ctx)
    v = sym.Opaque("css::value::Value", "function-argument", ctx)
    ctx.assumptions.append("(= %s %s)" % (v.discriminant().term, bvlit(vals.index("Function"), 64)))
    models = [(r"^<Option<functions::Function> as Clone>::clone$", ev("clone_fn")), (r"^<String as Clone>::clone$", ev("clone_name"))] + BASE_MODELS
    ex = sym.Executor(ctx, models=models, feasibility=E.feasibility(ctx), max_paths=50)
    try:
        paths = [p for p in ex.run(f_un, [sym.Opaque("&closure", "env", ctx), v]) if p.status == "return"]
    except sym.Unsupported as e:
        paths = []
        rec.notes.append("meta.call argument unpacking: %s" % e)
    rec.paths += len(paths)
    if len(paths) != 1:
        _inconclusive(rec, "unpacking a function value is one path")
    else:
        p = paths[0]
        cf = [e for e in p.events if e.callee == "clone_fn"]
        good = False
        if len(cf) == 1 and isinstance(p.ret, sym.Agg) and p.ret.variant == "Ok":
            tup = p.ret.fields["0"]
            first = tup.fields.get("0") if isinstance(tup, sym.Agg) else None
            src = cf[0].rargs[0]
            good = (isinstance(first, sym.Agg) and first.variant == "Some" and first.fields["0"] is cf[0].ret
                    and src is v.children.get("Function.1"))
        rec.add("meta.call: a function value is unpacked into a clone of the function object it carries (not looked up again by name)", _structural(good))

    # ---- get_function(): the same two-step lookup as a direct call ---------------------------------------------------
    f_get = E.find(name_re=r"^get_function$|^meta::get_function$", contains=["call_scope"])
    ctx = E.ctx()
    ev = mk(ctx)
    s_args = sym.Opaque("&ResolvedArgs", "s", ctx)
    nm = sym.Opaque("&str", "function-name", ctx)
    in_scope = sym.Opaque("Function", "function-in-scope", ctx)
    theName = sym.Opaque("Name", "Name::from(name)", ctx)

    def fk_scope_get(d, ra):
        return [("some", sym.Agg(d, "Ok", {"0": sym.Agg("Option", "Some", {"0": in_scope}, 1)}, 0)),
                ("none", sym.Agg(d, "Ok", {"0": sym.Agg("Option", "None", {}, 0)}, 0)),
                ("err", sym.Agg(d, "Err", {"0": sym.Opaque("ScopeError", "scope-error", ctx)}, 1))]

    def m_opt_or_else(ex, st, c, a, d):
        x = _full(ex, st, a[0])
        if isinstance(x, sym.Agg) and x.variant == "Some":
            return x
        e = sym.Event("builtin-fallback", a, None, len(st.pc))
        e.rargs = [_full(ex, st, v) for v in a]
        e.ret = sym.Opaque(d, "builtin-or-none", ctx)
        st.events.append(e)
        return e.ret

    models = [(r"^<Name as From<&str>>::from$", lambda ex, st, c, a, d: theName if _full(ex, st, a[0]) is nm else None),
              (r"^ResolvedArgs::call_scope$", ev("call_scope")), (r" as Deref>::deref$", lambda ex, st, c, a, d: a[0]),
              (r"^variablescope::Scope::get_function$", ev("scope_get", fork=fk_scope_get)),
              (r"^Option::<functions::Function>::or_else::<", m_opt_or_else),
              (r"Function::get_builtin$", ev("direct-builtin", fork=lambda d, ra: [("some", sym.Agg(d, "Some", {"0": sym.Ref("val", sym.Opaque("Function", "built-in", ctx))}, 1)),
                                                                                   ("none", sym.Agg(d, "None", {}, 0))])),
              (r"^<functions::Function as Clone>::clone$|^<Function as Clone>::clone$", lambda ex, st, c, a, d: _full(ex, st, a[0]))] + BASE_MODELS
    ex = sym.Executor(ctx, models=models, feasibility=E.feasibility(ctx), max_paths=400)
    none_mod = sym.Agg("Option", "None", {}, 0)
    try:
        paths = [p for p in ex.run(f_get, [s_args, none_mod, nm]) if p.status == "return"]
    except sym.Unsupported as e:
        paths = []
        rec.notes.append("get_function: %s" % e)
    rec.paths += len(paths)
    if not paths:
        _inconclusive(rec, "get_function(s, no module, name) returns")
    for i, p in enumerate(paths):
        sg = [e for e in p.events if e.callee == "scope_get"]
        cs = [e for e in p.events if e.callee == "call_scope"]
        fb = [e for e in p.events if e.callee == "builtin-fallback"]
        ok_lookup = len(sg) == 1 and len(cs) == 1 and sg[0].rargs[0] is cs[0].ret and sg[0].rargs[1] is theName and cs[0].rargs[0] is s_args
        early = [e for e in p.events if e.callee == "direct-builtin" and (not sg or p.events.index(e) < p.events.index(sg[0]))]
        if early:
            rec.add("get_function path %d: the built-in table is not consulted before the caller's scope chain" % i, _structural(False, "get_builtin before Scope::get_function"))
            continue
        if not ok_lookup:
            rec.add("get_function path %d: the name is looked up, once, in the caller's scope" % i, _structural(False))
            continue
        kind = sg[0].result
        payload = p.ret.fields.get("0") if isinstance(p.ret, sym.Agg) and p.ret.variant == "Ok" else None
        if kind == "err":
            good = isinstance(p.ret, sym.Agg) and p.ret.variant == "Err"
        elif kind == "some":
            good = isinstance(payload, sym.Agg) and payload.variant == "Some" and payload.fields["0"] is in_scope and not fb
        else:
            good = len(fb) == 1 and payload is fb[0].ret
        rec.add("get_function path %d (scope lookup: %s): a function of the scope chain wins; only when there is none the built-in table is asked; a scope error is an error" % (i, kind),
                _structural(bool(good)))
    # ---- the direct call: the Call arm of sass::Value::do_evaluate ---------------------------------------------------
    sv = E.load_enum("sass/value.rs", "Value", "sass::value::Value")
    f_de = E.find(name_re=r"^sass::value::<impl at .*>::do_evaluate$", contains=["Duplicate key"])
    ctx = E.ctx()
    ev = mk(ctx)
    me = sym.Opaque("sass::value::Value", "call-expression", ctx)
    ctx.assumptions.append("(= %s %s)" % (me.discriminant().term, bvlit(sv.index("Call"), 64)))
    scope = sym.Opaque("ScopeRef", "evaluating-scope", ctx)
    rawname = sym.Opaque("&str", "function-name", ctx)
    dName = sym.Opaque("Name", "Name::from(name)", ctx)
    dfound = sym.Opaque("Function", "function-in-scope", ctx)
    thecall = sym.Opaque("Call", "evaluated-arguments", ctx)

    def fk_eval_args(d, ra):
        return [("ok", sym.Agg(d, "Ok", {"0": thecall}, 0)), ("err", sym.Agg(d, "Err", {"0": sym.Opaque("CallError", "argument-error", ctx)}, 1))]

    def fk_scope_get2(d, ra):
        return [("some", sym.Agg(d, "Ok", {"0": sym.Agg("Option", "Some", {"0": dfound}, 1)}, 0)),
                ("none", sym.Agg(d, "Ok", {"0": sym.Agg("Option", "None", {}, 0)}, 0)),
                ("err", sym.Agg(d, "Err", {"0": sym.Opaque("ScopeError", "scope-error", ctx)}, 1))]

    def m_map_err(ex, st, c, a, d):
        x = a[0]
        if isinstance(x, sym.Agg) and x.variant == "Ok":
            return sym.Agg(d, "Ok", {"0": x.fields["0"]}, 0)
        if isinstance(x, sym.Agg) and x.variant == "Err":
            return sym.Agg(d, "Err", {"0": sym.Opaque("Error", "located-error", ctx)}, 1)
        if isinstance(x, sym.Opaque):            # the opaque result of Function::call: keep its identity through the error mapping
            o = sym.Opaque(d, x.name + "+position", ctx)
            o.mapped_from = x
            return o
        return None

    def m_or_else2(ex, st, c, a, d):
        x = _full(ex, st, a[0])
        if isinstance(x, sym.Agg) and x.variant == "Some":
            return x
        out = []
        for kind, val in (("builtin", sym.Agg(d, "Some", {"0": sym.Opaque("Function", "built-in", ctx)}, 1)), ("nothing", sym.Agg(d, "None", {}, 0))):
            s2 = st.fork()
            e = sym.Event("builtin-fallback", a, kind, len(st.pc))
            e.ret = val
            s2.events.append(e)
            out.append((s2, val))
        return out

    models = [(r"^SassString::single_raw$", lambda ex, st, c, a, d: sym.Agg(d, "Some", {"0": rawname}, 1)),
              (r"^<Option<&str> as PartialEq>::eq$", lambda ex, st, c, a, d: sym.mk_bool("false")),          # not the lazy `if`
              (r"^<ScopeRef as Clone>::clone$", lambda ex, st, c, a, d: _full(ex, st, a[0])),
              (r"^sass::call_args::CallArgs::evaluate$", ev("eval_args", fork=fk_eval_args)),
              (r"^std::result::Result::<.*>::map_err::<", m_map_err),
              (r"^<Name as From<&str>>::from$", lambda ex, st, c, a, d: dName if _full(ex, st, a[0]) is rawname else None),
              (r" as Deref>::deref$", lambda ex, st, c, a, d: a[0]),
              (r"^variablescope::Scope::get_function$", ev("scope_get", fork=fk_scope_get2)),
              (r"^Option::<functions::Function>::or_else::<", m_or_else2),
              (r"^functions::Function::call$|::Function::call$", ev("fcall"))] + BASE_MODELS
    ex = sym.Executor(ctx, models=models, feasibility=E.feasibility(ctx), max_paths=3000)
    try:
        paths = [p for p in ex.run(f_de, [sym.Ref("val", me), scope, sym.Opaque("bool", "arithmetic", ctx)]) if p.status == "return"]
    except sym.Unsupported as e:
        paths = []
        rec.notes.append("direct call: %s" % e)
    rec.paths += len(paths)
    callp = [p for p in paths if any(e.callee == "fcall" for e in p.events)]
    if not callp:
        _inconclusive(rec, "the Call arm has a path that calls a function")
    for i, p in enumerate(paths):
        sg = [e for e in p.events if e.callee == "scope_get"]
        ea = [e for e in p.events if e.callee == "eval_args"]
        fb = [e for e in p.events if e.callee == "builtin-fallback"]
        fc = [e for e in p.events if e.callee == "fcall"]
        if not sg:
            continue          # argument evaluation failed before any lookup
        lookup_ok = len(sg) == 1 and sg[0].rargs[0] is scope and sg[0].rargs[1] is dName and len(ea) == 1 and ea[0].result == "ok"
        kind = sg[0].result
        if kind == "err":
            good = lookup_ok and not fc and isinstance(p.ret, sym.Agg) and p.ret.variant == "Err"
        elif kind == "some":
            good = lookup_ok and not fb and len(fc) == 1 and fc[0].rargs[0] is dfound and fc[0].rargs[1] is thecall
        elif fb and fb[0].result == "builtin":
            good = lookup_ok and len(fc) == 1 and fc[0].rargs[0] is fb[0].ret.fields["0"] and fc[0].rargs[1] is thecall
        else:
            good = lookup_ok and not fc           # an unknown function stays a plain CSS function call
        rec.add("direct call path %d (scope lookup: %s%s): the name is looked up in the evaluating scope, then among the built-ins — the lookup get-function makes — "
                "and the function found is called once with the evaluated arguments" % (i, kind, ", " + fb[0].result if fb else ""), _structural(bool(good)))

    # the fallback closures ask the built-in table for the same name
    for label, pat in (("get_function", r"^get_function::\{closure#0\}$|^meta::get_function::\{closure#0\}$"),
                       ("direct call", r"^sass::value::<impl at .*>::do_evaluate::\{closure#\d+\}$")):
        try:
            f_fb = E.find(name_re=pat, contains=["get_builtin"])
        except sym.Unsupported:
            _inconclusive(rec, "%s: a fallback closure that asks the built-in table exists" % label)
            continue
        ctx = E.ctx()
        ev = mk(ctx)
        cap = sym.Opaque("Name", "captured-name", ctx)
        models = [(r"Function::get_builtin$", ev("get_builtin")), (r"^Option::<&functions::Function>::cloned$", ev("cloned"))] + BASE_MODELS
        ex = sym.Executor(ctx, models=models, feasibility=E.feasibility(ctx), max_paths=50)
        try:
            paths = [p for p in ex.run(f_fb, [sym.Agg("closure", None, {"0": sym.Ref("val", cap)})]) if p.status == "return"]
        except sym.Unsupported as e:
            paths = []
            rec.notes.append("%s fallback: %s" % (label, e))
        rec.paths += len(paths)
        if len(paths) != 1:
            _inconclusive(rec, "%s: the fallback closure is one path" % label)
            continue
        p = paths[0]
        gb = [e for e in p.events if e.callee == "get_builtin"]
        cl = [e for e in p.events if e.callee == "cloned"]
        good = len(gb) == 1 and len(cl) == 1 and gb[0].rargs[0] is cap and cl[0].rargs[0] is gb[0].ret and p.ret is cl[0].ret
        rec.add("%s fallback: the built-in table is asked for the very same name and its entry is returned" % label, _structural(good))
    return rec


# ------------------------------------------------------------------------------------------------ C22
def _opt(d, variant, payload=None):
    idx = {"Some": 0, "Any": 1, "None": 2}[variant]
    return sym.Agg(d or "opt::Opt", variant, {"0": payload} if payload is not None else {}, idx)


def _struct_fields(E, rel_path, name):
    """Field names of a struct in declaration order (= MIR field indices), from the current source."""
    text = open(os.path.join(E.src, rel_path)).read()
    m = re.search(r"struct %s\s*\{(.*?)\n\}" % re.escape(name), text, re.S)
    if not m:
        raise sym.Unsupported("struct %s not found in %s" % (name, rel_path))
    body = re.sub(r"//[^\n]*", "", m.group(1))
    body = re.sub(r"#\[[^\]]*\]", "", body)
    return re.findall(r"(?:pub(?:\([a-z]+\))?\s+)?([a-z_][a-z0-9_]*)\s*:", body)


def k_placeholder_algebra(E, tier):
    """C22: the placeholder filter is a three-valued algebra — Opt::Some(x) (what x matches), Opt::Any (everything),
    Opt::None (nothing): a list of selectors is a union (collect_pos), a compound's pseudo-classes an intersection
    (collect_neg), :not() swaps Any and None, a placeholder is None, and Rule::write emits nothing for None and the
    filtered selectors (not the original ones) otherwise. One level of each recursive function is executed with the
    recursive calls returning every Opt value."""
    E.load_enum("css/selectors/opt.rs", "Opt", "opt::Opt")
    f_pos = E.find(name_re=r"^opt::<impl at .*>::collect_pos$")
    rec = Rec("Opt::collect_pos / collect_neg, no_placeholder of SelectorSet / Selector / CompoundSelector / Pseudo, css::Rule::write", f_pos, E)
    K = 3 if tier == "quick" else 6
    F_COMP = _struct_fields(E, "css/selectors/compound.rs", "CompoundSelector")
    F_PSEUDO = _struct_fields(E, "css/selectors/pseudo.rs", "Pseudo")
    F_SEL = _struct_fields(E, "css/selectors/selector.rs", "Selector")
    F_SET = _struct_fields(E, "css/selectors/selectorset.rs", "SelectorSet")
    F_RULE = _struct_fields(E, "css/rule.rs", "Rule")

    def fld(names, n):
        return str(names.index(n))

    # ---- collect_pos / collect_neg over up to K elements of every kind ------------------------------------------------
    for fname, f in (("collect_pos", f_pos), ("collect_neg", E.find(name_re=r"^opt::<impl at .*>::collect_neg$"))):
        ctx = E.ctx()
        vec = sym.Opaque("Vec<T>", "result-vec", ctx)
        payloads = [sym.Opaque("T", "kept%d" % i, ctx) for i in range(K)]

        def m_next(ex, st, c, a, d, payloads=payloads):
            n = sum(1 for e in st.events if e.callee == "elem")
            outs = []
            end = st.fork()
            end.events.append(sym.Event("end", a, None, len(st.pc)))
            outs.append((end, sym.Agg(d, "None", {}, 0)))
            if n < K:
                for kind in ("Some", "Any", "None"):
                    s2 = st.fork()
                    s2.events.append(sym.Event("elem", a, kind, len(st.pc)))
                    outs.append((s2, sym.Agg(d, "Some", {"0": _opt("opt::Opt<T>", kind, payloads[n] if kind == "Some" else None)}, 1)))
            return outs

        def m_push(ex, st, c, a, d):
            e = sym.Event("push", a, None, len(st.pc))
            e.rargs = [_full(ex, st, x) for x in a]
            st.events.append(e)
            return sym.Unit()

        def m_is_empty(ex, st, c, a, d):
            return sym.mk_bool("true" if not any(e.callee == "push" for e in st.events) else "false")

        models = [(r"^Vec::<T>::new$", lambda ex, st, c, a, d, vec=vec: vec), (r" as IntoIterator>::into_iter$", lambda ex, st, c, a, d: a[0]),
                  (r" as Iterator>::next$", m_next), (r"^Vec::<T>::push$", m_push), (r"^Vec::<T>::is_empty$", m_is_empty)] + BASE_MODELS
        ex = sym.Executor(ctx, models=models, feasibility=E.feasibility(ctx), max_paths=4000)
        ex.unroll = K + 2
        paths = [p for p in ex.run(f, [sym.Opaque("impl Iterator", "elements", ctx)]) if p.status == "return"]
        rec.paths += len(paths)
        if len(paths) < 2 ** (K + 1):
            _inconclusive(rec, "%s explores its element sequences" % fname)
            continue
        bad = []
        for p in paths:
            seq = [e.result for e in p.events if e.callee == "elem"]
            pushes = [e.rargs[1] for e in p.events if e.callee == "push"]
            ended = any(e.callee == "end" for e in p.events)
            stop, unit = ("Any", "None") if fname == "collect_pos" else ("None", "Any")
            got = p.ret.variant if isinstance(p.ret, sym.Agg) else None
            if stop in seq:
                # the absorbing element decides at once; nothing after it is consumed
                ok = got == stop and seq.index(stop) == len(seq) - 1 and not ended
            else:
                kept = [payloads[i] for i, k in enumerate(seq) if k == "Some"]
                same = len(kept) == len(pushes) and all(x is y for x, y in zip(kept, pushes))
                if kept:
                    ok = ended and got == "Some" and same and _full(ex, None, p.ret.fields["0"]) is vec
                else:
                    ok = ended and got == unit and not pushes
            if not ok:
                bad.append("%s -> %s" % (",".join(seq) or "(empty)", got))
        absorbing, neutral = ("Any", "None") if fname == "collect_pos" else ("None", "Any")
        rec.add("%s over every sequence of up to %d elements: %s as soon as an element is %s; otherwise the Some payloads in order, and %s if there are none (%s elements are dropped)"
                % (fname, K, absorbing, absorbing, neutral, neutral), _structural(not bad, "; ".join(bad[:6]) or "%d sequences" % len(paths)))

    def three(d, tag, ctx):
        return [("Some", _opt(d, "Some", sym.Opaque("T", "filtered-" + tag, ctx))), ("Any", _opt(d, "Any")), ("None", _opt(d, "None"))]

    def forker(name, ctx, tag):
        def m(ex, st, c, a, d):
            ra = [_full(ex, st, x) for x in a]
            out = []
            for kind, val in three(d, tag, ctx):
                s2 = st.fork()
                e = sym.Event(name, a, kind, len(st.pc))
                e.rargs, e.ret = ra, val
                s2.events.append(e)
                out.append((s2, val))
            return out
        return m

    def boolfork(name, ctx):
        def m(ex, st, c, a, d):
            ra = [_full(ex, st, x) for x in a]
            out = []
            for kind in ("true", "false"):
                s2 = st.fork()
                e = sym.Event(name, a, kind, len(st.pc))
                e.rargs = ra
                s2.events.append(e)
                out.append((s2, sym.mk_bool(kind)))
            return out
        return m

    # ---- Pseudo::no_placeholder ------------------------------------------------------------------------------------
    f_ps = E.find(name_re=r"^pseudo::<impl at .*>::no_placeholder$")
    args = E.load_enum("css/selectors/pseudo.rs", "Arg", "pseudo::Arg") if os.path.exists(os.path.join(E.src, "css/selectors/pseudo.rs")) else None
    ctx = E.ctx()
    arg = sym.Opaque("pseudo::Arg", "pseudo-argument", ctx)
    me = sym.Agg("Pseudo", None, {})
    try:
        argfile = "css/selectors/pseudo.rs"
        idx_sel = E.load_enum(argfile, "Arg", "Arg").index("Selector")
    except (sym.Unsupported, ValueError):
        idx_sel = None
    pseudo = sym.Opaque("Pseudo", "pseudo", ctx)

    def m_name_in(ex, st, c, a, d):
        names = _full(ex, st, a[1])
        txt = None
        if isinstance(names, sym.Agg):
            vals = [v for k, v in names.fields.items() if k.isdigit()]
            if len(vals) == 1:
                v = _full(ex, st, vals[0])
                txt = v.s if isinstance(v, sym.ConstStr) else None
        if txt is None:
            raise sym.Unsupported("name_in with a non-literal list")
        prior = [e for e in st.events if e.callee == "name_in:" + txt]
        if prior:
            return sym.mk_bool(prior[0].result)
        out = []
        others = [e.callee for e in st.events if e.callee.startswith("name_in:") and e.result == "true"]
        for kind in ("true", "false"):
            if kind == "true" and others:
                continue          # a name is only one of the literals asked about
            s2 = st.fork()
            s2.events.append(sym.Event("name_in:" + txt, a, kind, len(st.pc)))
            out.append((s2, sym.mk_bool(kind)))
        return out

    models = [(r"^SelectorSet::no_placeholder$", forker("inner", ctx, "argument")), (r"^Pseudo::name_in$", m_name_in),
              (r"^SelectorSet::no_leading_combinator$", forker("nlc", ctx, "no-leading")), (r"^<Arg as Clone>::clone$", lambda ex, st, c, a, d: _full(ex, st, a[0])),
              (r"^<String as Clone>::clone$", lambda ex, st, c, a, d: _full(ex, st, a[0]))] + BASE_MODELS
    if idx_sel is not None:
        ex = sym.Executor(ctx, models=models, feasibility=E.feasibility(ctx), max_paths=2000)
        try:
            paths = [p for p in ex.run(f_ps, [sym.Ref("val", pseudo)]) if p.status == "return"]
        except sym.Unsupported as e:
            paths = []
            rec.notes.append("Pseudo::no_placeholder: %s" % e)
    else:
        paths = []
    rec.paths += len(paths)
    selp = [p for p in paths if any(e.callee == "inner" for e in p.events)]
    if not selp or len(selp) == len(paths):
        _inconclusive(rec, "Pseudo::no_placeholder has paths for selector and non-selector arguments")
    else:
        bad = []
        for p in selp:
            inner = [e for e in p.events if e.callee == "inner"][0]
            flags = {e.callee[8:]: e.result == "true" for e in p.events if e.callee.startswith("name_in:")}
            is_not, is_is = flags.get("not", False), flags.get("is", False)
            nlc = [e for e in p.events if e.callee == "nlc"]
            got = p.ret.variant if isinstance(p.ret, sym.Agg) else None
            k = inner.result
            if "not" not in flags:
                bad.append("path without asking for :not")
                continue
            if k == "Some":
                if is_is:
                    want = nlc[0].result if nlc and nlc[0].rargs[0] is inner.ret.fields["0"] else "?"
                else:
                    want = "Some"
                okp = got == want
                if okp and got == "Some":
                    newarg = _full(ex, None, p.ret.fields["0"])
                    kept = (nlc[0].ret if is_is else inner.ret).fields["0"]
                    a2 = newarg.fields.get(fld(F_PSEUDO, "arg")) if isinstance(newarg, sym.Agg) else None
                    a2 = _full(ex, None, a2) if a2 is not None else None
                    okp = isinstance(a2, sym.Agg) and a2.variant == "Selector" and _full(ex, None, a2.fields["0"]) is kept
            else:
                # :not swaps "everything" and "nothing"; every other pseudo-class with a selector argument keeps them
                want = {("Any", False): "Any", ("None", True): "Any", ("None", False): "None", ("Any", True): "None"}[(k, is_not)]
                okp = got == want
            if not okp:
                bad.append("inner=%s not=%s is=%s -> %s" % (k, is_not, is_is, got))
        rec.add("Pseudo::no_placeholder, selector argument: a filtered argument is kept (for :is() without a leading combinator); an argument that matches everything / nothing makes the "
                "pseudo-class match everything / nothing, and :not() the other way round", _structural(not bad, "; ".join(bad[:6]) or "%d paths" % len(selp)))
        other = [p for p in paths if p not in selp]
        good = all(isinstance(p.ret, sym.Agg) and p.ret.variant == "Some" for p in other)
        rec.add("Pseudo::no_placeholder, any other argument: the pseudo-class is kept as it is", _structural(good))

    # ---- CompoundSelector::no_placeholder ----------------------------------------------------------------------------
    f_cp = E.find(name_re=r"^compound::<impl at .*>::no_placeholder$")
    ctx = E.ctx()
    comp = sym.Opaque("CompoundSelector", "compound", ctx)
    theclone = sym.Opaque("CompoundSelector", "clone-of-compound", ctx)
    models = [(r"^Vec::<String>::is_empty$", boolfork("no-placeholders", ctx)), (r" as Deref>::deref$", lambda ex, st, c, a, d: a[0]),
              (r"^core::slice::<impl \[Pseudo\]>::iter$", lambda ex, st, c, a, d: a[0]), (r" as Iterator>::map::<", lambda ex, st, c, a, d: sym.Agg("Map", None, {"0": a[0], "1": a[1]})),
              (r"^opt::Opt::<Pseudo>::collect_neg::<", forker("collect_neg", ctx, "pseudos")), (r"^Vec::<Pseudo>::new$", lambda ex, st, c, a, d: sym.Agg("Vec<Pseudo>", "EMPTY", {})),
              (r"^<CompoundSelector as Clone>::clone$", lambda ex, st, c, a, d: theclone if _full(ex, st, a[0]) is comp else None),
              (r"^CompoundSelector::is_empty$", boolfork("is-empty", ctx))] + BASE_MODELS
    ex = sym.Executor(ctx, models=models, feasibility=E.feasibility(ctx), max_paths=400)
    try:
        paths = [p for p in ex.run(f_cp, [sym.Ref("val", comp)]) if p.status == "return"]
    except sym.Unsupported as e:
        paths = []
        rec.notes.append("CompoundSelector::no_placeholder: %s" % e)
    rec.paths += len(paths)
    if len(paths) < 4:
        _inconclusive(rec, "CompoundSelector::no_placeholder explores placeholder / pseudo outcomes")
    else:
        bad = []
        for p in paths:
            nop = [e for e in p.events if e.callee == "no-placeholders"]
            cn = [e for e in p.events if e.callee == "collect_neg"]
            got = p.ret.variant if isinstance(p.ret, sym.Agg) else None
            if not nop or nop[0].rargs[0] is not comp.children.get(fld(F_COMP, "placeholders")):
                bad.append("placeholder list not consulted")
                continue
            if nop[0].result == "false":
                okp = got == "None" and not cn
            else:
                m0 = cn[0].rargs[0] if cn else None
                src_ok = bool(cn) and isinstance(m0, sym.Agg) and _full(ex, None, m0.fields["0"]) is comp.children.get(fld(F_COMP, "pseudo")) and \
                    isinstance(m0.fields["1"], sym.FnItem) and m0.fields["1"].name.endswith("Pseudo::no_placeholder")
                k = cn[0].result if cn else None
                ie = [e for e in p.events if e.callee == "is-empty"]
                news = [e for e in ie if isinstance(e.rargs[0], sym.Agg)]          # asked of the compound just built
                olds = [e for e in ie if e.rargs[0] is comp]                         # asked of the original
                became_universal = bool(news) and news[0].result == "true" and bool(olds) and olds[0].result == "false"
                if k == "None":
                    okp = src_ok and got == "None"
                elif not news:
                    okp = False          # whether anything is left after dropping match-anything pseudo-classes must be looked at
                elif became_universal:
                    okp = src_ok and got == "Any"        # nothing but match-anything pseudo-classes: the compound matches anything
                else:
                    okp = src_ok and got == "Some"
                    if okp:
                        new = _full(ex, None, p.ret.fields["0"])
                        okp = new is news[0].rargs[0]
                        fp = fld(F_COMP, "pseudo")
                        ps = _full(ex, None, new.fields.get(fp)) if isinstance(new, sym.Agg) and new.fields.get(fp) is not None else None
                        okp = okp and ((ps is cn[0].ret.fields["0"]) if k == "Some" else (isinstance(ps, sym.Agg) and ps.variant == "EMPTY"))
                        # every other field comes from the clone of the compound itself
                        okp = okp and all(_full(ex, None, new.fields.get(str(i))) is theclone.children.get(str(i)) for i in range(len(F_COMP)) if str(i) != fp)
            if not okp:
                bad.append("placeholders-empty=%s pseudos=%s -> %s" % (nop[0].result, cn[0].result if cn else "-", got))
        rec.add("CompoundSelector::no_placeholder: a compound with a placeholder matches nothing; otherwise its pseudo-classes are filtered as an intersection "
                "(one that matches nothing removes the compound, those that match everything are dropped, the rest are kept in place of the old list); "
                "a compound of which nothing else is left matches everything (Opt::Any), it is not kept as an empty compound",
                _structural(not bad, "; ".join(bad[:6]) or "%d paths" % len(paths)))

    # ---- Selector::no_placeholder (compound + optional relation to another selector) ---------------------------------
    f_sl = E.find(name_re=r"^css::selectors::selector::<impl at .*>::no_placeholder$")
    ctx = E.ctx()
    sel = sym.Opaque("css::selectors::selector::Selector", "selector", ctx)
    relsel = sym.Opaque("css::selectors::selector::Selector", "related-selector", ctx)
    relkind = sym.Opaque("RelKind", "combinator", ctx)
    pair = sym.Agg("tuple", None, {"0": relkind, "1": relsel})

    def m_as_deref(ex, st, c, a, d):
        out = []
        for kind, val in (("rel", sym.Agg(d, "Some", {"0": sym.Ref("val", pair)}, 1)), ("norel", sym.Agg(d, "None", {}, 0))):
            prior = [e for e in st.events if e.callee == "has-rel"]
            if prior and prior[0].result != kind:
                continue
            s2 = st.fork()
            if not prior:
                s2.events.append(sym.Event("has-rel", a, kind, len(st.pc)))
            out.append((s2, val))
        return out

    def m_is_some(ex, st, c, a, d):
        out = []
        for kind in ("rel", "norel"):
            prior = [e for e in st.events if e.callee == "has-rel"]
            if prior and prior[0].result != kind:
                continue
            s2 = st.fork()
            if not prior:
                s2.events.append(sym.Event("has-rel", a, kind, len(st.pc)))
            out.append((s2, sym.mk_bool("true" if kind == "rel" else "false")))
        return out

    def m_is_none_concrete(ex, st, c, a, d):
        x = _full(ex, st, a[0])
        if isinstance(x, sym.Agg) and x.variant in ("Some", "None"):
            return sym.mk_bool("true" if x.variant == "None" else "false")
        return None

    def m_rec(ex, st, c, a, d):
        x = _full(ex, st, a[0])
        name = "rel-filtered" if x is relsel else "other-filtered"
        return forker(name, ctx, "relation")(ex, st, c, a, d)

    models = [(r"^CompoundSelector::no_placeholder$", forker("compound", ctx, "compound")), (r"^<CompoundSelector as Default>::default$", lambda ex, st, c, a, d: sym.Agg("CompoundSelector", "DEFAULT", {})),
              (r"::Selector::is_local_empty$", boolfork("local-empty", ctx)), (r"^Option::<Box<\(RelKind, .*\)>>::is_some$", m_is_some),
              (r"^Option::<Box<\(RelKind, .*\)>>::as_deref$", m_as_deref), (r"::Selector::no_placeholder$", m_rec),
              (r"^Option::<Box<\(RelKind, .*\)>>::is_none$", m_is_none_concrete),
              (r"^Box::<\(RelKind, .*\)>::new$", lambda ex, st, c, a, d: sym.Agg("Box", "BOX", {"0": _full(ex, st, a[0])})),
              (r"^Arguments::<'_>::from_str$", lambda ex, st, c, a, d: sym.Unit()), (r"^std::io::_eprint$", lambda ex, st, c, a, d: sym.Unit())] + BASE_MODELS
    ex = sym.Executor(ctx, models=models, feasibility=E.feasibility(ctx), max_paths=2000)
    try:
        paths = [p for p in ex.run(f_sl, [sym.Ref("val", sel)]) if p.status == "return"]
    except sym.Unsupported as e:
        paths = []
        rec.notes.append("Selector::no_placeholder: %s" % e)
    rec.paths += len(paths)
    if len(paths) < 6:
        _inconclusive(rec, "Selector::no_placeholder explores compound / relation outcomes")
    else:
        bad = []
        for p in paths:
            cp = [e for e in p.events if e.callee == "compound"]
            rl = [e for e in p.events if e.callee == "rel-filtered"]
            hr = [e for e in p.events if e.callee == "has-rel"]
            le = [e for e in p.events if e.callee == "local-empty"]
            got = p.ret.variant if isinstance(p.ret, sym.Agg) else None
            if not cp or cp[0].rargs[0] is not sel.children.get(fld(F_SEL, "compound")):
                bad.append("own compound not filtered")
                continue
            ck = cp[0].result
            has_rel = bool(hr) and hr[0].result == "rel"
            if ck == "None":
                okp = got == "None"
            elif le and le[0].result == "true" and has_rel:
                okp = got == "None"          # `> > a`: an empty compound with a relation (deprecated form) is dropped
            elif has_rel and (not rl):
                okp = False
            elif has_rel and rl[0].result == "None":
                okp = got == "None"
            elif ck == "Any" and (not has_rel or rl[0].result == "Any"):
                okp = got == "Any"           # everything, related to nothing in particular: the whole selector matches everything
            else:
                okp = got == "Some"
                if okp:
                    new = _full(ex, None, p.ret.fields["0"])
                    c2 = _full(ex, None, new.fields.get(fld(F_SEL, "compound")))
                    r2 = _full(ex, None, new.fields.get(fld(F_SEL, "rel_of")))
                    want_c = cp[0].ret.fields["0"] if ck == "Some" else None
                    okc = (c2 is want_c) if ck == "Some" else (isinstance(c2, sym.Agg) and c2.variant == "DEFAULT")
                    if has_rel and rl[0].result == "Some":
                        okr = isinstance(r2, sym.Agg) and r2.variant == "Some"
                        if okr:
                            bx = _full(ex, None, r2.fields["0"])
                            tup = _full(ex, None, bx.fields["0"]) if isinstance(bx, sym.Agg) and bx.variant == "BOX" else None
                            okr = isinstance(tup, sym.Agg) and _full(ex, None, tup.fields["0"]) is relkind and _full(ex, None, tup.fields["1"]) is rl[0].ret.fields["0"]
                    else:
                        okr = isinstance(r2, sym.Agg) and r2.variant == "None"
                    okp = okc and okr
            if not okp:
                bad.append("compound=%s rel=%s -> %s" % (ck, (rl[0].result if rl else ("-" if not has_rel else "?")), got))
        rec.add("Selector::no_placeholder: a complex selector matches nothing when its own compound or the selector it is related to matches nothing; otherwise the filtered compound "
                "(the universal one for `everything`) is kept with the same combinator to the filtered related selector (no relation when that one matches everything); "
                "`everything` related to nothing is Opt::Any",
                _structural(not bad, "; ".join(bad[:6]) or "%d paths" % len(paths)))

    # ---- SelectorSet::no_placeholder -------------------------------------------------------------------------------------
    f_ss = E.find(name_re=r"^selectorset::<impl at .*>::no_placeholder$")
    ctx = E.ctx()
    sset = sym.Opaque("SelectorSet", "selector-list", ctx)
    models = [(r" as Deref>::deref$", lambda ex, st, c, a, d: a[0]), (r"^core::slice::<impl \[.*Selector\]>::iter$", lambda ex, st, c, a, d: a[0]),
              (r" as Iterator>::map::<", lambda ex, st, c, a, d: sym.Agg("Map", None, {"0": a[0], "1": a[1]})),
              (r"^opt::Opt::<.*Selector>::collect_pos::<", forker("collect_pos", ctx, "selectors")),
              (r"^opt::Opt::<Vec<.*Selector>>::map::<SelectorSet, ", lambda ex, st, c, a, d: (_opt(d, "Some", sym.Agg("SelectorSet", "WRAP", {"s": a[0].fields["0"]})) if a[0].variant == "Some" else _opt(d, a[0].variant)) if isinstance(a[0], sym.Agg) else None)] + BASE_MODELS
    ex = sym.Executor(ctx, models=models, feasibility=E.feasibility(ctx), max_paths=200)
    try:
        paths = [p for p in ex.run(f_ss, [sym.Ref("val", sset)]) if p.status == "return"]
    except sym.Unsupported as e:
        paths = []
        rec.notes.append("SelectorSet::no_placeholder: %s" % e)
    rec.paths += len(paths)
    if len(paths) != 3:
        _inconclusive(rec, "SelectorSet::no_placeholder has one path per collect_pos outcome")
    else:
        bad = []
        for p in paths:
            cps = [e for e in p.events if e.callee == "collect_pos"]
            m0 = cps[0].rargs[0] if cps else None
            src_ok = bool(cps) and isinstance(m0, sym.Agg) and _full(ex, None, m0.fields["0"]) is sset.children.get(fld(F_SET, "s")) and \
                isinstance(m0.fields["1"], sym.FnItem) and m0.fields["1"].name.endswith("Selector::no_placeholder")
            got = p.ret.variant if isinstance(p.ret, sym.Agg) else None
            okp = src_ok and got == cps[0].result
            if okp and got == "Some":
                w = _full(ex, None, p.ret.fields["0"])
                okp = isinstance(w, sym.Agg) and w.variant == "WRAP" and w.fields["s"] is cps[0].ret.fields["0"]
            if not okp:
                bad.append("%s -> %s" % (cps[0].result if cps else "-", got))
        rec.add("SelectorSet::no_placeholder: the list is the union (collect_pos) of its selectors, each filtered by Selector::no_placeholder, in order", _structural(not bad, "; ".join(bad)))

    # ---- css::Rule::write --------------------------------------------------------------------------------------------------
    f_rw = E.find(name_re=r"^css::rule::<impl at .*>::write$", contains=["no_placeholder"])
    ctx = E.ctx()
    rule = sym.Opaque("Rule", "rule", ctx)
    buf = sym.Opaque("CssBuf", "buf", ctx)

    def evt(name, ret=None):
        def m(ex, st, c, a, d):
            e = sym.Event(name, a, None, len(st.pc))
            e.rargs = [_full(ex, st, x) for x in a]
            st.events.append(e)
            return ret(ex, st, d) if ret else sym.Unit()
        return m

    models = [(r"^Vec::<BodyItem>::is_empty$", boolfork("body-empty", ctx)), (r"^SelectorSet::no_placeholder$", forker("filter", ctx, "selectors")),
              (r"CssBuf::do_indent_no_nl$", evt("indent")), (r"CssBuf::len$", evt("len", lambda ex, st, d: ctx.fresh_scalar(("bv", 64, False), "len"))),
              (r"^SelectorSet::write_to$", evt("write_selectors")), (r"CssBuf::add_str$", evt("add_str")), (r"CssBuf::start_block$", evt("start_block")),
              (r"CssBuf::end_block$", evt("end_block")), (r" as Deref>::deref$", lambda ex, st, c, a, d: a[0]), (r" as IntoIterator>::into_iter$", lambda ex, st, c, a, d: a[0]),
              (r" as Iterator>::next$", lambda ex, st, c, a, d: sym.Agg(d, "None", {}, 0))] + BASE_MODELS
    ex = sym.Executor(ctx, models=models, feasibility=E.feasibility(ctx), max_paths=400)
    try:
        paths = [p for p in ex.run(f_rw, [sym.Ref("val", rule), sym.Ref("val", buf)]) if p.status == "return"]
    except sym.Unsupported as e:
        paths = []
        rec.notes.append("Rule::write: %s" % e)
    rec.paths += len(paths)
    if len(paths) < 4:
        _inconclusive(rec, "Rule::write explores the filter outcomes")
    else:
        bad = []
        for p in paths:
            be = [e for e in p.events if e.callee == "body-empty"]
            fl = [e for e in p.events if e.callee == "filter"]
            out = [e for e in p.events if e.callee in ("indent", "write_selectors", "add_str", "start_block", "end_block")]
            if be and be[0].result == "true":
                okp = not out
            elif not fl or fl[0].rargs[0] is not rule.children.get(fld(F_RULE, "selectors")):
                okp = False
            elif fl[0].result == "None":
                okp = not out                      # every selector was a placeholder: the rule is not emitted at all
            elif fl[0].result == "Some":
                ws = [e for e in out if e.callee == "write_selectors"]
                okp = len(ws) == 1 and ws[0].rargs[0] is fl[0].ret.fields["0"] and any(e.callee == "start_block" for e in out)
            else:
                okp = not any(e.callee == "write_selectors" for e in out) and any(e.callee == "start_block" for e in out)
            if not okp:
                bad.append("filter=%s -> %s" % (fl[0].result if fl else "-", ",".join(e.callee for e in out)))
        rec.add("Rule::write: a rule whose selectors all match nothing writes nothing at all; otherwise the selectors written are the filtered ones (never the original list)",
                _structural(not bad, "; ".join(bad[:6]) or "%d paths" % len(paths)))
    return rec


# ------------------------------------------------------------------------------------------------ C40
def k_cli(E, tier):
    """C40: the command-line tool is a thin loop over the library: for every input, in order,
    FsContext::for_path(<input>), push_path(<--load-path>) if given, with_format(Format{style: <--style>, precision:
    <--precision>}), transform, and exactly the bytes returned go to stdout; the first failure ends the run with an
    error, which main reports as `Error: ...` on stderr with a failure exit code."""
    import engine as engine_mod
    import mir as mir_mod
    cli_dir = os.path.join(os.path.dirname(os.path.dirname(E.src)), "rsass-cli")
    cache = os.environ.get("VERIF_CACHE", "/var/tmp/kaj-rsass-verif")
    os.makedirs(os.path.join(cache, "mir"), exist_ok=True)
    path = os.path.join(cache, "mir", "cli.%d.mir" % os.getpid())
    try:
        mir_mod.dump_bin(cli_dir, os.path.join(cache, "mir", "target"), path, "rsass", "rsass-cli-")
    except RuntimeError as e:
        raise sym.Unsupported(str(e)[:300])
    C = engine_mod.Engine(path, os.path.join(cli_dir, "src"), E.log)
    try:
        os.unlink(path)
    except OSError:
        pass
    try:
        rec = _k_cli(C, tier)
    finally:
        C.close()
    # library side of "the input file's directory first, then --load-path": push_path appends to the search list
    f = E.find(name_re=r"^fsloader::<impl at .*>::push_path$")
    ctx = E.ctx()
    loader, pth = sym.Opaque("FsLoader", "loader", ctx), sym.Opaque("&Path", "path", ctx)
    seen = []

    def m_push(ex, st, c, a, d):
        seen.append([_full(ex, st, x) for x in a])
        return sym.Unit()

    conv = sym.Opaque("PathBuf", "path-as-pathbuf", ctx)
    models = [(r"^Vec::<PathBuf>::push$", m_push), (r"Into<PathBuf>>::into$|From<&Path>>::from$", lambda ex, st, c, a, d: conv if _full(ex, st, a[0]) is pth else None)] + BASE_MODELS
    ex = sym.Executor(ctx, models=models, feasibility=E.feasibility(ctx), max_paths=20)
    paths = [p for p in ex.run(f, [sym.Ref("val", loader), pth]) if p.status == "return"]
    rec.paths += len(paths)
    fields = _struct_fields(E, "input/fsloader.rs", "FsLoader")
    good = len(paths) == 1 and len(seen) == 1 and seen[0][0] is loader.children.get(str(fields.index("path"))) and seen[0][1] is conv
    rec.add("FsLoader::push_path appends the path given to the END of the loader's search list (the input file's directory, put there by for_path, stays first)", _structural(good))
    return rec


def _k_cli(C, tier):
    f_run = C.find(name_re=r"^<impl at rsass-cli/src/main\.rs:.*>::run$")
    rec = Rec("rsass-cli: Args::run, From<StyleArg> for Style, main", f_run, C)
    # Args fields in declaration order; fields behind a cargo feature are not compiled in (no default features)
    text = open(os.path.join(C.src, "main.rs")).read()
    m = re.search(r"struct Args\s*\{(.*?)\n\}", text, re.S)
    if not m:
        raise sym.Unsupported("struct Args not found")
    names = []
    pending_cfg = False
    for line in m.group(1).split("\n"):
        t = line.strip()
        if t.startswith("#[cfg(feature"):
            pending_cfg = True
        fm = re.match(r"(?:pub\s+)?([a-z_][a-z0-9_]*)\s*:", t)
        if fm:
            if not pending_cfg:
                names.append(fm.group(1))
            pending_cfg = False
    idx = {n: str(i) for i, n in enumerate(names)}
    for need in ("precision", "style", "load_path", "input"):
        if need not in idx:
            raise sym.Unsupported("Args has no field %s" % need)

    K = 2 if tier == "quick" else 4
    for with_path in (True, False):
        ctx = C.ctx()
        args = sym.Opaque("Args", "args", ctx)
        precision = ctx.fresh_scalar(("bv", 64, False), "precision")
        style = sym.Opaque("StyleArg", "style-arg", ctx)
        lp = sym.Opaque("PathBuf", "load-path", ctx)
        inputs = [sym.Opaque("PathBuf", "input%d" % i, ctx) for i in range(K)]
        me = sym.Agg("Args", None, {idx["precision"]: precision, idx["style"]: style,
                                    idx["load_path"]: (sym.Agg("Option", "Some", {"0": lp}, 1) if with_path else sym.Agg("Option", "None", {}, 0)),
                                    idx["input"]: sym.Opaque("Vec<PathBuf>", "inputs", ctx)})
        for i in range(len(names)):
            me.fields.setdefault(str(i), sym.Opaque("?", "args.%s" % names[i], ctx))
        thestyle = sym.Opaque("Style", "style", ctx)

        def ev(name, fork=None, ret=None):
            def mm(ex, st, c, a, d):
                ra = [_full(ex, st, x) for x in a]
                n = sum(1 for e in st.events if e.callee == "next-some")
                if fork:
                    out = []
                    for kind, val in fork(d, ra, n):
                        s2 = st.fork()
                        e = sym.Event(name, a, kind, len(st.pc))
                        e.rargs, e.ret, e.round = ra, val, n
                        s2.events.append(e)
                        out.append((s2, val))
                    return out
                e = sym.Event(name, a, None, len(st.pc))
                e.rargs, e.round = ra, n
                e.ret = ret(d, ra, n) if ret else sym.Opaque(d or "?", "%s#%d" % (name, n), ctx)
                st.events.append(e)
                return e.ret
            return mm

        def m_next(ex, st, c, a, d):
            n = sum(1 for e in st.events if e.callee == "next-some")
            outs = []
            end = st.fork()
            end.events.append(sym.Event("next-none", a, None, len(st.pc)))
            outs.append((end, sym.Agg(d, "None", {}, 0)))
            if n < K:
                s2 = st.fork()
                s2.events.append(sym.Event("next-some", a, None, len(st.pc)))
                outs.append((s2, sym.Agg(d, "Some", {"0": sym.Ref("val", inputs[n])}, 1)))
            return outs

        def fk_for_path(d, ra, n):
            return [("ok", sym.Agg(d, "Ok", {"0": sym.Agg("tuple", None, {"0": sym.Opaque("Context", "context%d" % n, ctx), "1": sym.Opaque("SourceFile", "source%d" % n, ctx)})}, 0)),
                    ("err", sym.Agg(d, "Err", {"0": sym.Opaque("LoadError", "load-error", ctx)}, 1))]

        def fk_transform(d, ra, n):
            return [("ok", sym.Agg(d, "Ok", {"0": sym.Opaque("Vec<u8>", "css%d" % n, ctx)}, 0)), ("err", sym.Agg(d, "Err", {"0": sym.Opaque("Error", "compile-error", ctx)}, 1))]

        def fk_write(d, ra, n):
            return [("ok", sym.Agg(d, "Ok", {"0": sym.Unit()}, 0)), ("err", sym.Agg(d, "Err", {"0": sym.Opaque("io::Error", "write-error", ctx)}, 1))]

        models = [(r"^<StyleArg as Into<rsass::output::Style>>::into$", lambda ex, st, c, a, d: thestyle if _full(ex, st, a[0]) is style else None),
                  (r" as IntoIterator>::into_iter$", lambda ex, st, c, a, d: a[0]), (r"^<std::slice::Iter<'_, PathBuf> as Iterator>::next$", m_next),
                  (r" as Deref>::deref$", lambda ex, st, c, a, d: a[0]), (r" as AsRef<Path>>::as_ref$", lambda ex, st, c, a, d: a[0]),
                  (r"::for_path$", ev("for_path", fork=fk_for_path)), (r"::push_path$", ev("push_path", ret=lambda d, ra, n: sym.Unit())),
                  (r"::with_format$", ev("with_format")), (r"::transform$", ev("transform", fork=fk_transform)),
                  (r"^stdout$|::stdout$", ev("stdout")), (r" as std::io::Write>::write_all$", ev("write_all", fork=fk_write))] + BASE_MODELS
        ex = sym.Executor(ctx, models=models, feasibility=C.feasibility(ctx), max_paths=2000)
        ex.unroll = K + 2
        paths = [p for p in ex.run(f_run, [me]) if p.status == "return"]
        rec.paths += len(paths)
        if len(paths) < 5:
            _inconclusive(rec, "Args::run (%s --load-path) explores its outcomes" % ("with" if with_path else "without"))
            continue
        bad = []
        for p in paths:
            evs = [e for e in p.events if e.callee in ("for_path", "push_path", "with_format", "transform", "stdout", "write_all")]
            rounds = sum(1 for e in p.events if e.callee == "next-some")
            failed = [e for e in evs if e.result == "err"]
            okp = True
            why = ""
            for r in range(rounds):
                mine = [e for e in evs if e.round == r + 1]
                seq = [e.callee for e in mine]
                want = ["for_path"] + (["push_path"] if with_path else []) + ["with_format", "transform", "stdout", "write_all"]
                if failed and failed[0] in mine:
                    want = want[:seq.index(failed[0].callee) + 1] if failed[0].callee in seq else want
                if seq != want:
                    okp, why = False, "input %d: %s" % (r, ",".join(seq))
                    break
                by = {e.callee: e for e in mine}
                fp = by["for_path"]
                if fp.rargs[0] is not inputs[r]:
                    okp, why = False, "input %d: for_path of another path" % r
                    break
                if fp.result == "err":
                    continue
                tup = fp.ret.fields["0"]
                c0, s0 = tup.fields["0"], tup.fields["1"]
                if with_path and not (by["push_path"].rargs[0] is c0 and by["push_path"].rargs[1] is lp):
                    okp, why = False, "input %d: push_path(<its context>, <--load-path>)" % r
                    break
                wf = by["with_format"]
                fmt = wf.rargs[1]
                fmt_ok = isinstance(fmt, sym.Agg) and _full(ex, None, fmt.fields.get("style", fmt.fields.get("0"))) is thestyle and \
                    getattr(_full(ex, None, fmt.fields.get("precision", fmt.fields.get("1"))), "term", None) == precision.term
                if not (wf.rargs[0] is c0 and fmt_ok):
                    okp, why = False, "input %d: with_format(<its context>, Format{<--style>, <--precision>})" % r
                    break
                tr = by.get("transform")
                if tr is None or not (tr.rargs[0] is wf.ret and tr.rargs[1] is s0):
                    okp, why = False, "input %d: transform(<that context>, <its source>)" % r
                    break
                if tr.result == "err":
                    continue
                wa = by.get("write_all")
                if wa is None or not (wa.rargs[0] is by["stdout"].ret and wa.rargs[1] is tr.ret.fields["0"]):
                    okp, why = False, "input %d: stdout gets exactly the bytes transform returned" % r
                    break
            if okp:
                is_err = isinstance(p.ret, sym.Agg) and p.ret.variant == "Err"
                if failed:
                    # the failing step is the last library / output step of the run
                    okp = is_err and evs[-1] is failed[0]
                    why = "a failure does not end the run with an error"
                else:
                    okp = (not is_err) and any(e.callee == "next-none" for e in p.events)
                    why = "no failure but no Ok"
            if not okp:
                bad.append(why)
        rec.add("Args::run %s --load-path, up to %d inputs, every outcome of opening, compiling and writing: each input in order goes through for_path, %swith_format(Format{--style, --precision}), "
                "transform, and exactly the bytes returned are written to stdout; the first failure ends the run with Err; otherwise Ok" % ("with" if with_path else "without", K, "push_path(--load-path), " if with_path else ""),
                _structural(not bad, "; ".join(sorted(set(bad))[:5]) or "%d paths" % len(paths)))

    # ---- From<StyleArg> for Style ---------------------------------------------------------------------------------------
    f_from = C.find(name_re=r"^<impl at rsass-cli/src/main\.rs:.*>::from$")
    sa = C.load_enum("main.rs", "StyleArg", "StyleArg")
    lib_src = os.path.join(os.path.dirname(os.path.dirname(C.src)), "rsass", "src")
    styles = None
    for rel in ("output/format.rs", "output/style.rs", "output/mod.rs"):
        if os.path.exists(os.path.join(lib_src, rel)) and re.search(r"enum Style\b", open(os.path.join(lib_src, rel)).read()):
            saved, C.src = C.src, lib_src
            try:
                styles = C.load_enum(rel, "Style", "rsass::output::Style")
            finally:
                C.src = saved
            break
    if styles is None:
        _inconclusive(rec, "the library's Style enum is found")
    else:
        bad = []
        for v in sa:
            ctx = C.ctx()
            a = sym.Opaque("StyleArg", "style-arg", ctx)
            ctx.assumptions.append("(= %s %s)" % (a.discriminant().term, bvlit(sa.index(v), 64)))
            ex = sym.Executor(ctx, models=BASE_MODELS, feasibility=C.feasibility(ctx), max_paths=20)
            ps = [p for p in ex.run(f_from, [a]) if p.status == "return"]
            rec.paths += len(ps)
            got = ps[0].ret.variant if len(ps) == 1 and isinstance(ps[0].ret, sym.Agg) else None
            if got != v or v not in styles:
                bad.append("%s -> %s" % (v, got))
        rec.add("From<StyleArg> for Style: every --style value is the library style of the same name (%s)" % ", ".join(sa), _structural(not bad, "; ".join(bad)))

    # ---- main -----------------------------------------------------------------------------------------------------------------
    f_main = C.find(name="main")
    ctx = C.ctx()
    outs = []

    def m_run(ex, st, c, a, d):
        res = []
        for kind, val in (("ok", sym.Agg(d, "Ok", {"0": sym.Unit()}, 0)), ("err", sym.Agg(d, "Err", {"0": sym.Opaque("Error", "the-error", ctx)}, 1))):
            s2 = st.fork()
            s2.events.append(sym.Event("run", a, kind, len(st.pc)))
            res.append((s2, val))
        return res

    def m_eprint(ex, st, c, a, d):
        e = sym.Event("eprint", a, None, len(st.pc))
        e.rargs = [_full(ex, st, x) for x in a]
        st.events.append(e)
        return sym.Unit()

    models = [(r"::run$", m_run), (r"^std::io::_eprint$", m_eprint), (r" as Parser>::parse$|::parse$", lambda ex, st, c, a, d: sym.Opaque("Args", "parsed-args", ctx))] + BASE_MODELS
    ex = sym.Executor(ctx, models=models, feasibility=C.feasibility(ctx), max_paths=50)
    try:
        paths = [p for p in ex.run(f_main, []) if p.status == "return"]
    except sym.Unsupported as e:
        paths = []
        rec.notes.append("main: %s" % e)
    rec.paths += len(paths)
    src_main = f_main.source()
    if len(paths) != 2:
        _inconclusive(rec, "main has one path per outcome of run")
    else:
        bad = []
        for p in paths:
            kind = [e for e in p.events if e.callee == "run"][0].result
            printed = [e for e in p.events if e.callee == "eprint"]
            r = p.ret
            tag = getattr(r, "name", None) or getattr(r, "variant", None) or repr(r)
            if kind == "ok":
                okp = "SUCCESS" in str(tag) and not printed
            else:
                okp = "FAILURE" in str(tag) and len(printed) == 1
            if not okp:
                bad.append("run=%s -> exit %s, %d message(s)" % (kind, tag, len(printed)))
        rec.add("main: Ok -> ExitCode::SUCCESS and nothing on stderr; Err -> one message on stderr and ExitCode::FAILURE", _structural(not bad, "; ".join(bad)))
        tm = re.search(r'const b"((?:[^"\\]|\\.)*)";', src_main)
        tpl = None
        if tm:
            raw = bytes(tm.group(1), "latin-1").decode("unicode_escape").encode("latin-1")
            tpl, i = "", 0
            while i < len(raw) and raw[i] != 0:          # n < 0x80: n literal bytes follow; 0xC0: the next argument
                if raw[i] == 0xC0:
                    tpl += "{}"
                    i += 1
                elif raw[i] < 0x80:
                    tpl += raw[i + 1:i + 1 + raw[i]].decode("utf-8", "replace")
                    i += 1 + raw[i]
                else:
                    tpl = None
                    break
        if tpl is None:
            _inconclusive(rec, "main: the format template of the error message is readable")
        else:
            rec.add("main: the message written to stderr is `Error: ` followed by the error and a newline", _structural(tpl == "Error: {}\n" and "new_display::<rsass::Error>" in src_main, "template %r" % tpl))
    return rec


# ------------------------------------------------------------------------------------------------ C07
def _rust_unescape(t):
    """The text of a string literal as printed in MIR (`\\n`, `\\"`, `\\u{feff}`) -> the string it denotes."""
    out, i = "", 0
    while i < len(t):
        c = t[i]
        if c != "\\":
            out += c
            i += 1
            continue
        n = t[i + 1] if i + 1 < len(t) else ""
        if n == "u" and t[i + 2:i + 3] == "{":
            j = t.index("}", i)
            out += chr(int(t[i + 3:j], 16))
            i = j + 1
        elif n == "x":
            out += chr(int(t[i + 2:i + 4], 16))
            i += 4
        else:
            out += {"n": "\n", "t": "\t", "r": "\r", "0": "\0", "\\": "\\", '"': '"', "'": "'"}.get(n, n)
            i += 2
    return out


def _bvint(term):
    m = re.match(r"^#x([0-9a-fA-F]+)$", term or "")
    if m:
        return int(m.group(1), 16)
    m = re.match(r"^\(_ bv(\d+) \d+\)$", term or "")
    return int(m.group(1)) if m else None


def k_output_frame(E, tier):
    """C07 (frame scope): the tail of CssData::into_buffer, over an ARBITRARY written buffer (symbolic length, symbolic
    trailing bytes, symbolic is_ascii): the result is empty or ends with exactly one newline; it is the buffer itself when
    that is pure ASCII and otherwise the buffer behind `@charset "UTF-8";\\n` (expanded) or a byte-order mark (compressed);
    only trailing newlines and, in compressed style, one `;` are removed."""
    f = E.find(name_re=r"^cssdata::<impl at .*>::into_buffer$")
    rec = Rec("CssData::into_buffer (framing tail)", f, E)
    T = 10                      # trailing bytes tracked
    MAXNL = 4 if tier == "quick" else 7
    ctx = E.ctx()
    L = ctx.fresh_scalar(("bv", 64, False), "written_len")
    ctx.assumptions.append("(bvule %s #x7fffffffffffffff)" % L.term)
    tail0 = [ctx.fresh_scalar(("bv", 8, False), "written_last%d" % i) for i in range(T)]
    A = ctx.fresh_scalar("bool", "written_is_ascii")
    Cflag = ctx.fresh_scalar("bool", "compressed")
    written = sym.Opaque("Vec<u8>", "written-buffer", ctx)
    written.vkey = "written"
    marks = []

    def bv8(n):
        return "#x%02x" % n

    def bv64(n):
        return "#x%016x" % n

    def get(st, v):
        v = v if not isinstance(v, sym.Ref) else None
        return st.cells.get("vec:" + v.vkey) if v is not None and hasattr(v, "vkey") else None

    def vec_of(ex, st, x):
        x = _full(ex, st, x)
        if not hasattr(x, "vkey"):
            raise sym.Unsupported("a Vec<u8> the kernel does not track")
        return x

    def m_take(ex, st, c, a, d):
        st.cells["vec:written"] = (L.term, tuple(t.term for t in tail0))
        return written

    def m_with_capacity(ex, st, c, a, d):
        v = sym.Opaque("Vec<u8>", "framed-buffer", ctx)
        v.vkey = "framed"
        st.cells["vec:framed"] = (bv64(0), tuple(bv8(0) for _ in range(T)))
        return v

    def m_extend_from_slice(ex, st, c, a, d):
        v = vec_of(ex, st, a[0])
        s = _full(ex, st, a[1])
        if not isinstance(s, sym.ConstStr):
            raise sym.Unsupported("extend_from_slice of a non-literal")
        ln, _tl = st.cells["vec:" + v.vkey]
        if ln != bv64(0):
            raise sym.Unsupported("extend_from_slice on a non-empty buffer")
        text = _rust_unescape(s.s)
        b = text.encode("utf-8")
        marks.append(text)
        st.events.append(sym.Event("mark", a, text, len(st.pc)))
        st.cells["vec:" + v.vkey] = (bv64(len(b)), tuple(bv8(b[len(b) - 1 - i]) if i < len(b) else bv8(0) for i in range(T)), b)
        return sym.Unit()

    def m_extend(ex, st, c, a, d):
        v, w = vec_of(ex, st, a[0]), vec_of(ex, st, a[1])
        cell = st.cells["vec:" + v.vkey]
        if len(cell) != 3:
            raise sym.Unsupported("extend of a buffer that is not a literal prefix")
        b = cell[2]
        wl, wt = st.cells["vec:" + w.vkey][:2]
        newlen = "(bvadd %s %s)" % (bv64(len(b)), wl)
        tl = []
        for i in range(T):
            # byte i from the end: from the written buffer if it has more than i bytes, else from the prefix
            t = bv8(0)
            for j in range(i, -1, -1):          # written buffer has exactly j bytes, j <= i: prefix byte (i - j) from its end
                k = i - j
                pb = bv8(b[len(b) - 1 - k]) if k < len(b) else bv8(0)
                t = "(ite (= %s %s) %s %s)" % (wl, bv64(j), pb, t)
            tl.append("(ite (bvugt %s %s) %s %s)" % (wl, bv64(i), wt[i], t))
        st.cells["vec:" + v.vkey] = (newlen, tuple(tl))
        st.events.append(sym.Event("prefixed", a, None, len(st.pc)))
        return sym.Unit()

    def m_last(ex, st, c, a, d):
        v = vec_of(ex, st, a[0])
        ln, tl = st.cells["vec:" + v.vkey][:2]
        return sym.Agg("LastView", None, {"len": ln, "byte": tl[0]})

    def m_opt_eq(ex, st, c, a, d):
        x, y = _full(ex, st, a[0]), _full(ex, st, a[1])
        if not (isinstance(x, sym.Agg) and "byte" in x.fields):
            return None
        if not (isinstance(y, sym.Agg) and y.variant == "Some"):
            raise sym.Unsupported("comparison of last() with something that is not Some(&byte)")
        cb = _full(ex, st, y.fields["0"])
        st.events.append(sym.Event("looked-at-last", a, _bvint(cb.term), len(st.pc)))
        return sym.mk_bool("(and (not (= %s %s)) (= %s %s))" % (x.fields["len"], bv64(0), x.fields["byte"], cb.term))

    def m_pop(ex, st, c, a, d):
        v = vec_of(ex, st, a[0])
        ln, tl = st.cells["vec:" + v.vkey][:2]
        st.cells["vec:" + v.vkey] = ("(bvsub %s %s)" % (ln, bv64(1)), tuple(tl[1:]) + (bv8(0),))
        seen = [e for e in st.events if e.callee == "looked-at-last"]
        st.events.append(sym.Event("pop", a, seen[-1].result if seen else None, len(st.pc)))
        return sym.Opaque("Option<u8>", "popped", ctx)

    def m_push(ex, st, c, a, d):
        v = vec_of(ex, st, a[0])
        b = _full(ex, st, a[1])
        ln, tl = st.cells["vec:" + v.vkey][:2]
        st.cells["vec:" + v.vkey] = ("(bvadd %s %s)" % (ln, bv64(1)), (b.term,) + tuple(tl[:-1]))
        st.events.append(sym.Event("push", a, _bvint(b.term), len(st.pc)))
        return sym.Unit()

    def m_is_empty(ex, st, c, a, d):
        v = vec_of(ex, st, a[0])
        return sym.mk_bool("(= %s %s)" % (st.cells["vec:" + v.vkey][0], bv64(0)))

    def m_len(ex, st, c, a, d):
        v = vec_of(ex, st, a[0])
        return sym.Scalar(("bv", 64, False), st.cells["vec:" + v.vkey][0])

    def m_is_ascii(ex, st, c, a, d):
        # only a scan of the written bytes themselves tells whether the output is ASCII
        x = _full(ex, st, a[0])
        return A if x is written else None

    def m_strlen(ex, st, c, a, d):
        s = _full(ex, st, a[0])
        return sym.Scalar(("bv", 64, False), bv64(len(_rust_unescape(s.s).encode("utf-8")))) if isinstance(s, sym.ConstStr) else None

    models = [(r"^CssBuf::new$", lambda ex, st, c, a, d: sym.Opaque("CssBuf", "cssbuf", ctx)), (r" as IntoIterator>::into_iter$", lambda ex, st, c, a, d: a[0]),
              (r" as Iterator>::next$", lambda ex, st, c, a, d: sym.Agg(d, "None", {}, 0)), (r"^CssBuf::take$", m_take),
              (r"Format::is_compressed$", lambda ex, st, c, a, d: Cflag), (r"^<Vec<u8> as Deref>::deref$", lambda ex, st, c, a, d: a[0]),
              (r"^core::slice::ascii::<impl \[u8\]>::is_ascii$", m_is_ascii), (r"^core::str::<impl str>::len$", m_strlen), (r"^Vec::<u8>::len$", m_len),
              (r"^Vec::<u8>::with_capacity$", m_with_capacity), (r"^core::str::<impl str>::as_bytes$", lambda ex, st, c, a, d: a[0]),
              (r"^Vec::<u8>::extend_from_slice$", m_extend_from_slice), (r"^<Vec<u8> as Extend<u8>>::extend::<Vec<u8>>$", m_extend),
              (r"^core::slice::<impl \[u8\]>::last$", m_last), (r"^<Option<&u8> as PartialEq>::eq$", m_opt_eq), (r"^Vec::<u8>::pop$", m_pop),
              (r"^Vec::<u8>::push$", m_push), (r"^Vec::<u8>::is_empty$", m_is_empty)] + BASE_MODELS
    ex = sym.Executor(ctx, models=models, feasibility=E.feasibility(ctx), max_paths=4000)
    ex.unroll = MAXNL + 2
    allp = ex.run(f, [sym.Opaque("CssData", "data", ctx), sym.Opaque("Format", "format", ctx)])
    paths = [p for p in allp if p.status == "return"]
    cut = [p for p in allp if p.status == "unwind-bound"]
    rec.paths = len(paths)
    rec.notes.append("%d paths end at the unwinding bound (more than %d trailing newlines): outside the bound" % (len(cut), MAXNL))
    if len(paths) < 8:
        _inconclusive(rec, "into_buffer's tail explores its trimming outcomes")
        return rec
    NL, SEMI = bv8(10), bv8(59)
    worst = {"frame": None, "marker": None, "trim": None}
    t_frame = 0.0
    n_frame = 0
    for p in paths:
        if not (isinstance(p.ret, sym.Agg) and p.ret.variant == "Ok"):
            continue
        v = _full(ex, None, p.ret.fields["0"])
        key = getattr(v, "vkey", None)
        if key is None:
            worst["frame"] = worst["frame"] or {"verdict": "inconclusive", "per_solver": {}, "time_s": 0}
            continue
        ln, tl = p.cells["vec:" + key][:2] if ("vec:" + key) in p.cells else (None, None)
        if ln is None:
            worst["frame"] = {"verdict": "inconclusive", "per_solver": {"structural": "final buffer state not available"}, "time_s": 0}
            break
        # (1) empty, or exactly one newline at the end
        prop = "(or (= %s %s) (and (= %s %s) (or (= %s %s) (not (= %s %s)))))" % (ln, bv64(0), tl[0], NL, ln, bv64(1), tl[1], NL)
        r = E.decide(ctx, p.pc + ["(not %s)" % prop], model_names=[L.term, Cflag.term, A.term] + [t.term for t in tail0[:MAXNL + 3]])
        t_frame += r["time_s"]
        n_frame += 1
        if r["verdict"] != "holds" and (worst["frame"] is None or worst["frame"]["verdict"] == "holds"):
            worst["frame"] = r
        elif worst["frame"] is None:
            worst["frame"] = r
        # (2) marker
        mk = [e.result for e in p.events if e.callee == "mark"]
        if key == "written":
            okm = E.decide(ctx, p.pc + ["(not %s)" % A.term])["verdict"] == "holds" and not mk         # only on paths where the buffer is ASCII
        else:
            is_c = E.decide(ctx, p.pc + ["(not %s)" % Cflag.term])["verdict"] == "holds"
            is_e = E.decide(ctx, p.pc + [Cflag.term])["verdict"] == "holds"
            nonascii = E.decide(ctx, p.pc + [A.term])["verdict"] == "holds"
            okm = nonascii and len(mk) == 1 and ((is_c and mk[0] == "﻿") or (is_e and mk[0] == '@charset "UTF-8";\n')) and any(e.callee == "prefixed" for e in p.events)
        if not okm:
            worst["marker"] = {"verdict": "violated", "per_solver": {"structural": "result=%s marks=%r" % (key, mk)}, "time_s": 0}
        # (3) only trailing newlines and (compressed) one semicolon are removed; one newline is appended
        pops = [e.result for e in p.events if e.callee == "pop"]
        pushes = [e.result for e in p.events if e.callee == "push"]
        semis = [x for x in pops if x == 59]
        okt = all(x in (10, 59) for x in pops) and len(semis) <= 1 and len(pushes) <= 1 and all(x == 10 for x in pushes)
        if semis:
            okt = okt and E.decide(ctx, p.pc + ["(not %s)" % Cflag.term])["verdict"] == "holds"
        if not okt:
            worst["trim"] = {"verdict": "violated", "per_solver": {"structural": "pops %r pushes %r" % (pops, pushes)}, "time_s": 0}
    fr = worst["frame"] or {"verdict": "inconclusive", "per_solver": {}, "time_s": 0}
    fr = dict(fr)
    fr["time_s"] = round(t_frame, 3)
    rec.add("for every written buffer (any length, any content, up to %d trailing newlines): the result is empty or ends with exactly one newline (%d paths, each decided by both solvers)" % (MAXNL, n_frame),
            fr)
    rec.add("the result is the written buffer itself exactly when that is pure ASCII; otherwise it is the buffer behind `@charset \"UTF-8\";\\n` (expanded) or a byte-order mark (compressed)",
            worst["marker"] or _structural(True))
    rec.add("only trailing newlines and, in compressed style only, one `;` are removed from the end, and at most one newline is appended", worst["trim"] or _structural(True))
    return rec


def k_rgba_name(E, tier):
    """C33 (colour names): a name printed for a colour denotes that colour.  Rgba::name looks the key 0x00RRGGBB up in
    LOOKUP.v2n; Rgba::from_name (what a reader of the CSS text does with the name, and what rsass itself does when the
    name is parsed back) looks the name up in LOOKUP.n2v and unpacks the same three bytes; Lookup::from_slice puts every
    table row (n, v) into both maps (n2v[n] = v, v2n[v] = first n); the table's names are pairwise distinct lower-case
    ASCII words.  Together: name(c) = Some(n) implies from_name(n) has the bytes of c."""
    f_name = E.find(name_re=r"^rgba::<impl at .*>::name$", contains=["Rgba::try_bytes"])
    rec = Rec("Rgba::name / Rgba::from_name / Lookup::from_slice and the LOOKUP table", f_name, E)

    def need(**kw):
        try:
            return E.find(**kw)
        except sym.Unsupported as e:
            rec.notes.append(str(e)[:200])
            return None

    f_key = need(name_re=r"^rgba::<impl at .*>::name::\{closure#\d+\}$", contains=["from_be_bytes"])
    f_get = need(name_re=r"^rgba::<impl at .*>::name::\{closure#\d+\}$", contains=["BTreeMap::<u32, &str>::get"])
    f_from = need(name_re=r"^rgba::<impl at .*>::from_name$")
    f_unpack = need(name_re=r"^rgba::<impl at .*>::from_name::\{closure#\d+\}$", contains=["Rgba::new"])
    f_slice = need(name_re=r"^rgba::<impl at .*>::from_slice$")
    f_init = need(name_re=r"^LOOKUP::\{closure#0\}$")
    if not all((f_key, f_get, f_from, f_unpack, f_slice, f_init)):
        _inconclusive(rec, "the six functions of the name table are found")
        return rec

    def m_from_be(ex, st, c, a, d):
        arr = _full(ex, st, a[0])
        bs = [arr.fields.get(str(k)) for k in range(4)] if isinstance(arr, sym.Agg) else []
        if len(bs) != 4 or not all(isinstance(x, sym.Scalar) for x in bs):
            raise sym.Unsupported("from_be_bytes of an unrecognised array")
        return sym.Scalar(("bv", 32, False), "(concat %s %s %s %s)" % tuple(x.term for x in bs))

    def m_to_be(ex, st, c, a, d):
        v = _full(ex, st, a[0])
        if not isinstance(v, sym.Scalar):
            raise sym.Unsupported("to_be_bytes of a non-scalar")
        return sym.Agg("[u8; 4]", None, {str(k): sym.Scalar(("bv", 8, False), "((_ extract %d %d) %s)" % (31 - 8 * k, 24 - 8 * k, v.term)) for k in range(4)})

    # ---- 1. name(): try_bytes -> key closure -> lookup closure, nothing else -----------------------------------------
    ctx = E.ctx()
    r, g, b = (ctx.fresh_scalar(("bv", 8, False), n) for n in ("red", "green", "blue"))
    me = sym.Opaque("Rgba", "self", ctx)
    log = []

    def m_try_bytes(ex, st, c, a, d):
        log.append(("try_bytes", _full(ex, st, a[0])))
        return sym.Agg(d, "Some", {"0": sym.Agg("tuple", None, {"0": r, "1": g, "2": b})}, 1)

    def m_map(ex, st, c, a, d):
        log.append(("map", c, a[0]))
        return sym.Opaque(d or "Option<u32>", "mapped", ctx)

    def m_and_then(ex, st, c, a, d):
        log.append(("and_then", c, a[0]))
        return sym.Opaque(d or "Option<&str>", "looked-up", ctx)

    models = [(r"^Rgba::try_bytes$", m_try_bytes), (r"^Option::<\(u8, u8, u8\)>::map::<u32,", m_map), (r"^Option::<u32>::and_then::<&str,", m_and_then)] + BASE_MODELS
    ex = sym.Executor(ctx, models=models, feasibility=E.feasibility(ctx), max_paths=20)
    paths = [p for p in ex.run(f_name, [sym.Ref("val", me)]) if p.status == "return"]
    rec.paths += len(paths)
    span = lambda f: re.search(r"rgba\.rs:(\d+:\d+: \d+:\d+)", f.name if "closure@" in f.name else f.source().split("\n", 1)[0])  # noqa: E731

    def closure_span(f):
        m = re.search(r"_1: &?\{closure@[^}]*?rgba\.rs:(\d+:\d+: \d+:\d+)\}", f.source().split("\n", 1)[0])
        return m.group(1) if m else None

    ok = (len(paths) == 1 and [x[0] for x in log] == ["try_bytes", "map", "and_then"] and log[0][1] is me
          and closure_span(f_key) and closure_span(f_key) in log[1][1] and closure_span(f_get) and closure_span(f_get) in log[2][1]
          and isinstance(log[2][2], sym.Opaque) and log[2][2].name == "mapped" and paths[0].ret is not None and getattr(paths[0].ret, "name", None) == "looked-up")
    rec.add("Rgba::name: the byte triple of try_bytes(self) is mapped by the key closure and the key is looked up by the lookup closure; the result is returned unchanged", _structural(bool(ok)))

    # ---- 2. key closure and unpack closure: round trip over all 2^24 triples ------------------------------------------
    ctx = E.ctx()
    r, g, b = (ctx.fresh_scalar(("bv", 8, False), n) for n in ("red", "green", "blue"))
    ex = sym.Executor(ctx, models=[(r"^core::num::<impl u32>::from_be_bytes$", m_from_be)] + BASE_MODELS, feasibility=E.feasibility(ctx), max_paths=20)
    paths = [p for p in ex.run(f_key, [sym.Opaque("closure", "self", ctx), sym.Agg("tuple", None, {"0": r, "1": g, "2": b})]) if p.status == "return"]
    rec.paths += len(paths)
    key = paths[0].ret if len(paths) == 1 and isinstance(paths[0].ret, sym.Scalar) else None
    if key is None:
        _inconclusive(rec, "the key closure is one straight-line path returning a u32")
    else:
        want = "(= %s (concat %s %s %s %s))" % (key.term, bvlit(0, 8), r.term, g.term, b.term)
        rec.add("key closure: the key of (r, g, b) is 0x00RRGGBB", E.decide(ctx, paths[0].pc + ["(not %s)" % want], model_names=[r.term, g.term, b.term]), {"lift": "namedcolor"})
        news = []

        def m_new(ex, st, c, a, d):
            news.append([_full(ex, st, x) for x in a])
            return sym.Opaque(d or "Rgba", "rgba", ctx)

        def m_into(ex, st, c, a, d):
            return sym.cast(a[0], "u8", "f64", "IntToFloat")

        ex = sym.Executor(ctx, models=[(r"^core::num::<impl u32>::to_be_bytes$", m_to_be), (r"^<u8 as std::convert::Into<f64>>::into$", m_into), (r"^Rgba::new$", m_new)] + BASE_MODELS,
                          feasibility=E.feasibility(ctx), max_paths=20)
        keybox = sym.Scalar(("bv", 32, False), key.term)
        p2 = [p for p in ex.run(f_unpack, [sym.Opaque("closure", "self", ctx), sym.Ref("val", keybox)]) if p.status == "return"]
        rec.paths += len(p2)
        fmts = E.load_enum("value/colors/rgba.rs", "RgbFormat")
        if len(p2) != 1 or len(news) != 1 or len(news[0]) != 5 or not all(isinstance(x, sym.Scalar) for x in news[0][:4]):
            _inconclusive(rec, "the unpack closure of from_name is one path with one Rgba::new call")
        else:
            a = news[0]
            f64 = lambda t: "((_ to_fp_unsigned 11 53) RNE %s)" % t  # noqa: E731
            want = "(and (= %s %s) (= %s %s) (= %s %s) (= %s ((_ to_fp 11 53) RNE 1.0)))" % (a[0].term, f64(r.term), a[1].term, f64(g.term), a[2].term, f64(b.term), a[3].term)
            rec.add("round trip: unpacking the key of (r, g, b) builds Rgba::new(r, g, b, 1.0, _) — red, green, blue in this order, opaque — for all 2^24 triples",
                    E.decide(ctx, paths[0].pc + p2[0].pc + ["(not %s)" % want], model_names=[r.term, g.term, b.term]), {"lift": "namedcolor"})
            src = a[4]
            okf = isinstance(src, sym.Agg) and src.variant == "Name" or (isinstance(src, sym.Scalar) and src.term == bvlit(fmts.index("Name"), 64))
            rec.add("the colour built from a name has source format Name", _structural(bool(okf), repr(src)[:60]))

    # ---- 3. the two lookups use v2n with the key and n2v with the lower-cased name -----------------------------------
    for what, f, field, mapty in (("name's lookup closure", f_get, "1", "BTreeMap::<u32, &str>::get"), ("from_name", f_from, "0", "BTreeMap::<&str, u32>::get")):
        ctx = E.ctx()
        gets = []
        lookup = sym.Opaque("Lookup", "LOOKUP", ctx)
        lowered = sym.Opaque("String", "lower-cased-name", ctx)

        def m_get(ex, st, c, a, d, gets=gets, ctx=ctx):
            gets.append((_full(ex, st, a[0]), _full(ex, st, a[1]), list(st.pc)))
            some, none = st.fork(), st.fork()
            return [(some, sym.Agg(d, "Some", {"0": sym.Ref("val", sym.Opaque("entry", "found", ctx))}, 1)), (none, sym.Agg(d, "None", {}, 0))]

        models = [(r"^%s::<" % re.escape(mapty), m_get), (r"^<LazyLock<Lookup> as Deref>::deref$", lambda ex, st, c, a, d, lookup=lookup: sym.Ref("val", lookup)),
                  (r"^(std|core|alloc)::str::<impl str>::to_lowercase$", lambda ex, st, c, a, d, lowered=lowered: lowered),
                  (r"^<String as Deref>::deref$", lambda ex, st, c, a, d: a[0])] + BASE_MODELS
        ex = sym.Executor(ctx, models=models, feasibility=E.feasibility(ctx), max_paths=60)
        arg = sym.Scalar(("bv", 32, False), ctx.fresh_scalar(("bv", 32, False), "key").term) if f is f_get else sym.Opaque("&str", "name", ctx)
        try:
            ps = [p for p in ex.run(f, [sym.Opaque("closure", "self", ctx), arg] if f is f_get else [arg]) if p.status == "return"]
        except sym.Unsupported as e:
            rec.notes.append("%s: %s" % (what, str(e)[:160]))
            ps = []
        rec.paths += len(ps)
        good = bool(ps) and bool(gets)
        for m, k, _pc in gets:
            good = good and m is not None and m is lookup.children.get(field)
            if f is f_get:
                good = good and isinstance(k, sym.Scalar) and k.term == arg.term
            else:
                good = good and (k is lowered or getattr(k, "name", None) == "lower-cased-name")
        rec.add("%s reads LOOKUP.%s (%s) with %s" % (what, {"1": "v2n", "0": "n2v"}[field], mapty.split("::get")[0], "the key it was given" if f is f_get else "the lower-cased name"), _structural(good, "%d lookups" % len(gets)))
    
    # ---- 4. Lookup::from_slice: every row (n, v) goes into both maps ---------------------------------------------------
    ctx = E.ctx()
    n2v, v2n = sym.Opaque("BTreeMap<&str, u32>", "n2v", ctx), sym.Opaque("BTreeMap<u32, &str>", "v2n", ctx)
    K = 2 if tier == "quick" else 3
    rows = [(sym.Opaque("&str", "row-name-%d" % i, ctx), ctx.fresh_scalar(("bv", 32, False), "row_value_%d" % i)) for i in range(K)]

    def m_next(ex, st, c, a, d):
        i = sum(1 for e in st.events if e.callee == "row")
        none = st.fork()
        out = [(none, sym.Agg(d, "None", {}, 0))]
        if i < K:
            some = st.fork()
            some.events.append(sym.Event("row", [], i, len(st.pc)))
            out.append((some, sym.Agg(d, "Some", {"0": sym.Ref("val", sym.Agg("tuple", None, {"0": rows[i][0], "1": rows[i][1]}))}, 1)))
        return out

    def ev(name):
        def m(ex, st, c, a, d):
            e = sym.Event(name, a, None, len(st.pc))
            e.rargs = [_full(ex, st, x) for x in a]
            e.ret = sym.Opaque(d or "?", name + "-result", ctx)
            st.events.append(e)
            return e.ret
        return m

    models = [(r"^BTreeMap::<&str, u32>::new$", lambda ex, st, c, a, d: n2v), (r"^BTreeMap::<u32, &str>::new$", lambda ex, st, c, a, d: v2n),
              (r"^<&\[\(&str, u32\)\] as IntoIterator>::into_iter$", lambda ex, st, c, a, d: sym.Opaque(d or "Iter", "rows", ctx)),
              (r"^<std::slice::Iter<'_, \(&str, u32\)> as Iterator>::next$", m_next),
              (r"^BTreeMap::<&str, u32>::insert$", ev("insert")), (r"^BTreeMap::<u32, &str>::entry$", ev("entry")),
              (r"Entry::<'_, u32, &str>::or_insert$", ev("or_insert"))] + BASE_MODELS
    ex = sym.Executor(ctx, models=models, feasibility=E.feasibility(ctx), max_paths=60)
    try:
        ps = [p for p in ex.run(f_slice, [sym.Opaque("&[(&str, u32)]", "data", ctx)]) if p.status == "return"]
    except sym.Unsupported as e:
        rec.notes.append("from_slice: %s" % str(e)[:160])
        ps = []
    rec.paths += len(ps)
    good = len(ps) == K + 1
    for p in ps:
        nrows = sum(1 for e in p.events if e.callee == "row")
        calls = [e for e in p.events if e.callee in ("insert", "entry", "or_insert")]
        good = good and len(calls) == 3 * nrows
        for i in range(nrows):
            if not good:
                break
            ins, ent, ori = calls[3 * i: 3 * i + 3]
            n, v = rows[i]
            good = (ins.callee == "insert" and ins.rargs[0] is n2v and ins.rargs[1] is n and isinstance(ins.rargs[2], sym.Scalar) and ins.rargs[2].term == v.term
                    and ent.callee == "entry" and ent.rargs[0] is v2n and isinstance(ent.rargs[1], sym.Scalar) and ent.rargs[1].term == v.term
                    and ori.callee == "or_insert" and ori.rargs[0] is ent.ret and ori.rargs[1] is n)
        ret = p.ret
        good = good and isinstance(ret, sym.Agg) and _full(ex, None, ret.fields.get("0", ret.fields.get("n2v"))) is n2v and _full(ex, None, ret.fields.get("1", ret.fields.get("v2n"))) is v2n
    rec.add("Lookup::from_slice (up to %d rows): each row (n, v) is stored as n2v.insert(n, v) and v2n.entry(v).or_insert(n) — the same pair in both maps — and the two maps are returned as (n2v, v2n)" % K,
            _structural(bool(good), "%d paths" % len(ps)))

    # ---- 5. the table itself (read from the promoted constant of the LOOKUP initialiser) -------------------------------
    ctx = E.ctx()
    got = []

    def m_from_slice(ex, st, c, a, d):
        got.append(_full(ex, st, a[0]))
        return sym.Opaque(d or "Lookup", "lookup", ctx)

    ex = sym.Executor(ctx, models=[(r"^Lookup::from_slice$", m_from_slice)] + BASE_MODELS, feasibility=E.feasibility(ctx), max_paths=10)
    try:
        ps = [p for p in ex.run(f_init, [sym.Opaque("&closure", "init", ctx)]) if p.status == "return"]
    except sym.Unsupported as e:
        rec.notes.append("LOOKUP initialiser: %s" % str(e)[:160])
        ps = []
    rec.paths += len(ps)
    table = []
    arr = got[0] if len(got) == 1 else None
    if isinstance(arr, sym.Agg):
        for k in sorted(arr.fields, key=lambda z: int(z) if str(z).isdigit() else -1):
            t = _full(ex, None, arr.fields[k])
            if isinstance(t, sym.Agg) and isinstance(_full(ex, None, t.fields.get("0")), sym.ConstStr) and isinstance(t.fields.get("1"), sym.Scalar):
                table.append((_full(ex, None, t.fields["0"]).s, t.fields["1"].term))
    if len(ps) != 1 or len(table) < 100:
        _inconclusive(rec, "the LOOKUP initialiser passes one literal table to Lookup::from_slice (%d rows read)" % len(table))
    else:
        names = [n for n, _ in table]
        dup = sorted({n for n in names if names.count(n) > 1})
        rec.add("table (%d rows): names are pairwise distinct, so n2v[n] is the value of n's only row and n2v[v2n[v]] = v" % len(table), _structural(not dup, ", ".join(dup)))
        notlow = sorted(n for n in names if not re.fullmatch(r"[a-z]+", n))
        rec.add("table: every name is a lower-case ASCII word (from_name looks up the lower-cased spelling; the word is a valid CSS identifier)", _structural(not notlow, ", ".join(notlow)))
        ctx2 = E.ctx()
        big = "(or false %s)" % " ".join("(bvugt %s %s)" % (v, bvlit(0xffffff, 32)) for _n, v in table)
        rec.add("table: every value fits 24 bits (the byte unpacked as `_` is zero, so key(unpack(v)) = v)", E.decide(ctx2, [big]))
        rec.table_rows = len(table)
    rec.notes.append("names are checked against rsass's own reading of names (Rgba::from_name); whether the table's values are the CSS named colours is outside (no reference table in this image)")
    return rec


def k_rgba_transparent(E, tier):
    """C33 (`transparent`): the compressed printer writes `transparent` for a colour without byte form when
    Rgba::all_zero says so; all_zero is true exactly when red, green, blue and alpha are all (plus or minus) zero —
    for every f64 quadruple, so nothing that merely rounds to zero (alpha 0.001, channel 0.4) is printed as
    `transparent`, which denotes rgba(0, 0, 0, 0)."""
    f = E.find(name_re=r"^rgba::<impl at .*>::all_zero$")
    rec = Rec("Rgba::all_zero", f, E)
    ctx = E.ctx()
    ch = [ctx.fresh_scalar("f64", n) for n in ("red", "green", "blue", "alpha")]
    me = sym.Agg("Rgba", None, {"0": ch[0], "1": ch[1], "2": ch[2], "3": ch[3], "4": sym.Opaque("RgbFormat", "source", ctx)})
    calls = sorted(set(re.findall(r"= ([A-Za-z_<][^\n;]*?)\(.*\) -> \[return", f.source())))
    rec.add("Rgba::all_zero compares the four channels itself, exactly (it calls nothing — a rounding helper such as to_bytes would make near-zero colours `transparent`)",
            _structural(not calls, ", ".join(calls)[:120]))
    ex = sym.Executor(ctx, models=list(BASE_MODELS), feasibility=E.feasibility(ctx), max_paths=200)
    try:
        paths = [p for p in ex.run(f, [sym.Ref("val", me)]) if p.status == "return"]
    except sym.Unsupported as e:
        rec.notes.append(str(e)[:200])
        paths = []
    rec.paths = len(paths)
    zero = "(and %s)" % " ".join("(fp.isZero %s)" % c.term for c in ch)
    if not paths:
        _inconclusive(rec, "Rgba::all_zero is straight-line code over the four channels")
    for i, p in enumerate(paths):
        if not (isinstance(p.ret, sym.Scalar) and p.ret.sort == "bool"):
            _inconclusive(rec, "path %d: a boolean result" % i)
            continue
        r = E.decide(ctx, p.pc + ["(not (= %s %s))" % (p.ret.term, zero)], model_names=[c.term for c in ch])
        rec.add("path %d: the result is true exactly when red, green, blue and alpha are all zero (every f64 quadruple)" % i, r, {"lift": "transparent"})
    return rec
