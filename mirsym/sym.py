"""Path-wise symbolic execution of rustc MIR (the subset described in DESIGN 2.2).

Values
  Scalar(sort, term)      bool / bit-vector / f64 as an SMT-LIB term
  Opaque(ty, name)        a value of unknown structure with an identity; field
                          reads and discriminant reads create memoised children
  Agg(ty, variant, fields, disc)   tuple / struct / enum variant built by the code
  Ref(target)             reference to a local, to an abstract cell or to a value
Every call without a model is *opaque*: it returns a fresh value of the
destination's declared type and is recorded as an Event.  Anything outside the
subset raises Unsupported (the check then exits 2 instead of guessing).
"""
import os
import re

from mir import split_top
from smt import bvlit, f64lit


class Unsupported(Exception):
    pass


INT_TYPES = {
    "i8": (8, True), "i16": (16, True), "i32": (32, True), "i64": (64, True), "i128": (128, True), "isize": (64, True),
    "u8": (8, False), "u16": (16, False), "u32": (32, False), "u64": (64, False), "u128": (128, False), "usize": (64, False),
}


def sort_of_type(ty):
    ty = ty.strip()
    if ty in INT_TYPES:
        w, s = INT_TYPES[ty]
        return ("bv", w, s)
    if ty == "bool":
        return "bool"
    if ty == "f64":
        return "f64"
    if ty == "char":
        return ("bv", 32, False)
    return None


CURRENT_KERNEL = None   # set by the runner around each kernel
SEEN_OPAQUE = {}        # kernel -> callees left opaque (recording mode: MIRSYM_RECORD_BOUNDARY)
BOUNDARY = {}           # kernel -> callees that are opaque on the tree the kernels were written for
_bpath = os.path.join(os.path.dirname(os.path.abspath(__file__)), "boundary.json")
if os.path.exists(_bpath):
    import json as _json
    with open(_bpath) as _f:
        BOUNDARY = _json.load(_f)


def norm_callee(callee):
    return re.sub(r"::<.*", "", callee)[:100]


class Scalar:
    __slots__ = ("sort", "term")

    def __init__(self, sort, term):
        self.sort = sort
        self.term = term

    def __repr__(self):
        return "Scalar(%s, %s)" % (self.sort, self.term)


class Opaque:
    def __init__(self, ty, name, ctx):
        self.ty = ty
        self.name = name
        self.ctx = ctx
        self.children = {}
        self.disc = None
        self.alias_disc = None  # (other opaque) when the discriminant is tied to another value

    def __repr__(self):
        return "Opaque(%s: %s)" % (self.name, self.ty)

    def child(self, key, ty):
        if key not in self.children:
            self.children[key] = self.ctx.fresh_value(ty, "%s.%s" % (self.name, key))
        return self.children[key]

    def discriminant(self):
        if self.disc is None:
            self.disc = self.ctx.fresh_scalar(("bv", 64, True), self.name + ".disc")
            n = self.ctx.variant_count(self.ty)
            if n is not None:
                self.ctx.assumptions.append("(and (bvsge %s %s) (bvslt %s %s))" % (self.disc.term, bvlit(0, 64), self.disc.term, bvlit(n, 64)))
        return self.disc


class Agg:
    def __init__(self, ty, variant, fields, disc=None):
        self.ty = ty
        self.variant = variant
        self.fields = dict(fields)
        self.disc = disc

    def __repr__(self):
        return "Agg(%s::%s %s)" % (self.ty, self.variant, self.fields)


class Ref:
    def __init__(self, kind, target):
        self.kind = kind  # 'local' (frame, name) | 'cell' id | 'val' Value
        self.target = target

    def __repr__(self):
        return "Ref(%s, %s)" % (self.kind, self.target)


class Unit:
    def __repr__(self):
        return "Unit"


class ConstStr:
    def __init__(self, s):
        self.s = s

    def __repr__(self):
        return "ConstStr(%r)" % self.s


class FnItem:
    def __init__(self, name):
        self.name = name

    def __repr__(self):
        return "FnItem(%s)" % self.name


class Event:
    def __init__(self, callee, args, result, pc_len):
        self.callee = callee
        self.args = args
        self.rargs = args
        self.result = result
        self.pc_len = pc_len

    def __repr__(self):
        return "Event(%s)" % self.callee


KNOWN_VARIANTS = {
    "Ok": 0, "Err": 1, "None": 0, "Some": 1, "Continue": 0, "Break": 1,
    "Less": -1, "Equal": 0, "Greater": 1,
}


class Ctx:
    """Global symbol table and knowledge shared by all paths of one kernel run."""

    def __init__(self, funcs, enum_variants=None):
        self.funcs = funcs
        self.by_name = {}
        for f in funcs:
            self.by_name.setdefault(f.name, []).append(f)
        self.decls = []
        self.counter = 0
        self.assumptions = []
        self.enum_variants = enum_variants or {}

    def fresh_name(self, hint):
        self.counter += 1
        h = re.sub(r"[^A-Za-z0-9_.]", "_", hint)[:60]
        return "|%s#%d|" % (h, self.counter)

    def fresh_scalar(self, sort, hint):
        name = self.fresh_name(hint)
        self.decls.append((name, sort if sort in ("bool", "f64") else ("bv", sort[1], sort[2])))
        return Scalar(sort, name)

    def fresh_value(self, ty, hint):
        sort = sort_of_type(ty)
        if sort is not None:
            return self.fresh_scalar(sort, hint)
        if ty.strip() == "()":
            return Unit()
        return Opaque(ty.strip(), hint, self)

    def enum_key(self, ty):
        t = re.sub(r"<.*$", "", ty.strip().lstrip("&").replace("mut ", "")).strip()
        best = None
        for key in self.enum_variants:
            if t == key or t.endswith("::" + key) or key.endswith("::" + t):
                if best is None or len(key) > len(best):
                    best = key
        return best

    def variant_count(self, ty):
        t = ty.strip()
        if t.startswith(("std::result::Result<", "Result<", "std::option::Option<", "Option<", "std::ops::ControlFlow<", "ControlFlow<")):
            return 2
        k = self.enum_key(t)
        return len(self.enum_variants[k]) if k else None

    def variant_index(self, ty, variant):
        k = self.enum_key(ty)
        if k and variant in self.enum_variants[k]:
            return self.enum_variants[k].index(variant)
        base = ty.strip().split("<")[0].split("::")[-1]
        if variant in KNOWN_VARIANTS and base in ("Result", "Option", "ControlFlow"):
            return KNOWN_VARIANTS[variant]
        return None


class State:
    def __init__(self):
        self.frames = []
        self.pc = []
        self.events = []
        self.obligations = []  # (kind, negated-goal term to be UNSAT together with pc, description)
        self.cells = {}
        self.visits = {}
        self.notes = []

    def fork(self):
        s = State()
        s.frames = [dict(f) for f in self.frames]
        s.pc = list(self.pc)
        s.events = list(self.events)
        s.obligations = list(self.obligations)
        s.cells = dict(self.cells)
        s.visits = dict(self.visits)
        s.notes = list(self.notes)
        return s


class PathResult:
    def __init__(self, state, ret, status):
        self.pc = state.pc
        self.events = state.events
        self.obligations = state.obligations
        self.ret = ret
        self.status = status  # 'return' | 'diverge' | 'unwind-bound'
        self.notes = state.notes
        self.cells = state.cells


# ---------------------------------------------------------------- term helpers

def b(v):
    if isinstance(v, Scalar) and v.sort == "bool":
        return v.term
    raise Unsupported("expected bool, got %r" % (v,))


def mk_bool(term):
    return Scalar("bool", term)


def is_bv(v):
    return isinstance(v, Scalar) and isinstance(v.sort, tuple)


def bin_op(op, a, c):
    if not isinstance(a, Scalar) or not isinstance(c, Scalar):
        raise Unsupported("binary %s on non-scalars %r %r" % (op, a, c))
    if a.sort == "f64":
        x, y = a.term, c.term
        table = {
            "Add": "(fp.add RNE %s %s)", "Sub": "(fp.sub RNE %s %s)", "Mul": "(fp.mul RNE %s %s)",
            "Div": "(fp.div RNE %s %s)", "Rem": "(fp_fmod %s %s)",
        }
        cmp = {"Lt": "(fp.lt %s %s)", "Le": "(fp.leq %s %s)", "Gt": "(fp.gt %s %s)", "Ge": "(fp.geq %s %s)", "Eq": "(fp.eq %s %s)"}
        if op in table:
            return Scalar("f64", table[op] % (x, y))
        if op in cmp:
            return mk_bool(cmp[op] % (x, y))
        if op == "Ne":
            return mk_bool("(not (fp.eq %s %s))" % (x, y))
        raise Unsupported("float op " + op)
    if a.sort == "bool":
        x, y = a.term, c.term
        table = {"BitAnd": "(and %s %s)", "BitOr": "(or %s %s)", "BitXor": "(xor %s %s)", "Eq": "(= %s %s)", "Ne": "(not (= %s %s))"}
        if op in table:
            return mk_bool(table[op] % (x, y))
        raise Unsupported("bool op " + op)
    _, w, signed = a.sort
    x, y = a.term, c.term
    if op in ("Shl", "Shr") and c.sort[1] != w:
        # shift amount of another width
        if c.sort[1] < w:
            y = "((_ zero_extend %d) %s)" % (w - c.sort[1], y)
        else:
            y = "((_ extract %d 0) %s)" % (w - 1, y)
    arith = {
        "Add": "bvadd", "Sub": "bvsub", "Mul": "bvmul", "BitAnd": "bvand", "BitOr": "bvor", "BitXor": "bvxor",
        "Shl": "bvshl", "Shr": "bvashr" if signed else "bvlshr",
        "Div": "bvsdiv" if signed else "bvudiv", "Rem": "bvsrem" if signed else "bvurem",
    }
    if op in arith:
        return Scalar(a.sort, "(%s %s %s)" % (arith[op], x, y))
    cmp = {
        "Lt": "bvslt" if signed else "bvult", "Le": "bvsle" if signed else "bvule",
        "Gt": "bvsgt" if signed else "bvugt", "Ge": "bvsge" if signed else "bvuge",
    }
    if op in cmp:
        return mk_bool("(%s %s %s)" % (cmp[op], x, y))
    if op == "Eq":
        return mk_bool("(= %s %s)" % (x, y))
    if op == "Ne":
        return mk_bool("(not (= %s %s))" % (x, y))
    if op in ("AddWithOverflow", "SubWithOverflow", "MulWithOverflow"):
        base = op[:3]
        res = Scalar(a.sort, "(%s %s %s)" % (arith[base], x, y))
        ext = "sign_extend" if signed else "zero_extend"
        n = w if base == "Mul" else 1
        wx = "((_ %s %d) %s)" % (ext, n, x)
        wy = "((_ %s %d) %s)" % (ext, n, y)
        wide = "(%s %s %s)" % (arith[base], wx, wy)
        back = "((_ %s %d) %s)" % (ext, n, res.term)
        ovf = mk_bool("(not (= %s %s))" % (wide, back))
        return Agg("(%s, bool)" % a.sort[1], None, {"0": res, "1": ovf})
    raise Unsupported("int op " + op)


def un_op(op, a):
    if not isinstance(a, Scalar):
        raise Unsupported("unary %s on %r" % (op, a))
    if op == "Not":
        if a.sort == "bool":
            return mk_bool("(not %s)" % a.term)
        return Scalar(a.sort, "(bvnot %s)" % a.term)
    if op == "Neg":
        if a.sort == "f64":
            return Scalar("f64", "(fp.neg %s)" % a.term)
        return Scalar(a.sort, "(bvneg %s)" % a.term)
    raise Unsupported("unary " + op)


def cast(v, src_ty, dst_ty, kind):
    ds = sort_of_type(dst_ty)
    if not isinstance(v, Scalar) or ds is None:
        raise Unsupported("cast %s of %r to %s" % (kind, v, dst_ty))
    if kind == "IntToInt":
        if v.sort == "bool":
            return Scalar(ds, "(ite %s %s %s)" % (v.term, bvlit(1, ds[1]), bvlit(0, ds[1])))
        _, w, signed = v.sort
        dw = ds[1]
        if dw == w:
            return Scalar(ds, v.term)
        if dw < w:
            return Scalar(ds, "((_ extract %d 0) %s)" % (dw - 1, v.term))
        ext = "sign_extend" if signed else "zero_extend"
        return Scalar(ds, "((_ %s %d) %s)" % (ext, dw - w, v.term))
    if kind == "IntToFloat":
        _, w, signed = v.sort
        f = "(_ to_fp 11 53)" if signed else "(_ to_fp_unsigned 11 53)"
        return Scalar("f64", "(%s RNE %s)" % (f, v.term))
    if kind == "FloatToInt":
        _, dw, dsigned = ds
        x = v.term
        if dsigned:
            lo, hi = -(1 << (dw - 1)), (1 << (dw - 1)) - 1
            conv = "((_ fp.to_sbv %d) RTZ %s)" % (dw, x)
        else:
            lo, hi = 0, (1 << dw) - 1
            conv = "((_ fp.to_ubv %d) RTZ %s)" % (dw, x)
        flo = f64lit(float(lo))
        fhi = f64lit(float(hi)) if float(hi) <= hi else f64lit(float(hi))
        # Rust `as`: NaN -> 0, saturating
        term = "(ite (fp.isNaN %s) %s (ite (fp.leq %s %s) %s (ite (fp.geq %s %s) %s %s)))" % (
            x, bvlit(0, dw), x, flo, bvlit(lo, dw), x, fhi, bvlit(hi, dw), conv)
        return Scalar(ds, term)
    if kind == "FloatToFloat" and ds == "f64" and v.sort == "f64":
        return v
    raise Unsupported("cast kind " + kind)


# ---------------------------------------------------------------- executor

CALL_SUFFIX_RE = re.compile(r" -> (\[return: (bb\d+), unwind[^\]]*\]|unwind[^\]]*|bb\d+)$")


class Executor:
    def __init__(self, ctx, models=None, inline=None, unroll=4, max_paths=4000, feasibility=None, auto_inline=None, keep_opaque=None):
        self.ctx = ctx
        # auto_inline = N: crate-local callees that no model covers and whose MIR has at most N basic blocks are
        # executed instead of being opaque (robustness against extracted helper functions); keep_opaque: regexes
        # of callees that are boundary events of the kernel and must stay opaque
        self.auto_inline = auto_inline
        self.keep_opaque = keep_opaque or []
        # helper-following: a crate-local callee that this kernel did not meet as an opaque call on the tree it was
        # written for (boundary.json) and that resolves by its exact name is executed instead of havocked, so that a
        # function body moved into an extracted helper is still seen.  Off while recording the boundary.
        self.boundary = None
        if CURRENT_KERNEL and CURRENT_KERNEL in BOUNDARY and not os.environ.get("MIRSYM_RECORD_BOUNDARY") and not os.environ.get("MIRSYM_NO_FOLLOW"):
            self.boundary = set(BOUNDARY[CURRENT_KERNEL])
        self.models = models or []  # [(regex, handler(ex, state, callee, args, dest_ty) -> Value or None)]
        self.inline = inline or []  # callee-name regexes that may be inlined
        self.unroll = unroll
        self.max_paths = max_paths
        self.feasible = feasibility
        self.paths = 0
        self.inlined = set()
        self.opaque_calls = set()

    # -- places and operands
    def parse_place(self, s):
        """-> list of steps from a base local: ('local', n) then ('deref',) ('field', k, ty) ('downcast', V)"""
        s = s.strip()
        if re.fullmatch(r"_\d+", s):
            return [("local", s)]
        if s.startswith("(") and s.endswith(")"):
            inner = s[1:-1]
            if inner.startswith("*"):
                return self.parse_place(inner[1:]) + [("deref",)]
            # (P as Variant)
            m = re.fullmatch(r"(.+) as ([A-Za-z_][A-Za-z0-9_]*)", inner)
            if m and self._balanced(m.group(1)):
                return self.parse_place(m.group(1)) + [("downcast", m.group(2))]
            # (P.k: T)
            idx = self._field_split(inner)
            if idx is not None:
                base, k, ty = idx
                return self.parse_place(base) + [("field", k, ty)]
        m = re.fullmatch(r"(.+)\[(\d+) of \d+\]", s)
        if m:
            # constant index into an array / slice pattern: element k of an aggregate built with numbered fields
            return self.parse_place(m.group(1)) + [("field", m.group(2), "?")]
        m = re.fullmatch(r"(.+)\[(_\d+)\]", s)
        if m:
            raise Unsupported("index place " + s)
        raise Unsupported("place " + s)

    @staticmethod
    def _balanced(t):
        d = 0
        for c in t:
            if c == "(":
                d += 1
            elif c == ")":
                d -= 1
                if d < 0:
                    return False
        return d == 0

    def _field_split(self, inner):
        # find the top-level ".k: " that separates base place, field index and type
        depth = 0
        for i, c in enumerate(inner):
            if c == "(":
                depth += 1
            elif c == ")":
                depth -= 1
            elif c == "." and depth == 0:
                m = re.match(r"\.(\d+): ", inner[i:])
                if m and self._balanced(inner[:i]):
                    return inner[:i], m.group(1), inner[i + m.end():]
        return None

    def read_place(self, st, s):
        steps = self.parse_place(s)
        frame = st.frames[-1]
        n = steps[0][1]
        if n not in frame:
            ty = self.cur_func.locals.get(n, "?")
            raise Unsupported("read of uninitialised local %s: %s in %s" % (n, ty, self.cur_func.name))
        v = frame[n]
        variant = None
        for step in steps[1:]:
            if step[0] == "deref":
                v = self.deref(st, v)
            elif step[0] == "downcast":
                variant = step[1]
            elif step[0] == "field":
                k, ty = step[1], step[2]
                v = self.field(v, variant, k, ty)
                variant = None
        return v

    def deref(self, st, v):
        if isinstance(v, Ref):
            if v.kind == "local":
                fi, n = v.target
                return st.frames[fi][n]
            if v.kind == "cell":
                return st.cells[v.target]
            if v.kind == "cellfield":
                cell, k = v.target
                return st.cells[cell].fields[k]
            return v.target
        if isinstance(v, Opaque):
            return v.child("deref", v.ty.lstrip("&").replace("mut ", "", 1).strip() or "?")
        raise Unsupported("deref of %r" % (v,))

    def field(self, v, variant, k, ty):
        if isinstance(v, Agg):
            if variant is not None and v.variant is not None and v.variant != variant:
                # reading the payload of a variant the value does not have: dead path upstream
                return self.ctx.fresh_value(ty, "dead.%s.%s" % (variant, k))
            if k in v.fields:
                return v.fields[k]
            raise Unsupported("missing field %s in %r" % (k, v))
        if isinstance(v, Opaque):
            key = "%s.%s" % (variant, k) if variant else k
            return v.child(key, ty)
        raise Unsupported("field %s of %r" % (k, v))

    def write_place(self, st, s, val):
        steps = self.parse_place(s)
        frame = st.frames[-1]
        n = steps[0][1]
        if len(steps) == 1:
            frame[n] = val
            return
        if len(steps) == 2 and steps[1][0] == "deref":
            r = frame[n]
            if isinstance(r, Ref) and r.kind == "local":
                fi, ln = r.target
                st.frames[fi][ln] = val
                return
            if isinstance(r, Ref) and r.kind == "cell":
                st.cells[r.target] = val
                st.events.append(Event("store", [r, val], None, len(st.pc)))
                return
            if isinstance(r, Ref) and r.kind == "cellfield":
                cell, k = r.target
                cur = st.cells[cell]
                f = dict(cur.fields)
                f[k] = val
                st.cells[cell] = Agg(cur.ty, cur.variant, f, cur.disc)
                st.events.append(Event("store-field", [r, val], None, len(st.pc)))
                return
            raise Unsupported("store through %r" % (r,))
        if len(steps) == 2 and steps[1][0] == "field":
            cur = frame.get(n)
            k = steps[1][1]
            if isinstance(cur, Agg):
                f = dict(cur.fields)
                f[k] = val
                frame[n] = Agg(cur.ty, cur.variant, f, cur.disc)
            else:
                frame[n] = Agg(self.cur_func.locals.get(n, "?"), None, {k: val})
            return
        if len(steps) >= 3 and steps[1][0] == "deref" and isinstance(frame.get(n), Opaque):
            # initialisation of freshly allocated heap memory behind an opaque pointer (`vec![..]`, `Box::new`):
            # the pointee is never read back by value here; reads through it yield fresh (unconstrained) values
            st.events.append(Event("store-opaque", [frame.get(n), val], None, len(st.pc)))
            return
        raise Unsupported("assignment to place " + s)

    def const(self, text, dest_ty=None):
        t = text.strip()
        m = re.search(r"::promoted\[(\d+)\]$", t)
        if m and getattr(self, "cur_state", None) is not None:
            name = "%s::promoted[%s]" % (self.cur_func.name, m.group(1))
            cands = self.ctx.by_name.get(name, [])
            if len(cands) == 1:
                outs = self.exec_fn(cands[0], [], self.cur_state, 9)
                if len(outs) == 1:
                    return outs[0][1]
            raise Unsupported("promoted constant " + t)
        if t in ("true", "false"):
            return mk_bool(t)
        m = re.fullmatch(r"(-?[0-9][0-9_]*)_?((?:i|u)(?:8|16|32|64|128|size))", t)
        if m:
            w, s = INT_TYPES[m.group(2)]
            return Scalar(("bv", w, s), bvlit(int(m.group(1).replace("_", "")), w))
        m = re.fullmatch(r"((?:i|u)(?:8|16|32|64|128|size))::(MIN|MAX)", t)
        if m:
            w, s = INT_TYPES[m.group(1)]
            if m.group(2) == "MIN":
                v = -(1 << (w - 1)) if s else 0
            else:
                v = (1 << (w - 1)) - 1 if s else (1 << w) - 1
            return Scalar(("bv", w, s), bvlit(v, w))
        m = re.fullmatch(r"(-?[0-9][0-9_.]*(?:[eE][-+]?[0-9]+)?|-?inf|NaN|-?NaN)f64", t)
        if m:
            return Scalar("f64", f64lit(float(m.group(1).replace("_", "").replace("NaN", "nan"))))
        m = re.fullmatch(r"f64::(INFINITY|NEG_INFINITY|NAN|EPSILON|MAX|MIN)", t)
        if m:
            import sys
            v = {"INFINITY": float("inf"), "NEG_INFINITY": float("-inf"), "NAN": float("nan"),
                 "EPSILON": sys.float_info.epsilon, "MAX": sys.float_info.max, "MIN": -sys.float_info.max}[m.group(1)]
            return Scalar("f64", f64lit(v))
        if t.startswith('"') and t.endswith('"'):
            return ConstStr(t[1:-1])
        if t.startswith("b\""):
            return ConstStr(t)
        m = re.fullmatch(r"'(.)'", t)
        if m:
            return Scalar(("bv", 32, False), bvlit(ord(m.group(1)), 32))
        if t == "()":
            return Unit()
        # a named constant of the crate (`const path::NAME: T = {...}` item in the dump): evaluate its body
        if getattr(self, "cur_state", None) is not None and re.fullmatch(r"[A-Za-z_][\w:<>{}# ]*", t):
            cands = [f for f in self.ctx.by_name.get(t, []) if not f.params and not f.text[0].startswith("fn ")]
            if not cands:  # items are printed under their last path segment
                cands = [f for f in self.ctx.by_name.get(t.split("::")[-1], []) if not f.params and not f.text[0].startswith("fn ")]
            if len(cands) == 1:
                outs = self.exec_fn(cands[0], [], self.cur_state, 9)
                if len(outs) == 1 and outs[0][2] == "return":
                    return outs[0][1]
        return FnItem(t)

    def operand(self, st, s, dest_ty=None):
        s = s.strip()
        self.cur_state = st
        if s.startswith("copy "):
            return self.read_place(st, s[5:])
        if s.startswith("move "):
            return self.read_place(st, s[5:])
        if s.startswith("const "):
            return self.const(s[6:], dest_ty)
        if s.startswith("no_retag copy "):
            return self.read_place(st, s[len("no_retag copy "):])
        if not (s.startswith("_") or s.startswith("(")):
            return FnItem(s)  # a bare function item / closure passed as an argument
        return self.read_place(st, s)

    def type_of_operand(self, s):
        s = s.strip()
        for p in ("copy ", "move "):
            if s.startswith(p):
                pl = s[len(p):].strip()
                if re.fullmatch(r"_\d+", pl):
                    return self.cur_func.locals.get(pl)
                steps = self.parse_place(pl)
                if steps and steps[-1][0] == "field":
                    return steps[-1][2]
        return None

    # -- rvalues
    def rvalue(self, st, text, dest_ty):
        t = text.strip()
        m = re.fullmatch(r"([A-Z][A-Za-z]*)\((.*)\)", t)
        if m and m.group(1) in (
            "Add", "Sub", "Mul", "Div", "Rem", "Lt", "Le", "Gt", "Ge", "Eq", "Ne", "BitAnd", "BitOr", "BitXor", "Shl", "Shr",
            "AddWithOverflow", "SubWithOverflow", "MulWithOverflow", "AddUnchecked", "SubUnchecked", "MulUnchecked", "Cmp",
        ):
            parts = split_top(m.group(2))
            if len(parts) == 2:
                a = self.operand(st, parts[0])
                c = self.operand(st, parts[1])
                op = m.group(1).replace("Unchecked", "")
                return bin_op(op, a, c)
        if m and m.group(1) in ("Not", "Neg"):
            return un_op(m.group(1), self.operand(st, m.group(2)))
        m = re.fullmatch(r"discriminant\((.+)\)", t)
        if m:
            v = self.read_place(st, m.group(1))
            return self.discriminant(v)
        m = re.fullmatch(r"(.+) as (.+?) \((\w+)(?:\(.*\))?(?:, \w+)?\)", t)
        if m and m.group(3) in ("IntToInt", "IntToFloat", "FloatToInt", "FloatToFloat"):
            src = self.operand(st, m.group(1))
            return cast(src, self.type_of_operand(m.group(1)), m.group(2), m.group(3))
        if m and m.group(3) in ("PointerCoercion", "Transmute", "PtrToPtr"):
            return self.operand(st, m.group(1))
        m = re.fullmatch(r"PtrMetadata\((.+)\)", t)
        if m:
            # length of a slice behind a (fat) pointer: one symbol per pointee object, at most isize::MAX
            v = self.operand(st, m.group(1))
            n = 0
            while isinstance(v, Ref) and n < 6:
                v = self.deref(st, v)
                n += 1
            if isinstance(v, Opaque):
                fresh = "len" not in v.children
                ln = v.child("len", "usize")
                if fresh and isinstance(ln, Scalar):
                    self.ctx.assumptions.append("(bvule %s %s)" % (ln.term, bvlit((1 << 63) - 1, 64)))
                return ln
            if isinstance(v, Agg) and v.variant is None and v.fields and all(k.isdigit() for k in v.fields):
                return Scalar(("bv", 64, False), bvlit(len(v.fields), 64))  # a concrete array / slice built by a model
            raise Unsupported("PtrMetadata of %r" % (v,))
        if t.startswith("&"):
            rest = t[1:].strip()
            is_mut = rest.startswith(("mut ", "raw mut "))
            for p in ("mut ", "raw const ", "raw mut ", "(fake shallow) ", "(fake) ", "fake shallow ", "fake "):
                if rest.startswith(p):
                    rest = rest[len(p):]
            steps = self.parse_place(rest)
            if is_mut and getattr(self, "track_mut_borrows", False) and len(steps) >= 3 and steps[1][0] == "deref":
                # a mutable borrow of a field behind a pointer local (`&mut (*_1).k`): recorded for frame conditions
                st.events.append(Event("mut-borrow", [steps[0][1], [x[1] for x in steps[2:] if x[0] == "field"], len(st.frames)], None, len(st.pc)))
            if len(steps) == 1:
                return Ref("local", (len(st.frames) - 1, steps[0][1]))
            if steps[-1][0] == "deref" and len(steps) == 2:
                # reborrow &(*_x)
                return st.frames[-1][steps[0][1]]
            if len(steps) == 3 and steps[1][0] == "deref" and steps[2][0] == "field":
                base = st.frames[-1].get(steps[0][1])
                if isinstance(base, Ref) and base.kind == "cell":
                    return Ref("cellfield", (base.target, steps[2][1]))
            return Ref("val", self.read_place(st, rest))
        if t.startswith(("copy ", "move ", "const ", "no_retag ")):
            return self.operand(st, t, dest_ty)
        if t.startswith("(") and t.endswith(")"):
            inner = t[1:-1]
            if inner.strip() == "":
                return Unit()
            parts = split_top(inner)
            if all(p.startswith(("copy ", "move ", "const ")) for p in parts):
                return Agg(dest_ty or "tuple", None, {str(i): self.operand(st, p) for i, p in enumerate(parts)})
        if t.startswith("[") and t.endswith("]"):
            parts = split_top(t[1:-1])
            return Agg(dest_ty or "array", None, {str(i): self.operand(st, p) for i, p in enumerate(parts)})
        if re.fullmatch(r"\{closure@[^}]*\}", t):
            return FnItem(t)  # a closure without captures
        # struct literal  Path { a: x, b: y }
        m = re.fullmatch(r"([A-Za-z_][^{]*?|\{closure@[^}]*\}) \{ (.*) \}", t)
        if m:
            fields = {}
            for i, part in enumerate(split_top(m.group(2))):
                if ": " in part:
                    k, v = part.split(": ", 1)
                    fields[k.strip()] = self.operand(st, v)
                    fields[str(i)] = fields[k.strip()]
            return Agg(m.group(1).strip(), None, fields)
        # enum variant constructor  Path::Variant(args)  or unit variant Path::Variant
        m = re.fullmatch(r"([A-Za-z_][A-Za-z0-9_:<>, '&\[\]\(\)]*?)::([A-Z][A-Za-z0-9_]*)(?:\((.*)\))?", t)
        if m:
            ty, variant, args = m.group(1), m.group(2), m.group(3)
            fields = {}
            if args is not None and args.strip():
                for i, p in enumerate(split_top(args)):
                    fields[str(i)] = self.operand(st, p)
            base = re.sub(r"::<.*$", "", ty)
            return Agg(dest_ty or base, variant, fields, self.ctx.variant_index(dest_ty or base, variant))
        # bare unit variant of an enum from another crate, printed without its path (`_0 = Expanded;`)
        if dest_ty and re.fullmatch(r"[A-Z][A-Za-z0-9_]*", t):
            vi = self.ctx.variant_index(dest_ty, t)
            if vi is not None:
                return Agg(dest_ty, t, {}, vi)
        raise Unsupported("rvalue: " + t[:160])

    def discriminant(self, v):
        if isinstance(v, Agg):
            if v.disc is not None:
                return Scalar(("bv", 64, True), bvlit(v.disc, 64))
            raise Unsupported("discriminant of %r with unknown variant index" % (v,))
        if isinstance(v, Opaque):
            if v.alias_disc is not None:
                return v.alias_disc.discriminant()
            return v.discriminant()
        raise Unsupported("discriminant of %r" % (v,))

    # -- control
    def feasible_pc(self, st, extra=None):
        if self.feasible is None:
            return True
        return self.feasible(st.pc + ([extra] if extra else []))

    def run(self, func, args):
        """Execute `func` from symbolic `args` -> [PathResult]."""
        st = State()
        results = []
        for s2, rv, status in self.exec_fn(func, args, st, 0):
            results.append(PathResult(s2, rv, status))
        return results

    def _detach(self, v, st, fi, depth):
        """Replace references into frame `fi` (about to be left) inside `v` by references to the values themselves
        (promoted constants such as `&Some(&59_u8)` are chains of references into their own frame)."""
        if depth > 8:
            return v
        if isinstance(v, Ref):
            if v.kind == "local" and v.target[0] == fi:
                return Ref("val", self._detach(st.frames[fi].get(v.target[1]), st, fi, depth + 1))
            if v.kind == "val":
                return Ref("val", self._detach(v.target, st, fi, depth + 1))
            return v
        if isinstance(v, Agg):
            changed = {k: self._detach(x, st, fi, depth + 1) for k, x in v.fields.items()}
            if any(changed[k] is not v.fields[k] for k in changed):
                return Agg(v.ty, v.variant, changed, v.disc)
        return v

    def exec_fn(self, func, args, st, depth):
        frame = {}
        for (p, _ty), a in zip(func.params, args):
            frame[p] = a
        st.frames.append(frame)
        out = []
        saved = getattr(self, "cur_func", None)
        self.cur_func = func
        try:
            for s2, status in self.exec_block(func, "bb0", st, depth):
                self.cur_func = func
                rv = s2.frames[-1].get("_0", Unit())
                if isinstance(rv, Ref) and rv.kind == "local" and rv.target[0] == len(s2.frames) - 1:
                    rv = Ref("val", s2.frames[-1].get(rv.target[1]))  # reference into the frame being left (promoteds)
                    rv = self._detach(rv, s2, len(s2.frames) - 1, 0)
                s2.frames.pop()
                out.append((s2, rv, status))
        finally:
            self.cur_func = saved
        return out

    def exec_block(self, func, bb, st, depth):
        """-> list of (state, status) at function exit."""
        results = []
        work = [(bb, st)]
        while work:
            bb, st = work.pop()
            self.cur_func = func
            key = (func.name, bb, len(st.frames))
            st.visits[key] = st.visits.get(key, 0) + 1
            if st.visits[key] > self.unroll:
                st.notes.append("unwinding bound %d reached at %s %s" % (self.unroll, func.name, bb))
                results.append((st, "unwind-bound"))
                continue
            block = func.blocks[bb]
            for stmt in block.stmts:
                self.statement(st, stmt)
            term = block.term
            if term is None:
                raise Unsupported("block without terminator")
            if term == "return":
                results.append((st, "return"))
                continue
            if term in ("unreachable", "resume") or term.startswith("unwind "):
                continue  # dead (impossible discriminant) or cleanup
            m = re.fullmatch(r"goto -> (bb\d+)", term)
            if m:
                work.append((m.group(1), st))
                continue
            m = re.fullmatch(r"drop\((.+)\) -> \[return: (bb\d+), unwind[^\]]*\]", term)
            if m:
                if re.fullmatch(r"_\d+", m.group(1)):
                    st.events.append(Event("drop", [func.locals.get(m.group(1), "?"), st.frames[-1].get(m.group(1))], None, len(st.pc)))
                work.append((m.group(2), st))
                continue
            m = re.fullmatch(r"switchInt\((.+)\) -> \[(.+)\]", term)
            if m:
                v = self.operand(st, m.group(1))
                arms = []
                other = None
                for part in split_top(m.group(2)):
                    k, tgt = part.split(": ")
                    if k.strip() == "otherwise":
                        other = tgt.strip()
                    else:
                        arms.append((int(k), tgt.strip()))
                conds = []
                for k, tgt in arms:
                    if v.sort == "bool":
                        c = v.term if k != 0 else "(not %s)" % v.term
                    else:
                        c = "(= %s %s)" % (v.term, bvlit(k, v.sort[1]))
                    conds.append((c, tgt))
                if other is not None:
                    if v.sort == "bool" and len(arms) == 1:
                        c = "(not %s)" % conds[0][0]
                    else:
                        c = "(not (or false %s))" % " ".join(c for c, _ in conds)
                    conds.append((c, other))
                for c, tgt in conds:
                    if self.feasible_pc(st, c):
                        s2 = st.fork()
                        s2.pc.append(c)
                        self.paths += 1
                        if self.paths > self.max_paths:
                            raise Unsupported("path budget exceeded")
                        work.append((tgt, s2))
                continue
            m = re.fullmatch(r"assert\((!?)(.+?), \"(.*?)\".*\) -> \[success: (bb\d+), unwind[^\]]*\]", term)
            if m:
                v = self.operand(st, m.group(2))
                cond = b(v)
                if m.group(1) == "!":
                    cond = "(not %s)" % cond
                st.obligations.append(("panic", "(not %s)" % cond, "%s: %s" % (func.name, m.group(3)), list(st.pc)))
                st.pc.append(cond)
                work.append((m.group(4), st))
                continue
            # call
            cm = CALL_SUFFIX_RE.search(term)
            if cm:
                head = term[: cm.start()]
                ret_bb = cm.group(2)
                if ret_bb is None and cm.group(1).startswith("bb"):
                    ret_bb = cm.group(1)
                dest = None
                m2 = re.match(r"^((?:_\d+|\(.*?\))) = (.*)$", head)
                call = head
                if m2 and not head.startswith("<"):
                    dest, call = m2.group(1), m2.group(2)
                elif m2:
                    dest, call = m2.group(1), m2.group(2)
                callee, argtxt = self.split_call(call)
                args = [self.operand(st, a) for a in split_top(argtxt)] if argtxt.strip() else []
                dest_ty = None
                if dest is not None:
                    steps = self.parse_place(dest)
                    if len(steps) == 1:
                        dest_ty = func.locals.get(steps[0][1])
                    elif steps[-1][0] == "field":
                        dest_ty = steps[-1][2]
                for s2, rv in self.call(st, callee, args, dest_ty, depth):
                    self.cur_func = func
                    if ret_bb is None:
                        continue  # diverging call
                    if dest is not None:
                        self.write_place(s2, dest, rv)
                    work.append((ret_bb, s2))
                continue
            raise Unsupported("terminator: " + term[:160])
        return results

    @staticmethod
    def split_call(call):
        call = call.strip()
        if not call.endswith(")"):
            raise Unsupported("call syntax: " + call[:120])
        depth = 0
        for i in range(len(call) - 1, -1, -1):
            c = call[i]
            if c == ")":
                depth += 1
            elif c == "(":
                depth -= 1
                if depth == 0:
                    return call[:i].strip(), call[i + 1 : -1]
        raise Unsupported("call syntax: " + call[:120])

    def statement(self, st, stmt):
        if stmt.startswith(("StorageLive", "StorageDead", "nop", "FakeRead", "PlaceMention", "AscribeUserType", "Coverage", "Retag", "ConstEvalCounter", "BackwardIncompatibleDropHint")):
            return
        m = re.match(r"^((?:_\d+|\(.*?\)))\s=\s(.*)$", stmt)
        if not m:
            raise Unsupported("statement: " + stmt[:160])
        # the lhs regex is lazy: make sure the place is balanced
        lhs, rhs = m.group(1), m.group(2)
        if not self._balanced(lhs):
            i = stmt.index(" = ")
            while not self._balanced(stmt[:i]):
                i = stmt.index(" = ", i + 1)
            lhs, rhs = stmt[:i], stmt[i + 3 :]
        dest_ty = None
        if re.fullmatch(r"_\d+", lhs):
            dest_ty = self.cur_func.locals.get(lhs)
        else:
            try:
                steps = self.parse_place(lhs)
                if steps[-1][0] == "field":
                    dest_ty = steps[-1][2]
            except Unsupported:
                pass
        val = self.rvalue(st, rhs, dest_ty)
        self.write_place(st, lhs, val)

    # -- calls
    def call(self, st, callee, args, dest_ty, depth):
        """-> list of (state, return value)"""
        for rx, handler in self.models:
            if re.search(rx, callee):
                r = handler(self, st, callee, args, dest_ty)
                if r is not None:
                    if isinstance(r, list):
                        return r
                    return [(st, r)]
        for rx in self.inline:
            if re.search(rx, callee):
                f = self.resolve(callee, args)
                if f is not None and depth < 4:
                    self.inlined.add(f.name)
                    out = []
                    for s2, rv, status in self.exec_fn(f, args, st, depth + 1):
                        if status == "return":
                            out.append((s2, rv))
                        else:
                            s2.notes.append("inlined %s: %s" % (f.name, status))
                    return out
        if self.boundary is not None and depth < 5 and norm_callee(callee) not in self.boundary:
            f = self.resolve_exact(callee, args)
            if f is not None:
                self.inlined.add(f.name)
                out = []
                for s2, rv, status in self.exec_fn(f, args, st, depth + 1):
                    if status == "return":
                        out.append((s2, rv))
                    else:
                        s2.notes.append("followed %s: %s" % (f.name, status))
                return out
        if self.auto_inline and depth < 4 and not any(re.search(rx, callee) for rx in self.keep_opaque):
            f = self.resolve(callee, args)
            if f is not None and len(f.params) == len(args) and sum(1 for b in f.blocks.values() if not b.cleanup) <= self.auto_inline:
                self.inlined.add(f.name)
                out = []
                for s2, rv, status in self.exec_fn(f, args, st, depth + 1):
                    if status == "return":
                        out.append((s2, rv))
                    else:
                        s2.notes.append("inlined %s: %s" % (f.name, status))
                return out
        return [(st, self.opaque_call(st, callee, args, dest_ty))]

    def opaque_call(self, st, callee, args, dest_ty):
        self.opaque_calls.add(re.sub(r"::<.*", "", callee)[:80])
        if CURRENT_KERNEL:
            SEEN_OPAQUE.setdefault(CURRENT_KERNEL, set()).add(norm_callee(callee))
        rv = self.ctx.fresh_value(dest_ty or "()", "ret." + re.sub(r"<.*", "", callee).split("::")[-1][:30])
        if isinstance(rv, Scalar) and rv.sort == ("bv", 64, False) and re.search(r"(^|::|>::)len$", re.sub(r"::<[^>]*>", "", callee)):
            # lengths of slices, strings and vectors never exceed isize::MAX (allocation limit of the language)
            self.ctx.assumptions.append("(bvule %s %s)" % (rv.term, bvlit((1 << 63) - 1, 64)))
        # havoc every local reachable through a &mut argument
        for a in args:
            if isinstance(a, Ref) and a.kind == "local":
                fi, n = a.target
                old = st.frames[fi].get(n)
                if old is not None and not isinstance(old, (Opaque, ConstStr, FnItem, Unit)):
                    ty = None
                    if isinstance(old, Scalar):
                        st.frames[fi][n] = self.ctx.fresh_scalar(old.sort, "havoc." + n)
        ev = Event(callee, args, rv, len(st.pc))
        ev.rargs = [self.resolve_ref(st, a) for a in args]
        st.events.append(ev)
        return rv

    def resolve_ref(self, st, v):
        """Follow references (at call time) down to the value they point to."""
        n = 0
        while isinstance(v, Ref) and n < 6:
            try:
                v = self.deref(st, v)
            except (Unsupported, KeyError, IndexError):
                break
            n += 1
        return v

    def resolve_exact(self, callee, args):
        """A crate-local function named exactly like the callee: a free function (`helper`, `module::helper`) or an
        inherent method `Type::method` whose impl block is unique.  Trait-method paths (`<T as Trait>::m`) and anything
        ambiguous are not resolved."""
        name = callee.strip()
        if name.startswith("<") or " as " in name:
            return None
        name = re.sub(r"::<[^(]*>$", "", name)
        name = re.sub(r"::<.*?>", "", name)
        cands = [f for f in self.ctx.by_name.get(name, []) if f.text and f.text[0].startswith("fn ")]
        if len(cands) == 1 and len(cands[0].params) == len(args):
            return cands[0]
        parts = name.split("::")
        if len(parts) >= 2 and not cands:
            ty, meth = parts[-2], parts[-1]
            found = [f for f in self.ctx.funcs if f.name.endswith(">::" + meth) and "<impl at" in f.name and len(f.params) == len(args) and f.params
                     and re.search(r"(^|[^A-Za-z0-9_])%s($|[^A-Za-z0-9_])" % re.escape(ty), f.params[0][1].split("<")[0] + " " + f.ret.split("<")[0])]
            if len(found) == 1:
                return found[0]
        return None

    def resolve(self, callee, args):
        name0 = callee.strip()
        name = re.sub(r"::<[^(]*>$", "", name0)
        name = re.sub(r"::<.*?>", "", name)
        cands = self.ctx.by_name.get(name, [])
        if len(cands) == 1:
            return cands[0]
        # Type::method  ->  ...<impl at file>::method with matching arity
        parts = name.split("::")
        meth = parts[-1]
        ty = parts[-2] if len(parts) >= 2 else None
        found = []
        for f in self.ctx.funcs:
            if f.name.endswith("::" + meth) and "<impl at" in f.name and len(f.params) == len(args):
                sig = " ".join(t for _, t in f.params) + " " + f.ret
                if ty is None or ty in sig or ty.lower() in f.name.lower():
                    found.append(f)
        if len(found) == 1:
            return found[0]
        full = "::".join(parts[:-1])
        if full:
            byfull = [f for f in found if full in ((f.params[0][1] if f.params else "") + " " + f.ret)]
            if len(byfull) == 1:
                return byfull[0]
        if ty:
            exact = [f for f in found if re.search(r"\b%s\b" % re.escape(ty), (f.params[0][1] if f.params else "") + " " + f.ret)]
            if len(exact) == 1:
                return exact[0]
        # `<A as Trait<B>>::m`: pick the impl whose parameter types fit the trait form and the scalar arguments
        m = re.fullmatch(r"<(.+?) as ([A-Za-z_:]+)(?:<(.+)>)?>::(\w+)", name0)
        if m:
            a_ty, b_ty = m.group(1).strip(), (m.group(3) or m.group(1)).strip()
            fit = []
            for f in self.ctx.funcs:
                if not (f.name.endswith("::" + m.group(4)) and "<impl at" in f.name and len(f.params) == len(args)):
                    continue
                tys = [t for _, t in f.params]
                if len(tys) >= 1 and tys[0] != a_ty:
                    continue
                if len(tys) >= 2 and tys[1] != b_ty:
                    continue
                ok = True
                for (_, t), a in zip(f.params, args):
                    so = sort_of_type(t)
                    if isinstance(a, Scalar) and so is not None and a.sort != so:
                        ok = False
                if ok:
                    fit.append(f)
            if len(fit) == 1:
                return fit[0]
        return None
