"""Parser for the textual MIR dump of rustc (-Zunpretty=mir).

Only the structure is parsed here (functions, locals, blocks, statement text);
statements and rvalues are interpreted lazily by sym.py.  Anything that does
not fit is kept as text and reported as unsupported when execution reaches it.
"""
import os
import re
import subprocess

FN_RE = re.compile(r"^fn (.+?)\((.*)\) -> (.+) \{$")
FN_UNIT_RE = re.compile(r"^fn (.+?)\((.*)\) \{$")
CONST_RE = re.compile(r"^const (.+): (.+?) = \{$")
CONST1_RE = re.compile(r"^const (.+?): (.+?) = (const .+);$")
LET_RE = re.compile(r"^\s+let (?:mut )?(_\d+): (.+);$")
BB_RE = re.compile(r"^    (bb\d+)( \(cleanup\))?: \{$")


class Block:
    __slots__ = ("name", "stmts", "term", "cleanup")

    def __init__(self, name, cleanup):
        self.name = name
        self.stmts = []
        self.term = None
        self.cleanup = cleanup


class Func:
    def __init__(self, name, params, ret, line):
        self.name = name
        self.params = params  # [(local, type)]
        self.ret = ret
        self.locals = {}
        self.blocks = {}
        self.line = line
        self.text = []

    def source(self):
        return "\n".join(self.text)


def split_top(s, sep=","):
    """Split at top-level separators (outside (), <>, [], {})."""
    out, depth, cur = [], 0, []
    i = 0
    while i < len(s):
        c = s[i]
        if c in "([{<":
            depth += 1
        elif c in ")]}":
            depth -= 1
        elif c == ">" and i > 0 and s[i - 1] != "-":
            depth -= 1
        if c == sep and depth == 0:
            out.append("".join(cur).strip())
            cur = []
        else:
            cur.append(c)
        i += 1
    if "".join(cur).strip():
        out.append("".join(cur).strip())
    return out


def parse(path):
    funcs = []
    cur = None
    block = None
    with open(path, errors="replace") as f:
        for lineno, raw in enumerate(f, 1):
            line = raw.rstrip("\n")
            if cur is None:
                if line.startswith("const "):
                    m1 = CONST1_RE.match(line)
                    if m1:
                        # one-line constant item: `const NAME: T = const VALUE;`
                        c = Func(m1.group(1), [], m1.group(2), lineno)
                        c.text.append(line)
                        c.locals["_0"] = m1.group(2)
                        b = Block("bb0", False)
                        b.stmts.append("_0 = " + m1.group(3))
                        b.term = "return"
                        c.blocks["bb0"] = b
                        funcs.append(c)
                        continue
                    m = CONST_RE.match(line)
                    if m:
                        cur = Func(m.group(1), [], m.group(2), lineno)
                        cur.text.append(line)
                        cur.locals["_0"] = m.group(2)
                    continue
                if line.startswith("fn "):
                    m = FN_RE.match(line)
                    ret = None
                    if m:
                        name, params, ret = m.group(1), m.group(2), m.group(3)
                    else:
                        m = FN_UNIT_RE.match(line)
                        if not m:
                            continue
                        name, params, ret = m.group(1), m.group(2), "()"
                    plist = []
                    for p in split_top(params):
                        if ": " in p:
                            a, b = p.split(": ", 1)
                            plist.append((a.strip(), b.strip()))
                    cur = Func(name, plist, ret, lineno)
                    cur.text.append(line)
                    for a, b in plist:
                        cur.locals[a] = b
                    cur.locals["_0"] = ret
                continue
            cur.text.append(line)
            if line == "}":
                funcs.append(cur)
                cur = None
                block = None
                continue
            m = LET_RE.match(line)
            if m and block is None:
                cur.locals[m.group(1)] = m.group(2)
                continue
            m = BB_RE.match(line)
            if m:
                block = Block(m.group(1), bool(m.group(2)))
                cur.blocks[block.name] = block
                continue
            if block is not None:
                if line == "    }":
                    if block.stmts:
                        block.term = block.stmts.pop()
                    block = None
                    continue
                s = line.strip()
                if s:
                    if s.endswith(";"):
                        s = s[:-1]
                    block.stmts.append(s)
    return funcs


def dump(repo_rsass, target_dir, out_path):
    """Regenerate the MIR dump from the current working tree (no writes under /repo)."""
    os.makedirs(target_dir, exist_ok=True)
    # force the rsass crate itself to be recompiled: drop its fingerprint
    fp = os.path.join(target_dir, "debug", ".fingerprint")
    if os.path.isdir(fp):
        for d in os.listdir(fp):
            if d.startswith("rsass-"):
                subprocess.run(["rm", "-rf", os.path.join(fp, d)])
    env = dict(os.environ)
    env["CARGO_TARGET_DIR"] = target_dir
    env["CARGO_NET_OFFLINE"] = "true"
    env.pop("RUSTFLAGS", None)
    env.pop("RUSTUP_TOOLCHAIN", None)
    cmd = [
        "cargo", "+nightly", "rustc", "--locked", "--offline", "--lib", "--",
        "-Zunpretty=mir", "-C", "debug-assertions=off", "-C", "overflow-checks=on",
    ]
    with open(out_path, "w") as out:
        p = subprocess.run(cmd, cwd=repo_rsass, env=env, stdout=out, stderr=subprocess.PIPE, text=True)
    if p.returncode != 0:
        raise RuntimeError("MIR dump failed:\n" + p.stderr[-3000:])
    return out_path


def dump_bin(crate_dir, target_dir, out_path, bin_name, fingerprint_prefix):
    """MIR of a binary crate of the workspace (the command-line tool), regenerated from the current working tree."""
    os.makedirs(target_dir, exist_ok=True)
    fp = os.path.join(target_dir, "debug", ".fingerprint")
    if os.path.isdir(fp):
        for d in os.listdir(fp):
            if d.startswith(fingerprint_prefix):
                subprocess.run(["rm", "-rf", os.path.join(fp, d)])
    env = dict(os.environ)
    env["CARGO_TARGET_DIR"] = target_dir
    env["CARGO_NET_OFFLINE"] = "true"
    env.pop("RUSTFLAGS", None)
    env.pop("RUSTUP_TOOLCHAIN", None)
    cmd = ["cargo", "+nightly", "rustc", "--locked", "--offline", "--bin", bin_name, "--",
           "-Zunpretty=mir", "-C", "debug-assertions=off", "-C", "overflow-checks=on"]
    with open(out_path, "w") as out:
        p = subprocess.run(cmd, cwd=crate_dir, env=env, stdout=out, stderr=subprocess.PIPE, text=True)
    if p.returncode != 0:
        raise RuntimeError("MIR dump of %s failed:\n" % bin_name + p.stderr[-3000:])
    return out_path
