"""E2 kernels: where the function is in the MIR, how its surroundings are
modelled, and the property as SMT obligations over its path summaries."""
import re

import smt
import sym
from smt import bvlit, f64lit

F0 = f64lit(0.0)
F1 = f64lit(1.0)
F360 = f64lit(360.0)
F720 = f64lit(720.0)
FM360 = f64lit(-360.0)


# ------------------------------------------------------------------ call models

def m_abs(ex, st, c, a, d):
    return sym.Scalar("f64", "(fp.abs %s)" % a[0].term)


def m_is_negative(ex, st, c, a, d):
    w = a[0].sort[1]
    return sym.mk_bool("(bvslt %s %s)" % (a[0].term, bvlit(0, w)))


def m_is_positive(ex, st, c, a, d):
    w = a[0].sort[1]
    return sym.mk_bool("(bvsgt %s %s)" % (a[0].term, bvlit(0, w)))


def m_unsigned_abs(ex, st, c, a, d):
    w = a[0].sort[1]
    t = a[0].term
    return sym.Scalar(("bv", w, False), "(ite (bvslt %s %s) (bvneg %s) %s)" % (t, bvlit(0, w), t, t))


def m_saturating_sub_u(ex, st, c, a, d):
    x, y = a[0].term, a[1].term
    w = a[0].sort[1]
    return sym.Scalar(a[0].sort, "(ite (bvult %s %s) %s (bvsub %s %s))" % (x, y, bvlit(0, w), x, y))


def m_min_u(ex, st, c, a, d):
    x, y = a[0].term, a[1].term
    return sym.Scalar(a[0].sort, "(ite (bvule %s %s) %s %s)" % (x, y, x, y))


def m_clamp_f(ex, st, c, a, d):
    # f64::clamp(self, min, max): NaN stays NaN (panics if min > max: callers pass constants)
    x, lo, hi = a[0].term, a[1].term, a[2].term
    return sym.Scalar("f64", "(ite (fp.lt %s %s) %s (ite (fp.gt %s %s) %s %s))" % (x, lo, lo, x, hi, hi, x))


def m_fmax(ex, st, c, a, d):
    x, y = a[0].term, a[1].term
    # f64::max: NaN-ignoring
    return sym.Scalar("f64", "(ite (fp.isNaN %s) %s (ite (fp.isNaN %s) %s (ite (fp.lt %s %s) %s %s)))" % (x, y, y, x, x, y, y, x))


def m_fmin(ex, st, c, a, d):
    x, y = a[0].term, a[1].term
    return sym.Scalar("f64", "(ite (fp.isNaN %s) %s (ite (fp.isNaN %s) %s (ite (fp.lt %s %s) %s %s)))" % (x, y, y, x, y, x, y, x))


def m_try_branch(ex, st, c, a, d):
    """<Result<T,E> as Try>::branch: Ok(v) -> Continue(v), Err(e) -> Break(Err(e))"""
    x = a[0]
    if isinstance(x, sym.Agg):
        if x.variant == "Ok":
            return sym.Agg(d, "Continue", {"0": x.fields["0"]}, 0)
        if x.variant == "Err":
            return sym.Agg(d, "Break", {"0": x}, 1)
        raise sym.Unsupported("Try::branch on %r" % (x,))
    if isinstance(x, sym.Opaque):
        cf = sym.Opaque(d or "ControlFlow", x.name + ".branch", ex.ctx)
        cf.alias_disc = x
        # payloads: Continue.0 is the Ok payload (type from the ControlFlow type), Break.0 the residual
        m = re.search(r"ControlFlow<(.*)>$", (d or "").strip())
        ok_ty = "?"
        if m:
            parts = sym.split_top(m.group(1))
            if len(parts) == 2:
                ok_ty = parts[1]
        cf.children["Continue.0"] = x.child("Ok.0", ok_ty)
        cf.children["Break.0"] = sym.Opaque("residual", x.name + ".residual", ex.ctx)
        return cf
    raise sym.Unsupported("Try::branch on %r" % (x,))


def m_from_residual(ex, st, c, a, d):
    st.events.append(sym.Event("from_residual", a, None, len(st.pc)))
    return sym.Agg(d or "Result", "Err", {"0": a[0] if a else sym.Unit()}, 1)


def m_identity(ex, st, c, a, d):
    return a[0]


BASE_MODELS = [
    (r"core::f64::<impl f64>::abs$", m_abs),
    (r"core::num::<impl i64>::is_negative$", m_is_negative),
    (r"core::num::<impl i64>::is_positive$", m_is_positive),
    (r"core::num::<impl i64>::unsigned_abs$", m_unsigned_abs),
    (r"core::num::<impl usize>::saturating_sub$", m_saturating_sub_u),
    (r"^std::cmp::min::<usize>$", m_min_u),
    (r"core::f64::<impl f64>::clamp$", m_clamp_f),
    (r"core::f64::<impl f64>::max$", m_fmax),
    (r"core::f64::<impl f64>::min$", m_fmin),
    (r"^f64::max$", m_fmax),
    (r"^f64::min$", m_fmin),
    (r" as Try>::branch$", m_try_branch),
    (r" as FromResidual<.*>>::from_residual$", m_from_residual),
]


class Rec:
    """Evidence record of one kernel."""

    def __init__(self, kernel, func, engine):
        self.kernel = kernel
        self.func = func
        self.E = engine
        self.obligations = []
        self.notes = []
        self.paths = 0
        self.events = []

    def add(self, desc, result, extra=None, shrink=None):
        """shrink = (ctx, assertions, small_constraints, model_names): when violated, prefer a small witness"""
        if shrink is not None and result["verdict"] == "violated":
            ctx, assertions, small, names = shrink
            r2 = self.E.decide(ctx, assertions + small, model_names=names)
            if r2["verdict"] == "violated":
                result = dict(result)
                result["model"] = r2["model"]
        o = {"obligation": desc, "verdict": result["verdict"], "solvers": result["per_solver"], "time_s": result["time_s"]}
        if result.get("model"):
            o["model"] = result["model"]
        if extra:
            o.update(extra)
        self.obligations.append(o)
        return o

    def to_dict(self):
        bad = [o for o in self.obligations if o["verdict"] != "holds"]
        status = "pass"
        if any(o["verdict"] == "violated" for o in bad):
            status = "fail"
        elif bad or not self.obligations:
            status = "inconclusive"
        return {
            "engine": "E2",
            "harness": self.kernel,
            "function": self.func.name if self.func else None,
            "mir_line": self.func.line if self.func else None,
            "mir_blake2b": __import__("hashlib").blake2b(self.func.source().encode(), digest_size=8).hexdigest() if self.func else None,
            "status": status,
            "paths": self.paths,
            "n_checks": len(self.obligations),
            "n_checks_success": sum(1 for o in self.obligations if o["verdict"] == "holds"),
            "obligations": self.obligations,
            "events": self.events[:40],
            "notes": self.notes,
            "solver_time_s": round(sum(o["time_s"] for o in self.obligations), 3),
            "covers": [{"label": "kernel reached a return on %d path(s)" % self.paths, "status": "SATISFIED" if self.paths else "UNSATISFIABLE"}],
            "reason": "; ".join(o["obligation"] + ": " + o["verdict"] for o in bad)[:600],
        }


def panic_obligations(E, ctx, rec, paths, solvers=("z3", "cvc5"), timeout_s=30, assume=(), lift=None):
    """Every `assert` terminator (overflow, bounds, ...) met on a feasible path must hold."""
    seen = set()
    for p in paths:
        for kind, neg, desc, pc in p.obligations:
            key = (desc, neg, tuple(pc))
            if key in seen:
                continue
            seen.add(key)
            r = E.decide(ctx, list(assume) + pc + [neg], solvers=solvers, timeout_s=timeout_s, model_names=[n for n, _ in ctx.decls][:12])
            rec.add("no panic: " + desc, r, {"lift": lift} if lift else None)


# ------------------------------------------------------------------ kernels

def k_deg_mod(E, tier):
    """C31/C32: deg_mod returns a hue in [0,360) for every finite input and is
    bit-equal to the Kani stub (stubs.rs::deg_mod_exact) on [-360, 720]."""
    f = E.find(name="deg_mod")
    rec = Rec("deg_mod", f, E)
    ctx = E.ctx()
    v = ctx.fresh_scalar("f64", "v")
    ex = sym.Executor(ctx, models=BASE_MODELS)
    paths = [p for p in ex.run(f, [v]) if p.status == "return"]
    rec.paths = len(paths)
    t = v.term
    finite = ["(not (fp.isNaN %s))" % t, "(not (fp.isInfinite %s))" % t]
    cap = 120 if tier == "quick" else 600
    # the Kani stub, transcribed (see /verif/kani/src/stubs.rs)
    r360 = "(fp.add RNE %s %s)" % (t, F360)
    stub = (
        "(ite (and (fp.geq {t} {z}) (fp.lt {t} {c})) (ite (fp.eq {t} {z}) {z} {t}) "
        "(ite (and (fp.geq {t} {c}) (fp.leq {t} {d})) (ite (fp.eq {t} {d}) {z} (fp.sub RNE {t} {c})) "
        "(ite (fp.geq {r} {c}) {z} {r})))"
    ).format(t=t, z=F0, c=F360, d=F720, r=r360)
    pieces = [(0.0, 180.0, True)] if tier == "quick" else [
        (0.0, 180.0, True), (180.0, 360.0, False), (360.0, 540.0, False), (540.0, 720.0, True), (-180.0, 0.0, False), (-360.0, -180.0, True)]
    for i, p in enumerate(paths):
        ret = p.ret.term
        r = E.decide(ctx, p.pc + finite + ["(not (and (fp.geq %s %s) (fp.lt %s %s)))" % (ret, F0, ret, F360)],
                     solvers=("cvc5",), timeout_s=cap * 2, model_names=[t])
        rec.add("path %d: finite v => 0 <= deg_mod(v) < 360" % i, r, {"lift": "deg_mod"})
        r = E.decide(ctx, p.pc + ["(or (fp.isNaN %s) (fp.isInfinite %s))" % (t, t), "(not (fp.isNaN %s))" % ret],
                     solvers=("cvc5",), timeout_s=cap * 2, model_names=[t])
        rec.add("path %d: NaN/infinite v => NaN (as the stub)" % i, r)
        for lo, hi, closed in pieces:
            rng = ["(fp.geq %s %s)" % (t, f64lit(lo)), ("(fp.leq %s %s)" if closed and hi == 720.0 else "(fp.lt %s %s)") % (t, f64lit(hi))]
            # is this piece on this path at all?  (cheap: the path condition is the sign of fmod(v,360))
            neg_path = any("(not (not (fp.lt" in c or c.startswith("(fp.lt") for c in p.pc) and not any(c.startswith("(not (fp.lt") for c in p.pc)
            if (lo < 0) != neg_path:
                continue
            r = E.decide(ctx, p.pc + rng + ["(not (= %s %s))" % (ret, stub)], solvers=("cvc5",), timeout_s=1800 if tier != "quick" else cap * 2,
                         model_names=[t])
            rec.add("path %d: %g <= v %s %g => deg_mod(v) is bit-equal to the Kani stub deg_mod_exact(v)" % (i, lo, "<=" if closed and hi == 720.0 else "<", hi),
                    r, {"lift": "deg_mod"})
    if tier == "quick":
        rec.notes.append("quick tier discharges the stub's exact part only on [0,180); the other five pieces of [-360,720] take 5-11 min each "
                         "with cvc5 and run in the thorough tier (all six were decided unsat while building: 54-660 s)")
    rec.notes.append("float `%` encoded as exact C fmod built from fp.rem (smt.PREAMBLE)")
    return rec


def k_index_of(E, tier):
    """C28: list::index_of maps 1..=len to n-1, -len..=-1 to len+n, errors otherwise; never overflows."""
    f = E.find(name="index_of", contains=["List index may not be 0."])
    rec = Rec("list::index_of", f, E)
    ctx = E.ctx()
    v = sym.Opaque("css::value::Value", "v", ctx)
    ln = ctx.fresh_scalar(("bv", 64, False), "len")
    n = ctx.fresh_scalar(("bv", 64, True), "n")

    def m_unitless_int(ex, st, c, a, d):
        # check::unitless_int: Ok(arbitrary i64) or Err
        ok = st.fork()
        ok.events.append(sym.Event("unitless_int", a, n, len(ok.pc)))
        err = st.fork()
        return [(ok, sym.Agg(d, "Ok", {"0": n}, 0)), (err, sym.Agg(d, "Err", {"0": sym.Opaque("String", "e", ctx)}, 1))]

    models = [(r"^unitless_int$", m_unitless_int)] + BASE_MODELS
    ex = sym.Executor(ctx, models=models, feasibility=E.feasibility(ctx))
    paths = [p for p in ex.run(f, [v, ln]) if p.status == "return"]
    rec.paths = len(paths)
    L, N = ln.term, n.term
    bound = ["(bvule %s %s)" % (L, bvlit(1 << 32, 64))]
    panic_obligations(E, ctx, rec, paths, assume=bound)
    Ls = L  # len as i64 (same bits, len <= 2^32)
    in_pos = "(and (bvsge {n} {one}) (bvsle {n} {l}))".format(n=N, one=bvlit(1, 64), l=Ls)
    in_neg = "(and (bvsle {n} {m1}) (bvsge {n} (bvneg {l})))".format(n=N, m1=bvlit(-1, 64), l=Ls)
    for i, p in enumerate(paths):
        if not any(e.callee == "unitless_int" for e in p.events):
            continue  # argument was not an integer: error propagated
        if isinstance(p.ret, sym.Agg) and p.ret.variant == "Ok":
            idx = p.ret.fields["0"].term
            small = ["(bvule %s %s)" % (L, bvlit(8, 64)), "(bvsle %s %s)" % (N, bvlit(20, 64)), "(bvsge %s %s)" % (N, bvlit(-20, 64))]
            q = bound + p.pc + ["(not (or %s %s))" % (in_pos, in_neg)]
            rec.add("path %d: Ok only for 1..=len or -len..=-1" % i, E.decide(ctx, q, model_names=[N, L]), {"lift": "nth"}, (ctx, q, small, [N, L]))
            q = bound + p.pc + [in_pos, "(not (= %s (bvsub %s %s)))" % (idx, N, bvlit(1, 64))]
            rec.add("path %d: positive n addresses element n-1" % i, E.decide(ctx, q, model_names=[N, L]), {"lift": "nth"}, (ctx, q, small, [N, L]))
            q = bound + p.pc + [in_neg, "(not (= %s (bvadd %s %s)))" % (idx, Ls, N)]
            rec.add("path %d: negative n addresses element len+n" % i, E.decide(ctx, q, model_names=[N, L]), {"lift": "nth"}, (ctx, q, small, [N, L]))
            r = E.decide(ctx, bound + p.pc + ["(not (bvult %s %s))" % (idx, L)], model_names=[N, L])
            rec.add("path %d: returned index is < len (the list[i] that follows cannot panic)" % i, r)
        elif isinstance(p.ret, sym.Agg) and p.ret.variant == "Err":
            small = ["(bvule %s %s)" % (L, bvlit(8, 64)), "(bvsle %s %s)" % (N, bvlit(20, 64)), "(bvsge %s %s)" % (N, bvlit(-20, 64))]
            q = bound + p.pc + ["(or %s %s)" % (in_pos, in_neg)]
            rec.add("path %d: Err only outside 1..=len and -len..=-1" % i, E.decide(ctx, q, model_names=[N, L]), {"lift": "nth"}, (ctx, q, small, [N, L]))
        else:
            rec.notes.append("path %d returns %r" % (i, p.ret))
            rec.add("path %d: return value has a known shape" % i, {"verdict": "inconclusive", "per_solver": {}, "time_s": 0})
    return rec


def _string_fn_setup(E, ctx):
    """Common modelling for the sass:string closures: the string is opaque,
    `chars().count()` is an arbitrary len <= 2^32, integer arguments arbitrary."""
    ln = ctx.fresh_scalar(("bv", 64, False), "len")
    ints = {}

    def m_get(ex, st, c, a, d):
        # ResolvedArgs::get / get_map: Ok(value) or Err(CallError)
        name = None
        for x in a:
            if isinstance(x, sym.Opaque) and x.name.startswith("name:"):
                name = x.name[5:]
        ok = st.fork()
        err = st.fork()
        m = re.search(r"Result<(.*), (?:sass::functions::call_error::)?CallError>$", (d or "").strip())
        ok_ty = m.group(1) if m else "?"
        if sym.sort_of_type(ok_ty) is not None:
            if name not in ints:
                ints[name] = ctx.fresh_scalar(sym.sort_of_type(ok_ty), "arg." + str(name))
            val = ints[name]
        else:
            val = sym.Opaque(ok_ty, "arg." + str(name), ctx)
        ok.events.append(sym.Event("get:" + str(name), a, val, len(ok.pc)))
        return [(ok, sym.Agg(d, "Ok", {"0": val}, 0)), (err, sym.Agg(d, "Err", {"0": sym.Opaque("CallError", "e", ctx)}, 1))]

    def m_name(ex, st, c, a, d):
        s = a[0].s if a and isinstance(a[0], sym.ConstStr) else "?"
        return sym.Opaque("Name", "name:" + s, ctx)

    def m_count(ex, st, c, a, d):
        st.events.append(sym.Event("chars().count()", a, ln, len(st.pc)))
        return ln

    def m_chars(ex, st, c, a, d):
        o = sym.Opaque("Chars", "chars(%s)" % getattr(a[0], "name", "?"), ctx)
        st.events.append(sym.Event("chars", a, o, len(st.pc)))
        return o

    models = [
        (r"^ResolvedArgs::get(_map)?::<", m_get),
        (r"^Name::from_static$", m_name),
        (r"<Chars<'_> as Iterator>::count$", m_count),
        (r"core::str::<impl str>::chars$", m_chars),
    ] + BASE_MODELS
    return ln, ints, models


def _ev(p, name):
    return [e for e in p.events if e.callee == name or e.callee.endswith(name)]


def k_str_slice(E, tier):
    """C26: string.slice index arithmetic (code points, 1-based, negatives from the end)."""
    f = E.find(name_re=r"string::create_module::\{closure#\d+\}$", contains=['const "start_at"', 'const "end_at"'])
    rec = Rec("string.slice closure", f, E)
    ctx = E.ctx()
    ln, ints, models = _string_fn_setup(E, ctx)
    ex = sym.Executor(ctx, models=models, feasibility=E.feasibility(ctx))
    closure = sym.Opaque("closure", "self", ctx)
    s = sym.Opaque("&ResolvedArgs", "s", ctx)
    allp = ex.run(f, [closure, s])
    paths = [p for p in allp if p.status == "return"]
    rec.paths = len(paths)
    L = ln.term
    bound = ["(bvule %s %s)" % (L, bvlit(1 << 32, 64))]
    panic_obligations(E, ctx, rec, paths, assume=bound)
    done = 0
    for i, p in enumerate(paths):
        skips = [e for e in p.events if e.callee.endswith("Iterator>::skip")]
        takes = [e for e in p.events if e.callee.endswith("Iterator>::take")]
        is_ok = isinstance(p.ret, sym.Agg) and p.ret.variant == "Ok"
        got_both = "start_at" in ints and "end_at" in ints and any(e.callee == "get:end_at" for e in p.events)
        if not got_both:
            continue  # an argument lookup failed: error propagated
        a, b = ints["start_at"].term, ints["end_at"].term
        if not is_ok:
            small = ["(bvule %s %s)" % (L, bvlit(8, 64))] + ["(and (bvsle %s %s) (bvsge %s %s))" % (t, bvlit(12, 64), t, bvlit(-12, 64)) for t in (a, b)]
            q = bound + p.pc
            rec.add("path %d: no error result once all arguments are integers (empty ranges give an empty string)" % i,
                    E.decide(ctx, q, model_names=[a, b, L]), {"lift": "str-slice"}, (ctx, q, small, [a, b, L]))
            continue
        if len(skips) != 1 or len(takes) != 1:
            rec.notes.append("path %d: expected one skip and one take, got %d/%d" % (i, len(skips), len(takes)))
            rec.add("path %d: result is chars().skip(a).take(b)" % i, {"verdict": "inconclusive", "per_solver": {}, "time_s": 0})
            continue
        done += 1
        sk, tk = skips[0].args[1].term, takes[0].args[1].term
        # reference model (Sass): i' = i<0 ? len+i+1 : i ; clamp start to >= 1; end clamp to <= len;
        # window = code points start'..=end' (1-based), empty if end' < start'
        # as 0-based skip/take:  skip = min(max(start',1)-1, len), take = max(0, min(end',len) - skip)
        W = 66
        sx = lambda t: "((_ sign_extend 2) %s)" % t
        zx = lambda t: "((_ zero_extend 2) %s)" % t
        lit = lambda v: bvlit(v, W)
        Lw = zx(L)
        def norm(t):
            return "(ite (bvslt {t} {z}) (bvadd (bvadd {l} {t}) {one}) {t})".format(t=sx(t), z=lit(0), l=Lw, one=lit(1))
        st_ = norm(a)
        en_ = norm(b)
        st1 = "(ite (bvslt {s} {one}) {one} {s})".format(s=st_, one=lit(1))
        want_skip = "(ite (bvsgt (bvsub {s} {one}) {l}) {l} (bvsub {s} {one}))".format(s=st1, one=lit(1), l=Lw)
        en1 = "(ite (bvsgt {e} {l}) {l} {e})".format(e=en_, l=Lw)
        want_take = "(ite (bvslt (bvsub {e} {sk}) {z}) {z} (bvsub {e} {sk}))".format(e=en1, sk=want_skip, z=lit(0))
        # what the real code yields is the window [skip, skip+take) intersected with [0, len)
        eff_lo = "(ite (bvugt {sk} {l}) {l} {sk})".format(sk=zx(sk), l=Lw)
        eff_hi0 = "(bvadd {lo} {tk})".format(lo=zx(sk), tk=zx(tk))
        eff_hi = "(ite (bvugt {h} {l}) {l} (ite (bvult {h} {lo}) {lo} {h}))".format(h=eff_hi0, l=Lw, lo=eff_lo)
        want_lo = want_skip
        want_hi = "(bvadd %s %s)" % (want_skip, want_take)
        same = "(or (and (= {a} {b}) (= {c} {d})) (and (= {a} {c}) (= {b} {d})))".format(a=eff_lo, b=want_lo, c=eff_hi, d=want_hi)
        same = "(or (and (= {elo} {wlo}) (= {ehi} {whi})) (and (= {elo} {ehi}) (= {wlo} {whi})))".format(
            elo=eff_lo, ehi=eff_hi, wlo=want_lo, whi=want_hi)
        small = ["(bvule %s %s)" % (L, bvlit(8, 64))] + ["(and (bvsle %s %s) (bvsge %s %s))" % (t, bvlit(12, 64), t, bvlit(-12, 64)) for t in (a, b)]
        q = bound + p.pc + ["(not %s)" % same]
        rec.add("path %d: the code points kept are exactly those of the Sass window (both empty, or same bounds)" % i,
                E.decide(ctx, q, model_names=[a, b, L]), {"lift": "str-slice"}, (ctx, q, small, [a, b, L]))
        # quotedness: CssString::new(part, string.quotes())
        news = [e for e in p.events if e.callee == "CssString::new"]
        quotes = [e for e in p.events if e.callee == "CssString::quotes"]
        ok = len(news) == 1 and len(quotes) == 1 and news[0].args[1] is quotes[0].result
        rec.add("path %d: result is built with the quotes() of the string argument" % i,
                {"verdict": "holds" if ok else "violated", "per_solver": {"structural": "event identity"}, "time_s": 0})
        chars = [e for e in p.events if e.callee == "chars"]
        rec.add("path %d: counting and slicing both iterate chars() (code points), not bytes" % i,
                {"verdict": "holds" if len(chars) >= 1 and _ev(p, "chars().count()") else "violated",
                 "per_solver": {"structural": "event kinds"}, "time_s": 0})
    if done == 0:
        rec.add("at least one Ok path with skip/take events", {"verdict": "inconclusive", "per_solver": {}, "time_s": 0})
    rec.events = sorted({e.callee[:70] for p in paths for e in p.events})
    return rec


def k_str_insert(E, tier):
    """C26: string.insert takes min(max(index', 0), len) code points before the inserted text."""
    f = E.find(name_re=r"string::create_module::\{closure#\d+\}$", contains=['const "insert"', 'const "index"'])
    rec = Rec("string.insert closure", f, E)
    ctx = E.ctx()
    ln, ints, models = _string_fn_setup(E, ctx)
    ex = sym.Executor(ctx, models=models, feasibility=E.feasibility(ctx))
    allp = ex.run(f, [sym.Opaque("closure", "self", ctx), sym.Opaque("&ResolvedArgs", "s", ctx)])
    paths = [p for p in allp if p.status == "return"]
    rec.paths = len(paths)
    L = ln.term
    bound = ["(bvule %s %s)" % (L, bvlit(1 << 32, 64))]
    panic_obligations(E, ctx, rec, paths, assume=bound)
    done = 0
    for i, p in enumerate(paths):
        if "index" not in ints or not any(e.callee == "get:index" for e in p.events):
            continue
        if not (isinstance(p.ret, sym.Agg) and p.ret.variant == "Ok"):
            rec.add("path %d: insert succeeds for every integer index" % i, E.decide(ctx, bound + p.pc, model_names=[ints["index"].term, L]))
            continue
        takes = [e for e in p.events if e.callee.endswith("Iterator>::take")]
        if len(takes) != 1:
            rec.add("path %d: one take(index) event" % i, {"verdict": "inconclusive", "per_solver": {}, "time_s": 0})
            continue
        done += 1
        n = ints["index"].term
        tk = takes[0].args[1].term
        W = 66
        sx = lambda t: "((_ sign_extend 2) %s)" % t
        zx = lambda t: "((_ zero_extend 2) %s)" % t
        lit = lambda v: bvlit(v, W)
        Lw = zx(L)
        # Sass: positive index i inserts before code point i (i-1 code points precede it); 0 behaves as 1;
        # negative index i counts from the end: len + i + 1 code points precede; all clamped to 0..len
        before = "(ite (bvsgt {n} {z}) (bvsub {n} {one}) (ite (= {n} {z}) {z} (bvadd (bvadd {l} {n}) {one})))".format(
            n=sx(n), z=lit(0), one=lit(1), l=Lw)
        want = "(ite (bvslt {b} {z}) {z} (ite (bvsgt {b} {l}) {l} {b}))".format(b=before, z=lit(0), l=Lw)
        eff = "(ite (bvugt {t} {l}) {l} {t})".format(t=zx(tk), l=Lw)
        small = ["(bvule %s %s)" % (L, bvlit(8, 64)), "(and (bvsle %s %s) (bvsge %s %s))" % (n, bvlit(12, 64), n, bvlit(-12, 64))]
        q = bound + p.pc + ["(not (= %s %s))" % (eff, want)]
        rec.add("path %d: the text is inserted after min(max(index',0),len) code points" % i,
                E.decide(ctx, q, model_names=[n, L]), {"lift": "str-insert"}, (ctx, q, small, [n, L]))
        news = [e for e in p.events if e.callee == "CssString::new"]
        quotes = [e for e in p.events if e.callee == "CssString::quotes"]
        ok = len(news) == 1 and len(quotes) == 1 and news[0].args[1] is quotes[0].result
        rec.add("path %d: result is built with the quotes() of the string argument" % i,
                {"verdict": "holds" if ok else "violated", "per_solver": {"structural": "event identity"}, "time_s": 0})
        lens = [e.callee for e in p.events if re.search(r"str>::len$|String::len$|::len$", e.callee)]
        rec.add("path %d: positions are counted in chars() (code points); no byte length is consulted" % i,
                {"verdict": "holds" if (not lens and any(e.callee == "chars" for e in p.events)) else "violated",
                 "per_solver": {"structural": "events %s" % lens}, "time_s": 0})
    if done == 0:
        rec.add("at least one Ok path with a take event", {"verdict": "inconclusive", "per_solver": {}, "time_s": 0})
    rec.events = sorted({e.callee[:70] for p in paths for e in p.events})
    return rec


def k_unique_id(E, tier):
    """C06: one step of unique-id() from an arbitrary counter state, and the atomicity discipline of that
    step: every access to the counter lies inside one lock()..drop(guard) section, or the identifier is the
    result of a single atomic read-modify-write (so no other thread can get in between)."""
    f = E.find(name_re=r"string::create_module::\{closure#\d+\}$", contains=["new_lower_hex"])
    rec = Rec("string.unique-id closure", f, E)
    ctx = E.ctx()
    c0 = ctx.fresh_scalar(("bv", 64, False), "counter")

    def cell(st):
        if "cell" not in st.cells:
            st.cells["cell"] = c0
        return st.cells["cell"]

    def m_lock(ex, st, c, a, d):
        st.events.append(sym.Event("lock", a, None, len(st.pc)))
        cell(st)
        return sym.Opaque("MutexGuard", "guard", ctx)

    def m_unwrap(ex, st, c, a, d):
        return a[0]

    def m_deref_guard(ex, st, c, a, d):
        st.events.append(sym.Event("guard-deref", a, None, len(st.pc)))
        cell(st)
        return sym.Ref("cell", "cell")

    def m_static_deref(ex, st, c, a, d):
        return sym.Opaque("&static", "CALL_ID", ctx)

    def m_fetch_add(ex, st, c, a, d):
        old = cell(st)
        st.cells["cell"] = sym.bin_op("Add", old, a[1])
        st.events.append(sym.Event("atomic-rmw", a, old, len(st.pc)))
        return old

    def m_atomic_load(ex, st, c, a, d):
        v = cell(st)
        st.events.append(sym.Event("atomic-load", a, v, len(st.pc)))
        return v

    def m_atomic_store(ex, st, c, a, d):
        cell(st)
        st.cells["cell"] = a[1]
        st.events.append(sym.Event("atomic-store", a, None, len(st.pc)))
        return sym.Unit()

    def m_hex(ex, st, c, a, d):
        v = ex.resolve_ref(st, a[0])
        o = sym.Opaque("Argument", "hexarg", ctx)
        st.events.append(sym.Event("new_lower_hex", [v], o, len(st.pc)))
        return o

    def m_thread_local(ex, st, c, a, d):
        st.events.append(sym.Event("thread-local", a, None, len(st.pc)))
        return ctx.fresh_value(d or "u64", "thread-local-value")

    def m_arguments(ex, st, c, a, d):
        o = sym.Opaque("Arguments", "fmtargs", ctx)
        st.events.append(sym.Event("Arguments::new", a, o, len(st.pc)))
        return o

    models = [
        (r"^std::sync::Mutex::<u64>::lock$", m_lock),
        (r"Result::<std::sync::MutexGuard<'_, u64>.*::unwrap$", m_unwrap),
        (r"<std::sync::MutexGuard<'_, u64> as Deref(Mut)?>::deref(_mut)?$", m_deref_guard),
        (r"<LazyLock<.*> as Deref>::deref$", m_static_deref),
        (r"Atomic(U64|::<u64>)::fetch_add$", m_fetch_add),
        (r"LocalKey::<.*>::(with|try_with|get|set)(::<.*>)?$", m_thread_local),
        (r"Atomic(U64|::<u64>)::load$", m_atomic_load),
        (r"Atomic(U64|::<u64>)::store$", m_atomic_store),
        (r"Argument::<'_>::new_lower_hex::<u64>$", m_hex),
        (r"^Arguments::<'_>::new::<", m_arguments),
    ] + BASE_MODELS
    ex = sym.Executor(ctx, models=models)
    paths = [p for p in ex.run(f, [sym.Opaque("closure", "self", ctx), sym.Opaque("&ResolvedArgs", "s", ctx)]) if p.status == "return"]
    rec.paths = len(paths)
    C = c0.term
    notmax = ["(not (= %s %s))" % (C, bvlit((1 << 64) - 1, 64))]
    panic_obligations(E, ctx, rec, paths, assume=notmax)
    for i, p in enumerate(paths):
        cellv = p.cells.get("cell")
        if cellv is None and any(e.callee == "thread-local" for e in p.events):
            rec.add("path %d: the counter is one per process (a thread_local! counter starts every thread from the same seed, so two threads return the same identifiers)" % i,
                    {"verdict": "violated", "per_solver": {"structural": "LocalKey::with"}, "time_s": 0})
            continue
        if cellv is None:
            rec.add("path %d: the call touches the process-wide counter (shape not recognised)" % i, {"verdict": "inconclusive", "per_solver": {"structural": "no counter access"}, "time_s": 0})
            continue
        r = E.decide(ctx, notmax + p.pc + ["(not (= %s (bvadd %s %s)))" % (cellv.term, C, bvlit(1, 64))], model_names=[C])
        rec.add("path %d: the counter cell holds c+1 after the call (strictly increasing, no wrap before 2^64 calls)" % i, r)
        hexes = [e for e in p.events if e.callee == "new_lower_hex"]
        ok = len(hexes) == 1 and isinstance(hexes[0].args[0], sym.Scalar)
        if ok:
            hv = hexes[0].args[0].term
            r = E.decide(ctx, notmax + p.pc + ["(not (or (= {h} (bvadd {c} {one})) (= {h} {c})))".format(h=hv, c=C, one=bvlit(1, 64))], model_names=[C])
            rec.add("path %d: the identifier is formatted from this call's own counter value (c or c+1), so successive calls differ" % i, r)
        else:
            rec.add("path %d: exactly one lower-hex formatted value (shape not recognised)" % i, {"verdict": "inconclusive", "per_solver": {"structural": "events"}, "time_s": 0})
        # atomicity discipline
        names = [e.callee for e in p.events]
        acc = [j for j, n in enumerate(names) if n in ("guard-deref", "store", "atomic-rmw", "atomic-load", "atomic-store")]
        locked = False
        if "lock" in names and any(e.callee == "drop" and "MutexGuard" in str(e.args[0]) for e in p.events):
            li = names.index("lock")
            di = max(j for j, e in enumerate(p.events) if e.callee == "drop" and "MutexGuard" in str(e.args[0]))
            locked = bool(acc) and all(li < j < di for j in acc)
        single_rmw = len(acc) == 1 and names[acc[0]] == "atomic-rmw"
        rec.add("path %d: the counter step is atomic: all accesses inside one lock()..drop(guard) section, or a single atomic read-modify-write" % i,
                {"verdict": "holds" if (locked or single_rmw) else "violated",
                 "per_solver": {"structural": "accesses=%s locked=%s" % ([names[j] for j in acc], locked)}, "time_s": 0})
        fmts = [e for e in p.events if e.callee == "Arguments::new"]
        tmpl = fmts[0].args[0].s if fmts and isinstance(fmts[0].args[0], sym.ConstStr) else None
        rec.add("path %d: the format template is \"x{:x}\": a letter then lower-hex digits (a CSS identifier; injective in the counter)" % i,
                {"verdict": "holds" if tmpl == 'b"\\x01x\\xc0\\x00"' else "violated", "per_solver": {"structural": "constant " + repr(tmpl)}, "time_s": 0})
    rec.notes.append("thread interleavings themselves are not explored (sequential engine); the atomicity obligation is a lockset-style discipline on the event order")
    return rec


def k_random(E, tier):
    """C06: math.random($limit) in [1, limit]; math.random() is fastrand::f64() unchanged."""
    f = E.find(name_re=r"math::create_module::\{closure#\d+\}$", contains=["fastrand::i64", "fastrand::f64"])
    rec = Rec("math.random closure", f, E)
    ctx = E.ctx()
    limit = ctx.fresh_scalar(("bv", 64, True), "limit")
    rnd = {}

    def m_get_opt(ex, st, c, a, d):
        # ResolvedArgs::get_opt_map(.., positive_int): Ok(None) | Ok(Some(v)) with v > 0 (positive_int inlined below) | Err
        if not any(isinstance(x, sym.FnItem) and x.name == "positive_int" for x in a):
            raise sym.Unsupported("random(): limit is no longer checked by positive_int")
        none = st.fork()
        some = st.fork()
        err = st.fork()
        some.events.append(sym.Event("limit", a, limit, len(some.pc)))
        return [
            (none, sym.Agg(d, "Ok", {"0": sym.Agg("Option<i64>", "None", {}, 0)}, 0)),
            (some, sym.Agg(d, "Ok", {"0": sym.Agg("Option<i64>", "Some", {"0": limit}, 1)}, 0)),
            (err, sym.Agg(d, "Err", {"0": sym.Opaque("CallError", "e", ctx)}, 1)),
        ]

    def m_rand_i64(ex, st, c, a, d):
        rng = a[0]
        lo, hi = rng.fields["start"], rng.fields["end"]
        r = ctx.fresh_scalar(("bv", 64, True), "fastrand")
        # documented contract of fastrand::i64(lo..hi): lo <= r < hi (panics on an empty range)
        st.obligations.append(("panic", "(not (bvslt %s %s))" % (lo.term, hi.term), "fastrand::i64: empty range", list(st.pc)))
        st.pc.append("(and (bvsle %s %s) (bvslt %s %s))" % (lo.term, r.term, r.term, hi.term))
        st.events.append(sym.Event("fastrand::i64", [lo, hi], r, len(st.pc)))
        return r

    def m_rand_f64(ex, st, c, a, d):
        r = ctx.fresh_scalar("f64", "fastrand_f")
        st.pc.append("(and (fp.geq %s %s) (fp.lt %s %s))" % (r.term, F0, r.term, F1))
        st.events.append(sym.Event("fastrand::f64", [], r, len(st.pc)))
        return r

    def m_scalar(ex, st, c, a, d):
        o = sym.Opaque("css::value::Value", "scalar", ctx)
        st.events.append(sym.Event("Value::scalar", a, o, len(st.pc)))
        return o

    models = [
        (r"^ResolvedArgs::get_opt_map::<i64", m_get_opt),
        (r"^fastrand::i64::<std::ops::Range<i64>>$", m_rand_i64),
        (r"^fastrand::f64$", m_rand_f64),
        (r"^css::value::Value::scalar::<", m_scalar),
        (r"^Name::from_static$", lambda ex, st, c, a, d: sym.Opaque("Name", "name", ctx)),
    ] + BASE_MODELS
    ex = sym.Executor(ctx, models=models, feasibility=E.feasibility(ctx))
    paths = [p for p in ex.run(f, [sym.Opaque("closure", "self", ctx), sym.Opaque("&ResolvedArgs", "s", ctx)]) if p.status == "return"]
    rec.paths = len(paths)
    # positive_int's contract, checked on its own MIR below: Ok(v) => v > 0
    pos = ["(bvsgt %s %s)" % (limit.term, bvlit(0, 64))]
    panic_obligations(E, ctx, rec, paths, assume=pos, lift="random")
    seen_int = seen_f = False
    for i, p in enumerate(paths):
        sc = [e for e in p.events if e.callee == "Value::scalar"]
        if any(e.callee == "fastrand::i64" for e in p.events):
            seen_int = True
            v = sc[0].args[0]
            r = E.decide(ctx, pos + p.pc + ["(not (and (bvsge %s %s) (bvsle %s %s)))" % (v.term, bvlit(1, 64), v.term, limit.term)],
                         model_names=[limit.term])
            rec.add("path %d: random($limit) is an integer in [1, $limit] for every limit in 1..=i64::MAX" % i, r, {"lift": "random"})
            ev = [e for e in p.events if e.callee == "fastrand::i64"][0]
            r = E.decide(ctx, pos + p.pc + ["(not (and (= %s %s) (= %s %s)))" % (ev.args[0].term, bvlit(0, 64), ev.args[1].term, limit.term)])
            rec.add("path %d: the generator is asked for 0..limit" % i, r)
        elif any(e.callee == "fastrand::f64" for e in p.events):
            seen_f = True
            ev = [e for e in p.events if e.callee == "fastrand::f64"][0]
            ok = len(sc) == 1 and sc[0].args[0] is ev.result
            rec.add("path %d: random() returns fastrand::f64() (contract: [0,1)) unchanged" % i,
                    {"verdict": "holds" if ok else "violated", "per_solver": {"structural": "event identity"}, "time_s": 0})
    if not (seen_int and seen_f):
        rec.add("both the integer and the float path are reached", {"verdict": "inconclusive", "per_solver": {}, "time_s": 0})
    # positive_int: Ok(v) implies v > 0
    g = E.find(name="positive_int")
    ctx2 = E.ctx()
    n2 = ctx2.fresh_scalar(("bv", 64, True), "n")

    def m_ui(ex, st, c, a, d):
        ok = st.fork()
        err = st.fork()
        return [(ok, sym.Agg(d, "Ok", {"0": n2}, 0)), (err, sym.Agg(d, "Err", {"0": sym.Opaque("String", "e", ctx2)}, 1))]

    ex2 = sym.Executor(ctx2, models=[(r"^unitless_int$", m_ui)] + BASE_MODELS)
    p2 = [p for p in ex2.run(g, [sym.Opaque("css::value::Value", "v", ctx2)]) if p.status == "return"]
    nok = 0
    for i, p in enumerate(p2):
        if isinstance(p.ret, sym.Agg) and p.ret.variant == "Ok":
            nok += 1
            r = E.decide(ctx2, p.pc + ["(not (bvsgt %s %s))" % (p.ret.fields["0"].term, bvlit(0, 64))], model_names=[n2.term])
            rec.add("positive_int path %d: Ok(v) implies v > 0" % i, r)
    if nok == 0:
        rec.add("positive_int has an Ok path", {"verdict": "inconclusive", "per_solver": {}, "time_s": 0})
    return rec


def k_set_nth(E, tier):
    """C28: set-nth writes exactly at index_of(n, len(list)) and keeps separator and brackets."""
    f = E.find(name_re=r"list::create_module::\{closure#\d+\}$", contains=["IndexMut<usize>>::index_mut", 'const "value"'])
    rec = Rec("list.set-nth closure", f, E)
    ctx = E.ctx()

    def m_get(ex, st, c, a, d):
        ok = st.fork()
        err = st.fork()
        name = [x.name for x in a if isinstance(x, sym.Opaque) and x.name.startswith("name:")]
        m = re.search(r"Result<(.*), (?:sass::functions::call_error::)?CallError>$", (d or "").strip())
        val = ctx.fresh_value(m.group(1) if m else "?", "arg." + (name[0][5:] if name else "?"))
        ok.events.append(sym.Event("get:" + (name[0][5:] if name else "?"), a, val, len(ok.pc)))
        return [(ok, sym.Agg(d, "Ok", {"0": val}, 0)), (err, sym.Agg(d, "Err", {"0": sym.Opaque("CallError", "e", ctx)}, 1))]

    def m_name(ex, st, c, a, d):
        return sym.Opaque("Name", "name:" + (a[0].s if isinstance(a[0], sym.ConstStr) else "?"), ctx)

    def m_index_mut(ex, st, c, a, d):
        st.events.append(sym.Event("index_mut", a, None, len(st.pc)))
        return sym.Ref("cell", "slot")

    models = [
        (r"^ResolvedArgs::get(_map)?::<", m_get),
        (r"^Name::from_static$", m_name),
        (r"IndexMut<usize>>::index_mut$", m_index_mut),
    ] + BASE_MODELS
    ex = sym.Executor(ctx, models=models, feasibility=E.feasibility(ctx))
    paths = [p for p in ex.run(f, [sym.Opaque("closure", "self", ctx), sym.Opaque("&ResolvedArgs", "s", ctx)]) if p.status == "return"]
    rec.paths = len(paths)
    okp = [p for p in paths if isinstance(p.ret, sym.Agg) and p.ret.variant == "Ok"]
    for i, p in enumerate(okp):
        gl = [e for e in p.events if e.callee == "get_list"]
        gn = [e for e in p.events if e.callee == "get:n"]
        gv = [e for e in p.events if e.callee == "get:value"]
        im = [e for e in p.events if e.callee == "index_mut"]
        stores = [e for e in p.events if e.callee == "store"]
        good = len(gl) == 1 and len(gn) == 1 and len(gv) == 1 and len(im) == 1 and len(stores) == 1
        detail = []
        if not good:
            rec.add("path %d: set-nth has the shape get_list / index closure / index_mut / store (not recognised)" % i,
                    {"verdict": "inconclusive", "per_solver": {"structural": "event counts"}, "time_s": 0})
            continue
        if good:
            # the closure handed to get_map("n") captures a reference to the list local that is indexed afterwards
            clos = [x for x in gn[0].args if isinstance(x, sym.Agg) and "list" in x.fields]
            cap = clos[0].fields["list"] if clos else None
            target = im[0].args[0]
            same_list = isinstance(cap, sym.Ref) and isinstance(target, sym.Ref) and cap.kind == "local" and cap.target == target.target
            idx_ok = im[0].args[1] is gn[0].result
            val_ok = stores[0].args[1] is gv[0].result
            lst = p.ret.fields["0"]
            keep = (isinstance(lst, sym.Agg) and lst.variant == "List"
                    and lst.fields["1"] is gl[0].result.children.get("1") and lst.fields["2"] is gl[0].result.children.get("2")
                    and lst.fields["0"] is gl[0].result.children.get("0"))
            detail = [same_list, idx_ok, val_ok, keep]
            good = all(detail)
        rec.add("path %d: list[i] = value with i = the index computed for this very list; separator and brackets passed through" % i,
                {"verdict": "holds" if good else "violated", "per_solver": {"structural": "event identity %s" % detail}, "time_s": 0})
    if not okp:
        rec.add("an Ok path exists", {"verdict": "inconclusive", "per_solver": {}, "time_s": 0})
    # the captured closure: index_of(v, list.len())
    inner = [g for g in E.funcs if g.name.startswith(f.name + "::{closure#")]
    n_ok = 0
    for g in inner:
        ctx2 = E.ctx()

        def m_len(ex, st, c, a, d):
            o = ctx2.fresh_scalar(("bv", 64, False), "len")
            st.events.append(sym.Event("len", a, o, len(st.pc)))
            return o

        def m_io(ex, st, c, a, d):
            o = sym.Opaque(d, "index_of", ctx2)
            st.events.append(sym.Event("index_of", a, o, len(st.pc)))
            return o

        ex2 = sym.Executor(ctx2, models=[(r"^Vec::<css::value::Value>::len$", m_len), (r"^index_of$", m_io)] + BASE_MODELS)
        cl = sym.Opaque("&closure", "env", ctx2)
        v = sym.Opaque("css::value::Value", "v", ctx2)
        ps = [p for p in ex2.run(g, [cl, v]) if p.status == "return"]
        for p in ps:
            io = [e for e in p.events if e.callee == "index_of"]
            ln = [e for e in p.events if e.callee == "len"]
            ok = len(io) == 1 and len(ln) == 1 and io[0].args[0] is v and io[0].args[1] is ln[0].result and p.ret is io[0].result
            n_ok += ok
            rec.add("%s: returns index_of(v, len(captured list))" % g.name.split("::")[-1],
                    {"verdict": "holds" if ok else "violated", "per_solver": {"structural": "event identity"}, "time_s": 0})
    if n_ok == 0:
        rec.add("the index closure was found", {"verdict": "inconclusive", "per_solver": {}, "time_s": 0})
    return rec


def _truthy_term(E, ctx, v):
    """Sass truthiness of an opaque css::Value, from the enum declaration in the current source."""
    names = E.enum_variants["css::value::Value"]
    d = v.discriminant().term
    return "(not (or (= %s %s) (= %s %s)))" % (d, bvlit(names.index("False"), 64), d, bvlit(names.index("Null"), 64))


def k_is_true(E, tier):
    """C14: css::Value::is_true is false exactly for the False and Null variants (by name, from the source enum)."""
    E.load_enum("css/value.rs", "Value", "css::value::Value")
    f = E.find(name_re=r"^css::value::<impl at .*>::is_true$")
    rec = Rec("css::Value::is_true", f, E)
    ctx = E.ctx()
    v = sym.Opaque("css::value::Value", "v", ctx)
    ex = sym.Executor(ctx, models=BASE_MODELS, feasibility=E.feasibility(ctx))
    paths = [p for p in ex.run(f, [sym.Ref("val", v)]) if p.status == "return"]
    rec.paths = len(paths)
    want = _truthy_term(E, ctx, v)
    for i, p in enumerate(paths):
        r = E.decide(ctx, p.pc + ["(not (= %s %s))" % (p.ret.term, want)], model_names=[v.discriminant().term])
        rec.add("path %d: is_true(v) <=> v is neither False nor Null (all %d variants)" % (i, len(E.enum_variants["css::value::Value"])), r)
    return rec


def k_and_or(E, tier):
    """C14: Operator::eval's And/Or arms return one of the operands by identity, chosen by Sass truthiness."""
    E.load_enum("css/value.rs", "Value", "css::value::Value")
    ops = E.load_enum("value/operator.rs", "Operator")
    f = E.find(name_re=r"^operator::<impl at .*>::eval$")
    rec = Rec("Operator::eval (And, Or arms)", f, E)
    for opname in ("And", "Or"):
        ctx = E.ctx()
        a = sym.Opaque("css::value::Value", "a", ctx)
        b_ = sym.Opaque("css::value::Value", "b", ctx)
        op = sym.Agg("Operator", opname, {}, ops.index(opname))
        ex = sym.Executor(ctx, models=BASE_MODELS, inline=[r"^css::value::Value::is_true$"], feasibility=E.feasibility(ctx))
        paths = [p for p in ex.run(f, [sym.Ref("val", op), a, b_]) if p.status == "return"]
        rec.paths += len(paths)
        ta = _truthy_term(E, ctx, a)
        if not paths:
            rec.add("%s: a returning path exists" % opname, {"verdict": "inconclusive", "per_solver": {}, "time_s": 0})
        for i, p in enumerate(paths):
            ret = p.ret
            inner = None
            if isinstance(ret, sym.Agg) and ret.variant == "Ok":
                o = ret.fields["0"]
                if isinstance(o, sym.Agg) and o.variant == "Some":
                    inner = o.fields["0"]
            if inner is a:
                cond = "(not %s)" % ta if opname == "And" else ta
                which = "a"
            elif inner is b_:
                cond = ta if opname == "And" else "(not %s)" % ta
                which = "b"
            else:
                rec.add("%s path %d: result is Ok(Some(a)) or Ok(Some(b)) by identity (shape not recognised)" % (opname, i),
                        {"verdict": "inconclusive", "per_solver": {"structural": repr(ret)[:80]}, "time_s": 0})
                continue
            r = E.decide(ctx, p.pc + ["(not %s)" % cond], model_names=[a.discriminant().term])
            rec.add("%s path %d: yields %s exactly when Sass prescribes it (a %s)" % (opname, i, which,
                    ("falsy" if (opname == "And") == (which == "a") else "truthy")), r)
            # the other operand is not evaluated further / no calls other than is_true
            extra = [e.callee for e in p.events if e.callee not in ("drop",)]
            rec.add("%s path %d: no other operation on the operands" % (opname, i),
                    {"verdict": "holds" if not extra else "violated", "per_solver": {"structural": str(extra)[:80]}, "time_s": 0})
    if "css::value::<impl at" not in " ".join(ex.inlined):
        rec.notes.append("inlined: %s" % sorted(ex.inlined))
    return rec


def k_binop_short_circuit(E, tier):
    """C14: sass::BinOp::eval evaluates the right operand of and/or only when its value is needed."""
    E.load_enum("css/value.rs", "Value", "css::value::Value")
    ops = E.load_enum("value/operator.rs", "Operator")
    f = E.find(name_re=r"^sass::value::<impl at .*>::eval$", contains=["&sass::value::BinOp"])
    rec = Rec("sass::BinOp::eval (and/or)", f, E)
    for opname in ("And", "Or"):
        ctx = E.ctx()
        me = sym.Opaque("sass::value::BinOp", "self", ctx)
        # locate the fields by type in the struct the MIR reads: op is the Operator-typed field
        me.children["2"] = sym.Agg("Operator", opname, {}, ops.index(opname))
        evals = []

        def m_op_eq(ex, st, c, a, d):
            x = ex.deref(st, a[0]) if isinstance(a[0], sym.Ref) else a[0]
            y = ex.deref(st, a[1]) if isinstance(a[1], sym.Ref) else a[1]
            if isinstance(x, sym.Agg) and isinstance(y, sym.Agg) and x.disc is not None and y.disc is not None:
                return sym.mk_bool("true" if x.disc == y.disc else "false")
            raise sym.Unsupported("Operator == on %r %r" % (x, y))

        def m_do_eval(ex, st, c, a, d):
            who = ex.deref(st, a[0]) if isinstance(a[0], sym.Ref) else a[0]
            ok = st.fork()
            err = st.fork()
            val = sym.Opaque("css::value::Value", "val(%s)#%d" % (getattr(who, "name", "?"), len(st.events)), ctx)
            ok.events.append(sym.Event("do_evaluate", [who, a[2] if len(a) > 2 else None], val, len(ok.pc)))
            err.events.append(sym.Event("do_evaluate-err", [who], None, len(err.pc)))
            return [(ok, sym.Agg(d, "Ok", {"0": val}, 0)), (err, sym.Agg(d, "Err", {"0": sym.Opaque("Error", "e", ctx)}, 1))]

        def m_const_op(ex, st, c, a, d):
            return None

        models = [
            (r"<Operator as PartialEq>::eq$", m_op_eq),
            (r"^sass::value::Value::do_evaluate$", m_do_eval),
        ] + BASE_MODELS
        ex = sym.Executor(ctx, models=models, inline=[r"^css::value::Value::is_true$"], feasibility=E.feasibility(ctx))
        # `Operator::And` constants appear as promoted consts: give them their discriminant
        orig_const = ex.const

        def const(text, dest_ty=None, _o=orig_const):
            m = re.fullmatch(r"(?:value::operator::)?Operator::([A-Z][A-Za-z]*)", text.strip())
            if m and m.group(1) in ops:
                return sym.Agg("Operator", m.group(1), {}, ops.index(m.group(1)))
            return _o(text, dest_ty)

        ex.const = const
        paths = [p for p in ex.run(f, [sym.Ref("val", me), sym.Opaque("&ScopeRef", "scope", ctx), ctx.fresh_scalar("bool", "arith")]) if p.status == "return"]
        rec.paths += len(paths)
        a_op = me.children.get("0")
        b_op = me.children.get("4")
        seen = {"a": 0, "b": 0}
        for i, p in enumerate(paths):
            ev = [e for e in p.events if e.callee.startswith("do_evaluate")]
            if not ev or ev[0].args[0] is not a_op:
                rec.add("%s path %d: the left operand is evaluated first" % (opname, i),
                        {"verdict": "violated", "per_solver": {"structural": str([e.callee for e in ev])}, "time_s": 0})
                continue
            if ev[0].callee == "do_evaluate-err":
                ok = len(ev) == 1 and isinstance(p.ret, sym.Agg) and p.ret.variant == "Err"
                rec.add("%s path %d: an error in the left operand is returned and the right operand is not evaluated" % (opname, i),
                        {"verdict": "holds" if ok else "violated", "per_solver": {"structural": "events"}, "time_s": 0})
                continue
            va = ev[0].result
            ta = _truthy_term(E, ctx, va)
            need_b = ta if opname == "And" else "(not %s)" % ta
            if len(ev) == 1:
                seen["a"] += 1
                r = E.decide(ctx, p.pc + [need_b], model_names=[va.discriminant().term])
                rec.add("%s path %d: the right operand is skipped only when the left decides (%s)" % (opname, i, "falsy" if opname == "And" else "truthy"), r)
                ok = isinstance(p.ret, sym.Agg) and p.ret.variant == "Ok" and p.ret.fields["0"] is va
                rec.add("%s path %d: the result is the left value itself" % (opname, i),
                        {"verdict": "holds" if ok else "violated", "per_solver": {"structural": "identity"}, "time_s": 0})
            else:
                seen["b"] += 1
                okb = ev[1].args[0] is b_op and len(ev) == 2
                rec.add("%s path %d: the second evaluation is of the right operand, once" % (opname, i),
                        {"verdict": "holds" if okb else "violated", "per_solver": {"structural": "identity"}, "time_s": 0})
                r = E.decide(ctx, p.pc + ["(not %s)" % need_b], model_names=[va.discriminant().term])
                rec.add("%s path %d: the right operand is evaluated only when needed" % (opname, i), r)
                if ev[1].callee == "do_evaluate":
                    ok = isinstance(p.ret, sym.Agg) and p.ret.variant == "Ok" and p.ret.fields["0"] is ev[1].result
                    rec.add("%s path %d: the result is the right value itself" % (opname, i),
                            {"verdict": "holds" if ok else "violated", "per_solver": {"structural": "identity"}, "time_s": 0})
        if not (seen["a"] and seen["b"]):
            rec.add("%s: both the short-circuit and the evaluate-right path exist" % opname, {"verdict": "inconclusive", "per_solver": {}, "time_s": 0})
    return rec


def k_not(E, tier):
    """C14: the `not` arm of sass::Value::do_evaluate yields true exactly for false and null."""
    cssv = E.load_enum("css/value.rs", "Value", "css::value::Value")
    sassv = E.load_enum("sass/value.rs", "Value", "sass::value::Value")
    ops = E.load_enum("value/operator.rs", "Operator")
    f = E.find(name_re=r"^sass::value::<impl at .*>::do_evaluate$")
    rec = Rec("sass::Value::do_evaluate (unary not arm)", f, E)
    ctx = E.ctx()
    operand = sym.Opaque("sass::value::Value", "operand", ctx)
    me = sym.Agg("sass::value::Value", "UnaryOp",
                 {"0": sym.Agg("Operator", "Not", {}, ops.index("Not")), "1": sym.Opaque("Box<sass::value::Value>", "boxed", ctx)},
                 sassv.index("UnaryOp"))
    val = sym.Opaque("css::value::Value", "val", ctx)

    def m_do_eval(ex, st, c, a, d):
        ok = st.fork()
        err = st.fork()
        ok.events.append(sym.Event("do_evaluate(operand)", a, val, len(ok.pc)))
        return [(ok, sym.Agg(d, "Ok", {"0": val}, 0)), (err, sym.Agg(d, "Err", {"0": sym.Opaque("Error", "e", ctx)}, 1))]

    def m_box_deref(ex, st, c, a, d):
        return sym.Ref("val", operand)

    def m_box_new(ex, st, c, a, d):
        o = sym.Opaque("Box", "box", ctx)
        o.children["inner"] = a[0]
        return o

    def m_into_bool(ex, st, c, a, d):
        # <bool as Into<css::Value>>::into  ==  From<bool>: true -> True, false -> False
        t = sym.Agg("css::value::Value", "True", {}, cssv.index("True"))
        fl = sym.Agg("css::value::Value", "False", {}, cssv.index("False"))
        s1 = st.fork(); s1.pc.append(a[0].term)
        s2 = st.fork(); s2.pc.append("(not %s)" % a[0].term)
        return [(s1, t), (s2, fl)]

    models = [
        (r"^sass::value::Value::do_evaluate$", m_do_eval),
        (r"<Box<sass::value::Value> as Deref>::deref$", m_box_deref),
        (r"^Box::<css::value::Value>::new$", m_box_new),
        (r"<bool as Into<css::value::Value>>::into$", m_into_bool),
        (r"<bool as std::convert::Into<css::value::Value>>::into$", m_into_bool),
    ] + BASE_MODELS
    ex = sym.Executor(ctx, models=models, inline=[r"^css::value::Value::is_true$"], feasibility=E.feasibility(ctx), max_paths=20000)
    scope = sym.Opaque("ScopeRef", "scope", ctx)
    paths = [p for p in ex.run(f, [sym.Ref("val", me), scope, ctx.fresh_scalar("bool", "arith")]) if p.status == "return"]
    rec.paths = len(paths)
    D = val.discriminant().term
    falsy = "(or (= %s %s) (= %s %s))" % (D, bvlit(cssv.index("False"), 64), D, bvlit(cssv.index("Null"), 64))
    n = 0
    for i, p in enumerate(paths):
        if not any(e.callee == "do_evaluate(operand)" for e in p.events):
            continue
        n += 1
        ret = p.ret.fields.get("0") if isinstance(p.ret, sym.Agg) and p.ret.variant == "Ok" else None
        kind = ret.variant if isinstance(ret, sym.Agg) else None
        if kind == "True":
            r = E.decide(ctx, p.pc + ["(not %s)" % falsy], model_names=[D])
            rec.add("path %d: `not x` is true only when x is false or null" % i, r, {"lift": "not", "variants": cssv})
        elif kind == "False":
            r = E.decide(ctx, p.pc + [falsy], model_names=[D])
            rec.add("path %d: `not x` is false only when x is truthy" % i, r, {"lift": "not", "variants": cssv})
        else:
            # neither true nor false: the operator was not applied; which operand kinds reach this?
            r = E.decide(ctx, p.pc, model_names=[D])
            o = rec.add("path %d: `not x` evaluates to a boolean (this path returns %s)" % (i, kind or type(ret).__name__), r,
                        {"lift": "not", "variants": cssv})
            if o["verdict"] == "violated":
                # recorded finding C14-not-non-boolean-operand: only operands other than true/false/numbers
                handled = "(or %s)" % " ".join("(= %s %s)" % (D, bvlit(cssv.index(v), 64)) for v in ("True", "False", "Numeric"))
                o["region_excluded"] = E.decide(ctx, p.pc + [handled], model_names=[D])["verdict"]
    if n == 0:
        rec.add("the not arm was reached", {"verdict": "inconclusive", "per_solver": {}, "time_s": 0})
    return rec


def _color_fn_models(E, ctx, st_vals):
    """Modelling shared by the colour closures: arguments, Hsla accessors and constructors are events."""
    def m_get(ex, st, c, a, d):
        name = [x.name[5:] for x in a if isinstance(x, sym.Opaque) and x.name.startswith("name:")]
        nm = name[0] if name else "?"
        ok = st.fork()
        err = st.fork()
        m = re.search(r"Result<(.*), (?:sass::functions::call_error::)?CallError>$", (d or "").strip())
        ty = m.group(1) if m else "?"
        if nm not in st_vals:
            st_vals[nm] = ctx.fresh_value(ty, "arg." + nm)
        checker = [x.name for x in a if isinstance(x, sym.FnItem)]
        ok.events.append(sym.Event("get:" + nm, a, st_vals[nm], len(ok.pc)))
        ok.notes.append("checker:%s:%s" % (nm, ",".join(checker)))
        return [(ok, sym.Agg(d, "Ok", {"0": st_vals[nm]}, 0)), (err, sym.Agg(d, "Err", {"0": sym.Opaque("CallError", "e", ctx)}, 1))]

    def m_name(ex, st, c, a, d):
        return sym.Opaque("Name", "name:" + (a[0].s if isinstance(a[0], sym.ConstStr) else "?"), ctx)

    def m_accessor(ex, st, c, a, d):
        recv = a[0]
        while isinstance(recv, sym.Ref):
            recv = ex.deref(st, recv)
        key = "acc:" + c.split("::")[-1] + ":" + getattr(recv, "name", "?")
        if key not in st_vals:
            st_vals[key] = ctx.fresh_scalar("f64", key)
        st.events.append(sym.Event(c, [recv], st_vals[key], len(st.pc)))
        return st_vals[key]

    def m_to_hsla(ex, st, c, a, d):
        recv = a[0]
        while isinstance(recv, sym.Ref):
            recv = ex.deref(st, recv)
        o = sym.Opaque("Hsla", "hsla_of(%s)" % getattr(recv, "name", "?"), ctx)
        st.events.append(sym.Event("to_hsla", [recv], o, len(st.pc)))
        return o

    def m_cow_deref(ex, st, c, a, d):
        v = a[0]
        while isinstance(v, sym.Ref):
            v = ex.deref(st, v)
        return sym.Ref("val", v)

    def m_event(ex, st, c, a, d):
        o = ctx.fresh_value(d or "()", "ret." + c.split("::")[-1][:20])
        st.events.append(sym.Event(re.sub(r"::<.*", "", c), a, o, len(st.pc)))
        return o

    return [
        (r"^ResolvedArgs::get(_map)?::<", m_get),
        (r"^Name::from_static$", m_name),
        (r"^Hsla::(hue|sat|lum|alpha)$", m_accessor),
        (r"^Color::get_alpha$", m_accessor),
        (r"^Color::to_hsla$", m_to_hsla),
        (r"<Cow<'_, Hsla> as Deref>::deref$", m_cow_deref),
        (r"^Hsla::new$", m_event),
        (r"^Color::set_alpha$", m_event),
    ] + BASE_MODELS


def k_lighten_darken(E, tier):
    """C32: lighten/darken/desaturate hand Hsla::new the hue, the other channel and alpha unchanged and
    the moved channel = clamp(old +- amount, 0, 1)."""
    cands = [f for f in E.funcs if re.match(r"^hsl::expose::\{closure#\d+\}$", f.name)
             and "check_amount" in f.source() and "Hsla::new" in f.source() and "eval_inner" not in f.source()]
    rec = Rec("color lighten/darken/desaturate closures", cands[0] if cands else None, E)
    if len(cands) != 3:
        raise sym.Unsupported("expected the lighten, darken and desaturate closures, found %d" % len(cands))
    seen = set()
    for f in cands:
        src = f.source()
        ctx = E.ctx()
        vals = {}
        ex = sym.Executor(ctx, models=_color_fn_models(E, ctx, vals), feasibility=E.feasibility(ctx))
        paths = [p for p in ex.run(f, [sym.Opaque("closure", "self", ctx), sym.Opaque("&ResolvedArgs", "s", ctx)]) if p.status == "return"]
        rec.paths += len(paths)
        okp = [p for p in paths if isinstance(p.ret, sym.Agg) and p.ret.variant == "Ok"]
        for p in okp:
            new = [e for e in p.events if e.callee == "Hsla::new"]
            acc = {e.callee.split("::")[-1]: e for e in p.events if e.callee.startswith("Hsla::") and e.callee != "Hsla::new"}
            amt = vals.get("amount")
            if len(new) != 1 or amt is None or not {"hue", "alpha"} <= set(acc):
                rec.add("%s: one Hsla::new built from the colour's own channels (shape not recognised)" % f.name.split("::")[-1],
                        {"verdict": "inconclusive", "per_solver": {"structural": str(sorted(acc))}, "time_s": 0})
                continue
            h, s_, l_, a_ = [x for x in new[0].args[:4]]
            moved_lum = "lum" in acc and isinstance(l_, sym.Scalar) and l_ is not acc["lum"].result
            which = "lum" if moved_lum else "sat"
            old = acc[which].result.term
            up = "Add(" in src
            kind = ("lighten" if up else "darken") if which == "lum" else ("saturate" if up else "desaturate")
            seen.add(kind)
            same = (h is acc["hue"].result) and (a_ is acc["alpha"].result) and ((s_ is acc["sat"].result) if which == "lum" else (l_ is acc["lum"].result))
            rec.add("%s: hue, alpha and the other channel are passed to Hsla::new unchanged" % kind,
                    {"verdict": "holds" if same else "violated", "per_solver": {"structural": "event identity"}, "time_s": 0})
            moved = (l_ if which == "lum" else s_).term
            t = amt.term
            rng = ["(fp.geq %s %s)" % (x, F0) for x in (old, t)] + ["(fp.leq %s %s)" % (x, F1) for x in (old, t)]
            raw = "(fp.%s RNE %s %s)" % ("add" if up else "sub", old, t)
            want = "(ite (fp.lt {r} {z}) {z} (ite (fp.gt {r} {o}) {o} {r}))".format(r=raw, z=F0, o=F1)
            if which == "sat":
                # Hsla::new floors the saturation at 0 itself (E1: c31_hsla_new_ranges)
                want2 = "(or (= {m} {w}) (and (= {m} {r}) (fp.leq {r} {o})))".format(m=moved, w=want, r=raw, o=F1)
                q = p.pc + rng + ["(not %s)" % want2]
            else:
                q = p.pc + rng + ["(not (= %s %s))" % (moved, want)]
            r = E.decide(ctx, q, solvers=("z3", "cvc5"), timeout_s=60, model_names=[old, t])
            rec.add("%s: the channel moves by exactly the amount, clamped to 0..100%%" % kind, r, {"lift": "adjust:" + kind})
            chk = [n for n in p.notes if n.startswith("checker:amount:")]
            rec.add("%s: the amount is validated by check_amount (0..100%%)" % kind,
                    {"verdict": "holds" if chk and "check_amount" in chk[0] else "violated", "per_solver": {"structural": str(chk)}, "time_s": 0})
    if not {"lighten", "darken", "desaturate"} <= seen:
        rec.add("lighten, darken and desaturate were all identified (%s)" % sorted(seen), {"verdict": "inconclusive", "per_solver": {}, "time_s": 0})
    return rec


def k_fade(E, tier):
    """C32: opacify/fade-in and transparentize/fade-out set alpha to old +- amount on the same colour."""
    cands = [f for f in E.funcs if re.match(r"^other::expose::\{closure#\d+\}$", f.name)
             and "check_alpha_range" in f.source() and "Color::set_alpha" in f.source()]
    rec = Rec("color fade-in/fade-out closures", cands[0] if cands else None, E)
    if len(cands) != 2:
        raise sym.Unsupported("expected the fade_in and fade_out closures, found %d" % len(cands))
    seen = set()
    for f in cands:
        ctx = E.ctx()
        vals = {}
        ex = sym.Executor(ctx, models=_color_fn_models(E, ctx, vals), feasibility=E.feasibility(ctx))
        paths = [p for p in ex.run(f, [sym.Opaque("closure", "self", ctx), sym.Opaque("&ResolvedArgs", "s", ctx)]) if p.status == "return"]
        rec.paths += len(paths)
        for p in paths:
            if not (isinstance(p.ret, sym.Agg) and p.ret.variant == "Ok"):
                continue
            ga = [e for e in p.events if e.callee == "Color::get_alpha"]
            sa = [e for e in p.events if e.callee == "Color::set_alpha"]
            col = vals.get("color")
            amt = vals.get("amount")
            if len(ga) != 1 or len(sa) != 1 or col is None or amt is None:
                rec.add("%s: one get_alpha and one set_alpha (shape not recognised)" % f.name.split("::")[-1], {"verdict": "inconclusive", "per_solver": {"structural": "events"}, "time_s": 0})
                continue
            up = "Add(" in f.source()
            kind = "fade-in/opacify" if up else "fade-out/transparentize"
            seen.add(kind)
            tgt = sa[0].args[0]
            same_col = ga[0].args[0] is col and isinstance(tgt, sym.Ref) and tgt.kind == "local"
            rec.add("%s: alpha is read from and written to the colour argument" % kind,
                    {"verdict": "holds" if same_col else "violated", "per_solver": {"structural": "event identity"}, "time_s": 0})
            want = "(fp.%s RNE %s %s)" % ("add" if up else "sub", ga[0].result.term, amt.term)
            r = E.decide(ctx, p.pc + ["(not (= %s %s))" % (sa[0].args[1].term, want)], solvers=("z3", "cvc5"), timeout_s=60)
            rec.add("%s: set_alpha receives old alpha %s amount (Color::set_alpha clamps: E1 c32_set_alpha_clamps)" % (kind, "+" if up else "-"), r)
            chk = [n for n in p.notes if n.startswith("checker:amount:")]
            rec.add("%s: the amount is validated by check_alpha_range (0..1)" % kind,
                    {"verdict": "holds" if chk and "check_alpha_range" in chk[0] else "violated", "per_solver": {"structural": str(chk)}, "time_s": 0})
    if len(seen) != 2:
        rec.add("both fade directions identified (%s)" % sorted(seen), {"verdict": "inconclusive", "per_solver": {}, "time_s": 0})
    return rec


def _nm(ex_deref, v):
    seen = 0
    while isinstance(v, sym.Ref) and seen < 5:
        v = v.target if v.kind == "val" else v
        seen += 1
        if isinstance(v, sym.Ref) and v.kind != "val":
            break
    return getattr(v, "name", None) if not isinstance(v, sym.Scalar) else v.term


def k_plus_minus_units(E, tier):
    """C11: the unit selection of `+` and `-` in Operator::eval: same unit or a unitless operand takes the other's
    unit; otherwise the right operand is converted with Numeric::as_unitset to the LEFT unit, and when that is
    impossible no number is produced (=> incompatible-units error)."""
    cssv = E.load_enum("css/value.rs", "Value", "css::value::Value")
    ops = E.load_enum("value/operator.rs", "Operator")
    f = E.find(name_re=r"^operator::<impl at .*>::eval$")
    rec = Rec("Operator::eval (+ and - on two numbers)", f, E)
    for opname, arith in (("Plus", "Add"), ("Minus", "Sub")):
        ctx = E.ctx()

        def num(name):
            n = sym.Opaque("value::numeric::Numeric", name, ctx)
            return sym.Agg("css::value::Value", "Numeric", {"0": n, "1": ctx.fresh_scalar("bool", name + ".calc")}, cssv.index("Numeric")), n

        a, an = num("a")
        b_, bn = num("b")
        op = sym.Agg("Operator", opname, {}, ops.index(opname))
        ex = sym.Executor(ctx, models=BASE_MODELS, feasibility=E.feasibility(ctx))
        paths = [p for p in ex.run(f, [sym.Ref("val", op), a, b_]) if p.status == "return"]
        rec.paths += len(paths)
        kinds = set()
        for i, p in enumerate(paths):
            evs = [e for e in p.events if e.callee != "drop"]
            names = [re.sub(r"::<.*", "", e.callee) for e in evs]

            def argn(e, k):
                if len(e.rargs) <= k:
                    return None
                v = e.rargs[k]
                return v.term if isinstance(v, sym.Scalar) else getattr(v, "name", None)

            ok = False
            why = ""
            adds = [e for e in evs if ("as %s>" % arith) in e.callee or e.callee.startswith("<Number as %s" % arith) or e.callee.startswith("<&Number as %s" % arith)]
            news = [e for e in evs if e.callee.startswith("Numeric::new")]
            conv = [e for e in evs if e.callee == "Numeric::as_unitset"]
            eqs = [e for e in evs if e.callee == "<UnitSet as PartialEq>::eq"]
            nou = [e for e in evs if e.callee == "Numeric::is_no_unit"]
            ret_some = isinstance(p.ret, sym.Agg) and p.ret.variant == "Ok" and isinstance(p.ret.fields["0"], sym.Agg) and p.ret.fields["0"].variant == "Some"
            ret_none = isinstance(p.ret, sym.Agg) and p.ret.variant == "Ok" and isinstance(p.ret.fields["0"], sym.Agg) and p.ret.fields["0"].variant == "None"
            first_eq = len(eqs) == 1 and {argn(eqs[0], 0), argn(eqs[0], 1)} == {"a.1", "b.1"}
            if not first_eq:
                why = "units are not compared first: %s" % names
            elif ret_some and len(adds) == 1 and len(news) == 1 and not conv:
                # direct sum: unit must be a's, unless a is unitless and b is not (then b's)
                vals = (argn(adds[0], 0), argn(adds[0], 1))
                unit = argn(news[0], 1)
                sum_ok = vals == ("a.0", "b.0") and news[0].args[0] is adds[0].result
                if len(nou) == 0:
                    ok = sum_ok and unit == "a.1"
                    kinds.add("same-unit")
                elif len(nou) == 1:
                    ok = sum_ok and unit == "a.1" and argn(nou[0], 0) == "b"
                    kinds.add("right-unitless")
                elif len(nou) == 2:
                    ok = sum_ok and unit == "b.1" and argn(nou[0], 0) == "b" and argn(nou[1], 0) == "a"
                    kinds.add("left-unitless")
                why = "sum of %s with unit %s after %d unitless tests" % (vals, unit, len(nou))
            elif ret_some and len(conv) == 1 and len(adds) == 1 and len(news) == 1 and len(nou) == 2:
                cv = conv[0]
                scaled = cv.result.children.get("Some.0") if isinstance(cv.result, sym.Opaque) else None
                ok = (argn(cv, 0) == "b" and argn(cv, 1) == "a.1" and argn(adds[0], 0) == "a.0"
                      and scaled is not None and (adds[0].rargs[1] is scaled or argn(adds[0], 1) == getattr(scaled, "name", None))
                      and argn(news[0], 1) == "a.1" and news[0].args[0] is adds[0].result)
                kinds.add("converted")
                why = "a.value %s as_unitset(b, a.unit) in a's unit" % arith
            elif ret_none and len(conv) == 1 and not adds and not news:
                ok = argn(conv[0], 0) == "b" and argn(conv[0], 1) == "a.1"
                kinds.add("incompatible")
                why = "no number when as_unitset gives None"
            else:
                why = "unexpected shape: %s" % names
            unknown = why.startswith("unexpected shape") or why.startswith("units are not compared first")
            rec.add("%s path %d: %s" % (opname, i, why),
                    {"verdict": "holds" if ok else ("inconclusive" if unknown else "violated"), "per_solver": {"structural": "event identity"}, "time_s": 0})
        want = {"same-unit", "right-unitless", "left-unitless", "converted", "incompatible"}
        if kinds != want:
            rec.add("%s: all five cases are present (%s)" % (opname, sorted(kinds)),
                    {"verdict": "inconclusive", "per_solver": {"structural": "path kinds"}, "time_s": 0})
    return rec


def k_numeric_cmp(E, tier):
    """C11/C12: Numeric::partial_cmp compares magnitudes directly for equal units or a unitless operand, gives
    None when UnitSet::scale_to gives None, and otherwise converts in the direction of the factor >= 1 whichever
    side that operand is on (so the comparison is antisymmetric by construction)."""
    f = E.find(name_re=r"^numeric::<impl at .*>::partial_cmp$")
    rec = Rec("Numeric::partial_cmp", f, E)
    ctx = E.ctx()
    a = sym.Opaque("value::numeric::Numeric", "a", ctx)
    b_ = sym.Opaque("value::numeric::Numeric", "b", ctx)
    ex = sym.Executor(ctx, models=BASE_MODELS, feasibility=E.feasibility(ctx))
    paths = [p for p in ex.run(f, [sym.Ref("val", a), sym.Ref("val", b_)]) if p.status == "return"]
    rec.paths = len(paths)
    kinds = set()

    def an(e, k):
        v = e.rargs[k] if len(e.rargs) > k else None
        return v.term if isinstance(v, sym.Scalar) else getattr(v, "name", None)

    for i, p in enumerate(paths):
        evs = [e for e in p.events if e.callee != "drop"]
        cmps = [e for e in evs if e.callee == "<Number as PartialOrd>::partial_cmp"]
        scs = [e for e in evs if e.callee == "UnitSet::scale_to"]
        muls = [e for e in evs if e.callee.endswith("as Mul>::mul")]
        nou = [e for e in evs if e.callee == "Numeric::is_no_unit"]
        eqs = [e for e in evs if e.callee == "<UnitSet as PartialEq>::eq"]
        ok = False
        why = "unexpected shape %s" % [e.callee[:40] for e in evs]
        first = len(eqs) == 1 and {an(eqs[0], 0), an(eqs[0], 1)} == {"a.1", "b.1"}
        if first and not scs and len(cmps) == 1:
            ok = (an(cmps[0], 0), an(cmps[0], 1)) == ("a.0", "b.0") and p.ret is cmps[0].result
            kinds.add("direct")
            why = "equal units or a unitless operand: magnitudes compared directly (%d unitless tests)" % len(nou)
        elif first and scs and not cmps:
            ok = isinstance(p.ret, sym.Agg) and len(nou) == 2
            kinds.add("undefined")
            why = "no ordering when the units do not convert"
        elif first and len(scs) == 1 and len(muls) == 1 and len(cmps) == 1 and len(nou) == 2:
            sc = scs[0]
            scale = sc.result.children.get("Ok.0") or sc.result.children.get("Some.0")
            ok = ((an(sc, 0), an(sc, 1)) == ("b.1", "a.1") and an(muls[0], 0) == "b.0" and an(cmps[0], 0) == "a.0"
                  and cmps[0].rargs[1] is muls[0].result and p.ret is cmps[0].result and scale is not None)
            if ok:
                r = E.decide(ctx, p.pc + ["(not (fp.geq %s %s))" % (scale.term, F1)])
                ok = r["verdict"] == "holds"
            kinds.add("convert-right")
            why = "factor(b->a) >= 1: a ? b*factor"
        elif first and len(scs) == 2 and len(muls) == 1 and len(cmps) == 1 and len(nou) == 2:
            s1, s2 = scs
            scale = s1.result.children.get("Ok.0") or s1.result.children.get("Some.0")
            ok = ((an(s1, 0), an(s1, 1)) == ("b.1", "a.1") and (an(s2, 0), an(s2, 1)) == ("a.1", "b.1")
                  and an(muls[0], 0) == "a.0" and cmps[0].rargs[0] is muls[0].result and an(cmps[0], 1) == "b.0"
                  and p.ret is cmps[0].result and scale is not None)
            if ok:
                r = E.decide(ctx, p.pc + ["(fp.geq %s %s)" % (scale.term, F1)])
                ok = r["verdict"] == "holds"
            kinds.add("convert-left")
            why = "factor(b->a) < 1: a*factor(a->b) ? b"
        rec.add("path %d: %s" % (i, why), {"verdict": "holds" if ok else ("inconclusive" if why.startswith("unexpected shape") else "violated"),
                                         "per_solver": {"structural": "event identity + branch condition"}, "time_s": 0})
    if kinds != {"direct", "undefined", "convert-right", "convert-left"}:
        rec.add("all four cases present (%s)" % sorted(kinds), {"verdict": "inconclusive", "per_solver": {}, "time_s": 0})
    return rec


def _option_models(ctx):
    def m_or(ex, st, c, a, d):
        x, y = a[0], a[1]
        if isinstance(x, sym.Agg):
            return x if x.variant == "Some" else y
        dx = ex.discriminant(x).term
        s1 = st.fork(); s1.pc.append("(= %s %s)" % (dx, bvlit(1, 64)))
        s0 = st.fork(); s0.pc.append("(= %s %s)" % (dx, bvlit(0, 64)))
        return [(s1, x), (s0, y)]

    def m_unwrap_or(ex, st, c, a, d):
        x, dflt = a[0], a[1]
        if isinstance(x, sym.Agg):
            return x.fields["0"] if x.variant == "Some" else dflt
        dx = ex.discriminant(x).term
        s1 = st.fork(); s1.pc.append("(= %s %s)" % (dx, bvlit(1, 64)))
        s0 = st.fork(); s0.pc.append("(= %s %s)" % (dx, bvlit(0, 64)))
        return [(s1, x.child("Some.0", d or "?")), (s0, dflt)]

    return [(r"^Option::<ListSeparator>::or$", m_or), (r"^Option::<ListSeparator>::unwrap_or$", m_unwrap_or)]


def k_append_join(E, tier):
    """C28: append/join take the separator from the explicit argument, else from the first list that has one,
    else space; brackets come from the first list (join: unless `$bracketed` is given)."""
    E.load_enum("css/value.rs", "Value", "css::value::Value")
    E.load_enum("value/list_separator.rs", "ListSeparator")
    rec = None
    for fname, nlists in (("append", 1), ("join", 2)):
        contains = ['const "val"', "Option::<ListSeparator>::or"] if fname == "append" else ['const "list2"', "Option::<ListSeparator>::or"]
        f = E.find(name_re=r"^list::create_module::\{closure#\d+\}$", contains=contains)
        if rec is None:
            rec = Rec("list.append / list.join closures", f, E)
        ctx = E.ctx()
        vals = {}
        lists = []

        def m_get_list(ex, st, c, a, d, lists=lists, ctx=ctx):
            o = sym.Opaque(d or "tuple", "get_list#%d" % len(lists), ctx)
            lists.append((o, a[0]))
            st.events.append(sym.Event("get_list", a, o, len(st.pc)))
            return o

        models = [(r"^get_list$", m_get_list)] + _option_models(ctx) + _color_fn_models(E, ctx, vals)
        ex = sym.Executor(ctx, models=models, inline=[r"^css::value::Value::is_true$"], feasibility=E.feasibility(ctx))
        paths = [p for p in ex.run(f, [sym.Opaque("closure", "self", ctx), sym.Opaque("&ResolvedArgs", "s", ctx)]) if p.status == "return"]
        rec.paths += len(paths)
        okp = [p for p in paths if isinstance(p.ret, sym.Agg) and p.ret.variant == "Ok"]
        origins = set()
        for i, p in enumerate(okp):
            lst = p.ret.fields["0"]
            gl = [e.result for e in p.events if e.callee == "get_list"]
            if not (isinstance(lst, sym.Agg) and lst.variant == "List") or len(gl) != nlists or "separator" not in vals:
                rec.add("%s path %d: result is a list built from the get_list() parts (shape not recognised)" % (fname, i),
                        {"verdict": "inconclusive", "per_solver": {"structural": repr(lst)[:60]}, "time_s": 0})
                continue
            sepv = lst.fields["1"]
            sepv = sepv.fields.get("0") if isinstance(sepv, sym.Agg) and sepv.variant == "Some" else None
            sources = [vals["separator"]] + [g.children.get("1") for g in gl]
            if any(s_ is None for s_ in sources):
                rec.add("%s path %d: every list's separator is read" % (fname, i), {"verdict": "violated", "per_solver": {"structural": "missing read"}, "time_s": 0})
                continue
            k = None
            for j, src in enumerate(sources):
                if isinstance(sepv, sym.Opaque) and isinstance(src, sym.Opaque) and sepv is src.children.get("Some.0"):
                    k = j
            if k is None and isinstance(sepv, sym.Agg) and sepv.variant == "Space":
                k = len(sources)
            if k is None:
                rec.add("%s path %d: the separator is the explicit one, a list's own, or space (shape not recognised)" % (fname, i),
                        {"verdict": "inconclusive", "per_solver": {"structural": repr(sepv)[:60]}, "time_s": 0})
                continue
            origins.add(k)
            conds = ["(= %s %s)" % (ex.discriminant(sources[j]).term, bvlit(0, 64)) for j in range(k)]
            if k < len(sources):
                conds.append("(= %s %s)" % (ex.discriminant(sources[k]).term, bvlit(1, 64)))
            r = E.decide(ctx, p.pc + ["(not (and true %s))" % " ".join(conds)])
            names = ["explicit $separator"] + ["list%d" % (j + 1) for j in range(nlists)] + ["space (default)"]
            rec.add("%s path %d: separator taken from %s only when every earlier source has none" % (fname, i, names[k]), r)
            # elements and brackets
            first = gl[0]
            same_list = lst.fields["0"] is first.children.get("0")
            bra = lst.fields["2"]
            bra_ok = bra is first.children.get("2") or (fname == "join" and isinstance(bra, sym.Scalar))
            rec.add("%s path %d: elements start with the first list's and brackets follow the first list (or $bracketed)" % (fname, i),
                    {"verdict": "holds" if (same_list and bra_ok) else "violated", "per_solver": {"structural": "identity"}, "time_s": 0})
            if fname == "append":
                pushes = [e for e in p.events if e.callee.endswith("::push")]
                okpush = len(pushes) == 1 and pushes[0].rargs[0] is first.children.get("0") and pushes[0].rargs[1] is vals.get("val")
                rec.add("append path %d: exactly $val is pushed onto the list" % i,
                        {"verdict": "holds" if okpush else "violated", "per_solver": {"structural": "identity"}, "time_s": 0})
            else:
                apps = [e for e in p.events if e.callee.endswith("::append")]
                okapp = (len(apps) == 1 and apps[0].rargs[0] is gl[0].children.get("0") and apps[0].rargs[1] is gl[1].children.get("0"))
                rec.add("join path %d: list2's elements are appended to list1's" % i,
                        {"verdict": "holds" if okapp else "violated", "per_solver": {"structural": "identity"}, "time_s": 0})
        if origins != set(range(nlists + 2)):
            rec.add("%s: every separator source is used on some path (%s)" % (fname, sorted(origins)),
                    {"verdict": "violated" if okp else "inconclusive", "per_solver": {}, "time_s": 0})
    return rec


def k_list_separator(E, tier):
    """C28: list.separator: comma for comma lists, argument lists and non-empty maps; slash for slash lists; space otherwise.
    list.is-bracketed: true exactly for bracketed lists."""
    cssv = E.load_enum("css/value.rs", "Value", "css::value::Value")
    seps = E.load_enum("value/list_separator.rs", "ListSeparator")
    f = E.find(name_re=r"^list::create_module::\{closure#\d+\}$", contains=['const "comma"', 'const "slash"', 'const "space"'])
    rec = Rec("list.separator / list.is-bracketed closures", f, E)
    ctx = E.ctx()
    vals = {}

    def m_is_empty(ex, st, c, a, d):
        o = ctx.fresh_scalar("bool", "map_is_empty")
        st.events.append(sym.Event("is_empty", a, o, len(st.pc)))
        return o

    def m_into(ex, st, c, a, d):
        st.events.append(sym.Event("into", a, None, len(st.pc)))
        return sym.Opaque("css::value::Value", "str:" + (a[0].s if isinstance(a[0], sym.ConstStr) else "?"), ctx)

    models = [(r"^OrderMap::<.*>::is_empty$", m_is_empty), (r"^<&str as std::convert::Into<css::value::Value>>::into$", m_into)] + _color_fn_models(E, ctx, vals)
    ex = sym.Executor(ctx, models=models, feasibility=E.feasibility(ctx))
    paths = [p for p in ex.run(f, [sym.Opaque("closure", "self", ctx), sym.Opaque("&ResolvedArgs", "s", ctx)]) if p.status == "return"]
    rec.paths = len(paths)
    v = vals.get("list")
    seen = set()
    for i, p in enumerate(paths):
        if not (isinstance(p.ret, sym.Agg) and p.ret.variant == "Ok") or v is None:
            continue
        out = p.ret.fields["0"]
        name = getattr(out, "name", "")
        if not name.startswith("str:"):
            rec.add("path %d: the result is one of the three constant names" % i, {"verdict": "violated", "per_solver": {"structural": name}, "time_s": 0})
            continue
        got = name[4:]
        seen.add(got)
        D = v.discriminant().term
        is_list = "(= %s %s)" % (D, bvlit(cssv.index("List"), 64))
        is_arg = "(= %s %s)" % (D, bvlit(cssv.index("ArgList"), 64))
        is_map = "(= %s %s)" % (D, bvlit(cssv.index("Map"), 64))
        opt = v.child("List.1", "std::option::Option<value::list_separator::ListSeparator>")
        od = ex.discriminant(opt).term
        sepv = opt.child("Some.0", "value::list_separator::ListSeparator")
        sd = ex.discriminant(sepv).term
        has = lambda nm: "(and %s (= %s %s) (= %s %s))" % (is_list, od, bvlit(1, 64), sd, bvlit(seps.index(nm), 64))
        empties = [e.result.term for e in p.events if e.callee == "is_empty"]
        nonempty_map = "(and %s %s)" % (is_map, "(not %s)" % empties[0] if empties else "true")
        comma = "(or %s %s %s)" % (has("Comma"), is_arg, nonempty_map)
        slash = has("Slash")
        want = {"comma": comma, "slash": slash, "space": "(not (or %s %s))" % (comma, slash)}.get(got)
        if want is None:
            rec.add("path %d: unknown separator name %s" % (i, got), {"verdict": "violated", "per_solver": {}, "time_s": 0})
            continue
        r = E.decide(ctx, p.pc + ["(not %s)" % want], model_names=[D, od, sd])
        rec.add("path %d: '%s' is reported exactly for the list kinds Sass prescribes" % (i, got), r)
    if seen != {"comma", "slash", "space"}:
        rec.add("all three separator names are produced (%s)" % sorted(seen), {"verdict": "violated" if paths else "inconclusive", "per_solver": {}, "time_s": 0})
    # is-bracketed
    g = E.find(name_re=r"^list::create_module::\{closure#\d+\}$", contains=["css::value::Value::True", "css::value::Value::False", 'const "list"'],
               not_contains=['const "comma"', "index_of", 'const "value"', 'const "n"'])
    ctx2 = E.ctx()
    vals2 = {}
    ex2 = sym.Executor(ctx2, models=_color_fn_models(E, ctx2, vals2), feasibility=E.feasibility(ctx2))
    p2 = [p for p in ex2.run(g, [sym.Opaque("closure", "self", ctx2), sym.Opaque("&ResolvedArgs", "s", ctx2)]) if p.status == "return"]
    rec.paths += len(p2)
    v2 = vals2.get("list")
    kinds = set()
    for i, p in enumerate(p2):
        if not (isinstance(p.ret, sym.Agg) and p.ret.variant == "Ok") or v2 is None:
            continue
        out = p.ret.fields["0"]
        if not (isinstance(out, sym.Agg) and out.variant in ("True", "False")):
            rec.add("is-bracketed path %d: result is a boolean" % i, {"verdict": "violated", "per_solver": {"structural": repr(out)[:50]}, "time_s": 0})
            continue
        kinds.add(out.variant)
        D = v2.discriminant().term
        br = v2.child("List.2", "bool")
        cond = "(and (= %s %s) %s)" % (D, bvlit(cssv.index("List"), 64), br.term)
        r = E.decide(ctx2, p.pc + [cond if out.variant == "False" else "(not %s)" % cond], model_names=[D])
        rec.add("is-bracketed path %d: %s exactly %s bracketed lists" % (i, out.variant, "for" if out.variant == "True" else "for anything but"), r)
    if kinds != {"True", "False"}:
        rec.add("is-bracketed yields both answers", {"verdict": "violated" if p2 else "inconclusive", "per_solver": {}, "time_s": 0})
    return rec


def k_list_index(E, tier):
    """C28: list.index returns the 1-based position of the FIRST element that is `==` to $value, else null.
    A map acts as the list of its (key value) pairs: a pair matches exactly when $value is an unbracketed,
    space-separated two-element list whose items are `==` to the key and to the value.  `==` itself
    (css::Value::eq) is an uninterpreted boolean per comparison here (its own laws: C12 kernels)."""
    cssv = E.load_enum("css/value.rs", "Value", "css::value::Value")
    seps = E.load_enum("value/list_separator.rs", "ListSeparator")
    f = E.find(name_re=r"^list::create_module::\{closure#\d+\}$", contains=['const "value"', "PartialEq>::eq"], not_contains=['const "n"'])
    rec = Rec("list.index closure", f, E)
    ctx = E.ctx()
    vals = {}
    elems, pairs, lens, items = [], [], {}, {}

    def full(ex, st, x):
        while isinstance(x, sym.Ref):
            x = ex.deref(st, x)
        return x

    def m_src(ex, st, c, a, d):
        o = sym.Opaque("iter", "iter", ctx)
        st.events.append(sym.Event("iter", [full(ex, st, a[0])], o, len(st.pc)))
        return o

    ident = lambda ex, st, c, a, d: a[0]

    def m_next(kind):
        def m(ex, st, c, a, d):
            n = sum(1 for e in st.events if e.callee == "next-some")
            if n >= 3:
                st.events.append(sym.Event("cut", [], None, len(st.pc)))
                return sym.Agg(d, "None", {}, 0)
            some, none = st.fork(), st.fork()
            idx = sym.Scalar(("bv", 64, False), bvlit(n, 64))
            if kind == "list":
                while len(elems) <= n:
                    elems.append(sym.Opaque("css::value::Value", "elem%d" % len(elems), ctx))
                item = sym.Ref("val", elems[n])
            else:
                while len(pairs) <= n:
                    i = len(pairs)
                    pairs.append((sym.Opaque("css::value::Value", "key%d" % i, ctx), sym.Opaque("css::value::Value", "val%d" % i, ctx)))
                some.cells["P%d" % n] = sym.Agg("pair", None, {"0": pairs[n][0], "1": pairs[n][1]})
                item = sym.Ref("cell", "P%d" % n)
            some.events.append(sym.Event("next-some", [kind], None, len(st.pc)))
            none.events.append(sym.Event("next-none", [kind], None, len(st.pc)))
            return [(some, sym.Agg(d, "Some", {"0": sym.Agg("tuple", None, {"0": idx, "1": item})}, 1)), (none, sym.Agg(d, "None", {}, 0))]
        return m

    def m_eq(ex, st, c, a, d):
        x, y = full(ex, st, a[0]), full(ex, st, a[1])
        b = ctx.fresh_scalar("bool", "eq")
        e = sym.Event("eq", a, b, len(st.pc))
        e.rargs = [x, y]
        st.events.append(e)
        return b

    def m_len(ex, st, c, a, d):
        v = full(ex, st, a[0])
        if id(v) not in lens:
            lens[id(v)] = (v, ctx.fresh_scalar(("bv", 64, False), "len"))
        return lens[id(v)][1]

    def m_index(ex, st, c, a, d):
        v = full(ex, st, a[0])
        k = a[1].term if isinstance(a[1], sym.Scalar) else "?"
        key = (id(v), k)
        if key not in items:
            items[key] = (v, k, sym.Opaque("css::value::Value", "item[%s]" % k[-2:], ctx))
        return sym.Ref("val", items[key][2])

    def m_scalar(ex, st, c, a, d):
        return sym.Agg("css::value::Value", "SCALAR", {"0": a[0]})

    models = [
        (r"^<Vec<css::value::Value> as Deref>::deref$", lambda ex, st, c, a, d: sym.Ref("val", full(ex, st, a[0]))),
        (r"^core::slice::<impl \[css::value::Value\]>::iter$", m_src),
        (r"^OrderMap::<css::value::Value, css::value::Value>::iter$", m_src),
        (r"as Iterator>::enumerate$", ident), (r"^<Enumerate<.*> as IntoIterator>::into_iter$", ident),
        (r"^<Enumerate<std::slice::Iter<'_, css::value::Value>> as Iterator>::next$", m_next("list")),
        (r"^<Enumerate<std::slice::Iter<'_, \(css::value::Value, css::value::Value\)>> as Iterator>::next$", m_next("map")),
        (r"^<&?css::value::Value as PartialEq>::eq$", m_eq),
        (r"^Vec::<css::value::Value>::len$", m_len),
        (r"^<Vec<css::value::Value> as Index<usize>>::index$", m_index),
        (r"^css::value::Value::scalar::<", m_scalar),
    ] + _color_fn_models(E, ctx, vals)
    ex = sym.Executor(ctx, models=models, unroll=5, feasibility=E.feasibility(ctx))
    allp = ex.run(f, [sym.Opaque("closure", "self", ctx), sym.Opaque("&ResolvedArgs", "s", ctx)])
    paths = [p for p in allp if p.status == "return"]
    rec.paths = len(paths)
    lst, val = vals.get("list"), vals.get("value")
    if lst is None or val is None:
        rec.add("the closure reads $list and $value (shape not recognised)", {"verdict": "inconclusive", "per_solver": {}, "time_s": 0})
        return rec
    D = lst.discriminant().term
    is_list = "(= %s %s)" % (D, bvlit(cssv.index("List"), 64))
    is_map = "(= %s %s)" % (D, bvlit(cssv.index("Map"), 64))
    # pair shape of $value
    VD = val.discriminant().term
    vopt = val.child("List.1", "std::option::Option<value::list_separator::ListSeparator>")
    vod = ex.discriminant(vopt).term
    vsep = vopt.child("Some.0", "value::list_separator::ListSeparator")
    vsd = ex.discriminant(vsep).term
    vbra = val.child("List.2", "bool")
    vvec = val.child("List.0", "std::vec::Vec<css::value::Value>")
    vlen = [t for (v, t) in lens.values() if v is vvec]
    seen = set()
    for i, p in enumerate(paths):
        if not (isinstance(p.ret, sym.Agg) and p.ret.variant == "Ok"):
            continue
        if any(e.callee == "cut" for e in p.events):
            continue  # beyond the unrolling bound
        out = p.ret.fields["0"]
        eqs = [e for e in p.events if e.callee == "eq"]
        somes = [e for e in p.events if e.callee == "next-some"]
        nones = [e for e in p.events if e.callee == "next-none"]
        its = [e for e in p.events if e.callee == "iter"]
        kind = somes[0].args[0] if somes else (nones[0].args[0] if nones else "single")
        found = isinstance(out, sym.Agg) and out.variant == "SCALAR"
        null = isinstance(out, sym.Agg) and out.variant == "Null"
        if not (found or null):
            rec.add("path %d: the result is a position or null (shape not recognised)" % i, {"verdict": "inconclusive", "per_solver": {"structural": repr(out)[:60]}, "time_s": 0})
            continue
        n = len(somes)
        tag = "%s/%d/%s" % (kind, n, "found" if found else "null")
        same = lambda e, x, y: (e.rargs[0] is x and e.rargs[1] is y) or (e.rargs[0] is y and e.rargs[1] is x)
        if kind == "single":
            if not eqs and null:
                # map arm with a $value that is no pair, or nothing compared
                want = "(and %s (not (and (= %s %s) (= %s %s) (= %s %s) (not %s) %s)))" % (
                    is_map, VD, bvlit(cssv.index("List"), 64), vod, bvlit(1, 64), vsd, bvlit(seps.index("Space"), 64), vbra.term,
                    ("(= %s %s)" % (vlen[0].term, bvlit(2, 64))) if vlen else "true")
                r = E.decide(ctx, p.pc + ["(not %s)" % want], model_names=[D, VD, vod, vsd, vbra.term] + [t.term for t in vlen])
                rec.add("path %d [%s]: null without a comparison only for a map and a $value that cannot equal a (key value) pair" % (i, tag), r, {"lift": "index-map"})
                seen.add("map-nopair")
                continue
            ok = len(eqs) == 1 and same(eqs[0], lst, val)
            if not ok:
                rec.add("path %d [%s]: a single value is compared with $value (shape not recognised)" % (i, tag), {"verdict": "inconclusive", "per_solver": {}, "time_s": 0})
                continue
            b = eqs[0].result.term
            want = "(and (not %s) (not %s) %s)" % (is_list, is_map, ("(and %s (= %s %s))" % (b, out.fields["0"].term, bvlit(1, 32))) if found else "(not %s)" % b)
            r = E.decide(ctx, p.pc + ["(not %s)" % want])
            rec.add("path %d [%s]: a non-list value is the one-element list of itself" % (i, tag), r)
            seen.add("single")
            continue
        if len(its) != 1:
            rec.add("path %d [%s]: one iteration over the list (shape not recognised)" % (i, tag), {"verdict": "inconclusive", "per_solver": {}, "time_s": 0})
            continue
        if kind == "list":
            src_ok = its[0].args[0] is lst.children.get("List.0")
            wired = src_ok and len(eqs) == n and all(same(eqs[k], elems[k], val) for k in range(n))
            if not wired:
                rec.add("path %d [%s]: element k is compared with $value, in order" % (i, tag), {"verdict": "violated", "per_solver": {"structural": "event identity"}, "time_s": 0})
                continue
            bs = [e.result.term for e in eqs]
            if found:
                want = "(and %s %s %s (= %s %s))" % (is_list, " ".join("(not %s)" % b for b in bs[:-1]) or "true", bs[-1], out.fields["0"].term, bvlit(n, 64))
            else:
                want = "(and %s %s)" % (is_list, " ".join("(not %s)" % b for b in bs) or "true")
            r = E.decide(ctx, p.pc + ["(not %s)" % want])
            rec.add("path %d [%s]: %s" % (i, tag, "position of the first `==` element, earlier ones all differ" if found else "null only when every element differs"), r)
            seen.add("list-" + ("found" if found else "null"))
        else:
            src_ok = its[0].args[0] is lst.children.get("Map.0")
            l0 = [o for (v, k, o) in items.values() if v is vvec and k == bvlit(0, 64)]
            l1 = [o for (v, k, o) in items.values() if v is vvec and k == bvlit(1, 64)]
            if not (src_ok and l0 and l1 and vlen):
                rec.add("path %d [%s]: the map's pairs are compared with $value's two items (shape not recognised)" % (i, tag), {"verdict": "inconclusive", "per_solver": {}, "time_s": 0})
                continue
            # per iteration: match_k = eq(key_k, item0) and eq(val_k, item1); both comparisons must be about pair k
            match, bad = [], False
            rest = list(eqs)
            for k in range(n):
                ke = [e for e in rest if same(e, pairs[k][0], l0[0])]
                ve = [e for e in rest if same(e, pairs[k][1], l1[0])]
                for e in ke + ve:
                    rest.remove(e)
                kt = ke[0].result.term if ke else None
                vt = ve[0].result.term if ve else None
                match.append((kt, vt))
            if rest:
                rec.add("path %d [%s]: every comparison is key_k == item 0 or value_k == item 1" % (i, tag), {"verdict": "violated", "per_solver": {"structural": "event identity"}, "time_s": 0})
                continue
            shape = "(and %s (= %s %s) (= %s %s) (= %s %s) (not %s) (= %s %s))" % (
                is_map, VD, bvlit(cssv.index("List"), 64), vod, bvlit(1, 64), vsd, bvlit(seps.index("Space"), 64), vbra.term, vlen[0].term, bvlit(2, 64))
            def is_match(kt, vt):
                return "(and %s %s)" % (kt, vt) if kt and vt else "false"   # a pair matches only when BOTH were compared and equal
            def no_match(kt, vt):
                parts = [("(not %s)" % t) for t in (kt, vt) if t]
                return "(or %s)" % " ".join(parts) if parts else "false"
            if found:
                want = "(and %s %s %s (= %s %s))" % (shape, " ".join(no_match(*m) for m in match[:-1]) or "true", is_match(*match[-1]), out.fields["0"].term, bvlit(n, 64))
            else:
                want = "(and %s (or (not %s) (and true %s)))" % (is_map, shape, " ".join(no_match(*m) for m in match))
            r = E.decide(ctx, p.pc + ["(not %s)" % want], model_names=[VD, vod, vsd, vbra.term, vlen[0].term])
            rec.add("path %d [%s]: %s" % (i, tag, "position of the first pair whose key AND value are `==` to the two items of an unbracketed space pair" if found
                                           else "null only when no pair has both its key and its value `==`"), r, {"lift": "index-map"})
            seen.add("map-" + ("found" if found else "null"))
    need = {"single", "list-found", "list-null", "map-found", "map-null", "map-nopair"}
    if not need <= seen:
        rec.add("all result kinds explored (%s missing)" % sorted(need - seen), {"verdict": "inconclusive", "per_solver": {}, "time_s": 0})
    rec.notes.append("lists and maps of 0..3 entries explored (loop unrolled 3 times); longer ones follow the same loop body; `==` uninterpreted")
    return rec


# ------------------------------------------------------------------ C29: sass:math plumbing

_RND = {"ceil": "RTP", "floor": "RTN", "trunc": "RTZ", "round": "RNA"}


def _math_models(E, ctx, vals):
    """f64 rounding intrinsics as SMT roundToIntegral; Numeric::new / Into<Value> as transparent constructors."""
    def m_round(mode):
        return lambda ex, st, c, a, d: sym.Scalar("f64", "(fp.roundToIntegral %s %s)" % (mode, a[0].term))

    def m_numeric_new(ex, st, c, a, d):
        v, u = a[0], a[1]
        st.events.append(sym.Event("Numeric::new", a, None, len(st.pc)))
        return sym.Agg("value::numeric::Numeric", None, {"0": v, "1": u})

    def m_into_value(ex, st, c, a, d):
        return sym.Agg("css::value::Value", "Numeric", {"0": a[0]})

    def m_num_from_f64(ex, st, c, a, d):
        return sym.Agg("value::number::Number", None, {"0": a[0]})

    return [
        (r"^std::f64::<impl f64>::ceil$", m_round("RTP")), (r"^std::f64::<impl f64>::floor$", m_round("RTN")),
        (r"^std::f64::<impl f64>::trunc$", m_round("RTZ")), (r"^std::f64::<impl f64>::round$", m_round("RNA")),
        (r"^Numeric::new::<", m_numeric_new),
        (r"^<Numeric as std::convert::Into<css::value::Value>>::into$", m_into_value),
        (r"^<f64 as std::convert::Into<Number>>::into$", m_num_from_f64),
        (r"^<impl Into<Number> as std::convert::Into<Number>>::into$", lambda ex, st, c, a, d: a[0]),
    ] + _color_fn_models(E, ctx, vals)


def _f64_of_number(ex, st, n):
    """the f64 inside a Number value (Opaque child or aggregate field 0)"""
    while isinstance(n, sym.Ref):
        n = ex.deref(st, n)
    if isinstance(n, sym.Agg):
        return n.fields.get("0")
    if isinstance(n, sym.Opaque):
        return n.child("0", "f64")
    return None


def k_math_bounding(E, tier):
    """C29: math.ceil / floor / round / abs apply exactly that rounding to the magnitude and keep the unit
    (the rounding functions themselves: E1 c29_* harnesses over Number::ceil/floor/round/trunc/abs)."""
    targets = [
        ("ceil", dict(name_re=r"math::create_module::\{closure#\d+\}$", contains=["Number::ceil"]), "(fp.roundToIntegral RTP %s)"),
        ("floor", dict(name_re=r"math::create_module::\{closure#\d+\}$", contains=["Number::floor"]), "(fp.roundToIntegral RTN %s)"),
        ("round", dict(name="sass_round"), "(fp.roundToIntegral RNA %s)"),
        ("abs", dict(name="sass_abs"), "(fp.abs %s)"),
    ]
    rec = None
    for fname, loc, spec in targets:
        f = E.find(**loc)
        if rec is None:
            rec = Rec("math.ceil / floor / round / abs", f, E)
        ctx = E.ctx()
        vals = {}
        ex = sym.Executor(ctx, models=_math_models(E, ctx, vals), inline=[r"^Number::(ceil|floor|round|trunc|abs)$"], feasibility=E.feasibility(ctx))
        arg0 = [sym.Opaque("closure", "self", ctx)] if len(f.params) == 2 else []
        paths = [p for p in ex.run(f, arg0 + [sym.Opaque("&ResolvedArgs", "s", ctx)]) if p.status == "return"]
        rec.paths += len(paths)
        okp = [p for p in paths if isinstance(p.ret, sym.Agg) and p.ret.variant == "Ok"]
        num = vals.get("number")
        if not okp or num is None:
            rec.add("math.%s: an Ok path reading $number exists (shape not recognised)" % fname, {"verdict": "inconclusive", "per_solver": {}, "time_s": 0})
            continue
        for i, p in enumerate(okp):
            v = p.ret.fields["0"]
            inner = v.fields.get("0") if isinstance(v, sym.Agg) and v.variant == "Numeric" else None
            if not (isinstance(inner, sym.Agg) and "0" in inner.fields and "1" in inner.fields):
                rec.add("math.%s path %d: the result is a number built by Numeric::new (shape not recognised)" % (fname, i),
                        {"verdict": "inconclusive", "per_solver": {"structural": repr(v)[:60]}, "time_s": 0})
                continue
            x = _f64_of_number(ex, p, num.child("0", "value::number::Number"))
            r = _f64_of_number(ex, p, inner.fields["0"])
            unit_same = inner.fields["1"] is num.children.get("1")
            rec.add("math.%s path %d: the unit of $number is passed through unchanged" % (fname, i),
                    {"verdict": "holds" if unit_same else "violated", "per_solver": {"structural": "identity"}, "time_s": 0})
            if not (isinstance(x, sym.Scalar) and isinstance(r, sym.Scalar)):
                rec.add("math.%s path %d: magnitude in, magnitude out (shape not recognised)" % (fname, i), {"verdict": "inconclusive", "per_solver": {}, "time_s": 0})
                continue
            res = E.decide(ctx, p.pc + ["(not (= %s %s))" % (r.term, spec % x.term)], model_names=[x.term])
            rec.add("math.%s path %d: the magnitude is %s of the argument's, bit for bit (NaN and signed zeros included)" % (fname, i, spec % "x"), res, {"lift": "math1:" + fname})
    return rec


def k_math_percentage(E, tier):
    """C29: math.percentage(x) = x * 100 with the unit %."""
    units = E.load_enum("value/unit.rs", "Unit")
    f = E.find(name_re=r"^numeric::<impl at .*>::percentage$")
    rec = Rec("Numeric::percentage", f, E)
    ctx = E.ctx()
    vals = {}
    x = ctx.fresh_scalar("f64", "x")
    ex = sym.Executor(ctx, models=_math_models(E, ctx, vals), inline=[r"^<Number as Mul<i64>>::mul$"], feasibility=E.feasibility(ctx))
    paths = [p for p in ex.run(f, [sym.Agg("value::number::Number", None, {"0": x})]) if p.status == "return"]
    rec.paths = len(paths)
    for i, p in enumerate(paths):
        n = p.ret
        if not (isinstance(n, sym.Agg) and "0" in n.fields):
            rec.add("path %d: result built by Numeric::new (shape not recognised)" % i, {"verdict": "inconclusive", "per_solver": {}, "time_s": 0})
            continue
        r = _f64_of_number(ex, p, n.fields["0"])
        u = n.fields["1"]
        rec.add("path %d: the unit is %%" % i, {"verdict": "holds" if isinstance(u, sym.Agg) and u.variant == "Percent" else "violated",
                                              "per_solver": {"structural": repr(u)[:40]}, "time_s": 0})
        if not isinstance(r, sym.Scalar):
            rec.add("path %d: magnitude (shape not recognised)" % i, {"verdict": "inconclusive", "per_solver": {}, "time_s": 0})
            continue
        res = E.decide(ctx, p.pc + ["(not (= %s (fp.mul RNE %s %s)))" % (r.term, x.term, f64lit(100.0))], model_names=[x.term])
        rec.add("path %d: the magnitude is x * 100 (one correctly rounded multiplication)" % i, res, {"lift": "math1:percentage"})
    if not paths:
        rec.add("a path exists", {"verdict": "inconclusive", "per_solver": {}, "time_s": 0})
    # the closure: a unitless $number handed to Numeric::percentage
    g = E.find(name_re=r"math::create_module::\{closure#\d+\}$", contains=["Numeric::percentage"])
    ctx2 = E.ctx()
    vals2 = {}

    def m_pct(ex_, st, c, a, d):
        st.events.append(sym.Event("percentage", a, None, len(st.pc)))
        return sym.Opaque("Numeric", "pct", ctx2)

    ex2 = sym.Executor(ctx2, models=[(r"^Numeric::percentage::<", m_pct)] + _math_models(E, ctx2, vals2), feasibility=E.feasibility(ctx2))
    p2 = [p for p in ex2.run(g, [sym.Opaque("closure", "self", ctx2), sym.Opaque("&ResolvedArgs", "s", ctx2)]) if p.status == "return"]
    rec.paths += len(p2)
    ok2 = [p for p in p2 if isinstance(p.ret, sym.Agg) and p.ret.variant == "Ok"]
    for i, p in enumerate(ok2):
        ev = [e for e in p.events if e.callee == "percentage"]
        chk = [n for n in p.notes if n.startswith("checker:number:")]
        good = len(ev) == 1 and ev[0].args[0] is vals2.get("number") and chk and "unitless" in chk[0]
        rec.add("closure path %d: $number is checked to be unitless and handed to Numeric::percentage" % i,
                {"verdict": "holds" if good else "violated", "per_solver": {"structural": "event identity %s" % chk}, "time_s": 0})
    if not ok2:
        rec.add("the percentage closure has an Ok path", {"verdict": "inconclusive", "per_solver": {}, "time_s": 0})
    return rec


def k_math_clamp(E, tier):
    """C29: math.clamp($min, $number, $max) returns one of its three arguments: $min when $number <= $min
    (also when the bounds cross), else $max when $number >= $max, else $number; $number and $max must have
    units compatible with $min's (both unitless or both with units)."""
    f = E.find(name_re=r"math::create_module::\{closure#\d+\}$", contains=['const "min"', 'const "max"', "PartialOrd>::ge"])
    rec = Rec("math.clamp closure", f, E)
    ctx = E.ctx()
    vals = {}

    def m_cmp(kind):
        def m(ex, st, c, a, d):
            b = ctx.fresh_scalar("bool", kind)
            e = sym.Event(kind, a, b, len(st.pc))
            e.rargs = [ex.resolve_ref(st, x) for x in a]
            st.events.append(e)
            return b
        return m

    models = [(r"^<Numeric as PartialOrd>::ge$", m_cmp("ge")), (r"^<Numeric as PartialOrd>::le$", m_cmp("le"))] + _math_models(E, ctx, vals)
    ex = sym.Executor(ctx, models=models, feasibility=E.feasibility(ctx))
    paths = [p for p in ex.run(f, [sym.Opaque("closure", "self", ctx), sym.Opaque("&ResolvedArgs", "s", ctx)]) if p.status == "return"]
    rec.paths = len(paths)
    okp = [p for p in paths if isinstance(p.ret, sym.Agg) and p.ret.variant == "Ok"]
    mn, nu, mx = vals.get("min"), vals.get("number"), vals.get("max")
    seen = set()
    for i, p in enumerate(okp):
        v = p.ret.fields["0"]
        out = v.fields.get("0") if isinstance(v, sym.Agg) and v.variant == "Numeric" else None
        ge = [e for e in p.events if e.callee == "ge"]
        le = [e for e in p.events if e.callee == "le"]
        if out is None or len(ge) != 1 or len(le) != 1 or mn is None or nu is None or mx is None:
            rec.add("path %d: one `>=` against $max and one `<=` against $min (shape not recognised)" % i, {"verdict": "inconclusive", "per_solver": {}, "time_s": 0})
            continue
        b1, b2 = ge[0].result.term, le[0].result.term
        wired = ge[0].rargs[0] is nu and ge[0].rargs[1] is mx and le[0].rargs[1] is mn
        # the second comparison is made on the value kept after the first one
        r1 = E.decide(ctx, p.pc + ["(not %s)" % b1])["verdict"] == "holds"   # b1 true on this path
        kept = mx if r1 else nu
        wired = wired and le[0].rargs[0] is kept
        if not wired:
            rec.add("path %d: $number >= $max is tested first, then the kept value <= $min" % i, {"verdict": "violated", "per_solver": {"structural": "event identity"}, "time_s": 0})
            continue
        r2 = E.decide(ctx, p.pc + ["(not %s)" % b2])["verdict"] == "holds"
        want = mn if r2 else kept
        which = "min" if want is mn else ("max" if want is mx else "number")
        seen.add(which)
        rec.add("path %d: returns $%s, the argument the comparisons select" % (i, which),
                {"verdict": "holds" if out is want else "violated", "per_solver": {"structural": "identity"}, "time_s": 0})
    if seen != {"min", "max", "number"}:
        rec.add("all three outcomes are present (%s)" % sorted(seen), {"verdict": "violated" if okp else "inconclusive", "per_solver": {}, "time_s": 0})
    # the unit check applied to $number and $max
    inner = [g for g in E.funcs if g.name.startswith(f.name + "::{closure#")]
    n_ok = 0
    for g in inner:
        ctx2 = E.ctx()
        minv = sym.Opaque("Numeric", "min_v", ctx2)
        cand = sym.Opaque("Numeric", "v", ctx2)
        flags = {}

        def m_try_from(ex_, st, c, a, d):
            ok, err = st.fork(), st.fork()
            return [(ok, sym.Agg(d, "Ok", {"0": cand}, 0)), (err, sym.Agg(d, "Err", {"0": sym.Opaque("IsNot", "e", ctx2)}, 1))]

        def m_flag(kind):
            def m(ex_, st, c, a, d):
                key = (kind,) + tuple(id(ex_.resolve_ref(st, x)) for x in a)
                if key not in flags:
                    flags[key] = (ctx2.fresh_scalar("bool", kind), [ex_.resolve_ref(st, x) for x in a])
                return flags[key][0]
            return m

        ex2 = sym.Executor(ctx2, models=[(r"^<Numeric as TryFrom<css::value::Value>>::try_from$", m_try_from), (r"^Numeric::is_no_unit$", m_flag("no_unit")),
                                         (r"^UnitSet::is_compatible$", m_flag("compat"))] + BASE_MODELS, feasibility=E.feasibility(ctx2))
        env = sym.Agg("closure", None, {"0": sym.Ref("val", minv), "min_v": sym.Ref("val", minv)})
        try:
            ps = [p for p in ex2.run(g, [sym.Ref("val", env), sym.Opaque("css::value::Value", "value", ctx2)]) if p.status == "return"]
        except sym.Unsupported:
            continue
        nu_v = [t for k, (t, a) in flags.items() if k[0] == "no_unit" and a[0] is cand]
        nu_m = [t for k, (t, a) in flags.items() if k[0] == "no_unit" and a[0] is minv]
        comp = [t for k, (t, a) in flags.items() if k[0] == "compat"]
        if not (nu_v and nu_m and comp):
            continue
        accept = "(and (= %s %s) %s)" % (nu_v[0].term, nu_m[0].term, comp[0].term)
        for j, p in enumerate(ps):
            if not isinstance(p.ret, sym.Agg) or p.ret.variant not in ("Ok", "Err"):
                continue
            if p.ret.variant == "Err" and isinstance(p.ret.fields.get("0"), sym.Agg):
                continue  # not a number at all
            if p.ret.variant == "Ok":
                res = E.decide(ctx2, p.pc + ["(not %s)" % accept])
                good = p.ret.fields["0"] is cand
                rec.add("unit check path %d: a number is accepted (unchanged) only when it is unitless exactly when $min is, and its unit is compatible with $min's" % j,
                        res if good else {"verdict": "violated", "per_solver": {"structural": "identity"}, "time_s": 0})
                n_ok += 1
            elif any(e.callee == "from_residual" for e in p.events):
                continue
            else:
                res = E.decide(ctx2, p.pc + [accept])
                rec.add("unit check path %d: rejected only when the units do not fit $min's" % j, res)
    if n_ok == 0:
        rec.add("the unit-compatibility closure was found", {"verdict": "inconclusive", "per_solver": {}, "time_s": 0})
    return rec


def k_find_extreme(E, tier):
    """C29: math.max / math.min (find_extreme): the result is one of the arguments, namely the one the fold
    `found = if cmp2(found, v) == Some(pref) { found } else { v }` selects, comparing the running extreme with
    each later argument in order; a special (calc) argument or a CSS-comparable pair gives no number back
    (the call is left to CSS), an incomparable pair is an error, and no argument at all is an error."""
    f = E.find(name="find_extreme")
    rec = Rec("find_extreme (math.max / math.min)", f, E)
    for pref in ("Greater", "Less"):
        ctx = E.ctx()
        elems = []
        prefv = sym.Agg("std::cmp::Ordering", pref, {}, 1 if pref == "Greater" else -1)

        def full(ex, st, x):
            while isinstance(x, sym.Ref):
                x = ex.deref(st, x)
            return x

        def m_next(ex, st, c, a, d, elems=elems, ctx=ctx):
            n = sum(1 for e in st.events if e.callee == "next-some")
            if n >= 4:
                st.events.append(sym.Event("cut", [], None, len(st.pc)))
                return sym.Agg(d, "None", {}, 0)
            while len(elems) <= n:
                elems.append(sym.Opaque("sass::functions::num_or_special::NumOrSpecial", "arg%d" % len(elems), ctx))
            some, none = st.fork(), st.fork()
            some.events.append(sym.Event("next-some", [], None, len(st.pc)))
            none.events.append(sym.Event("next-none", [], None, len(st.pc)))
            return [(some, sym.Agg(d, "Some", {"0": sym.Ref("val", elems[n])}, 1)), (none, sym.Agg(d, "None", {}, 0))]

        def m_ok_or(ex, st, c, a, d):
            x = a[0]
            if isinstance(x, sym.Agg) and x.variant == "Some":
                return sym.Agg(d, "Ok", {"0": x.fields["0"]}, 0)
            return sym.Agg(d, "Err", {"0": a[1]}, 1)

        def m_cmp2(ex, st, c, a, d, ctx=ctx):
            o = sym.Opaque("std::option::Option<std::cmp::Ordering>", "cmp2#%d" % sum(1 for e in st.events if e.callee == "cmp2"), ctx)
            e = sym.Event("cmp2", a, o, len(st.pc))
            e.rargs = [full(ex, st, x) for x in a]
            st.events.append(e)
            return o

        def m_ordeq(ex, st, c, a, d, ctx=ctx):
            b = ctx.fresh_scalar("bool", "is_pref")
            e = sym.Event("ordeq", a, b, len(st.pc))
            e.rargs = [full(ex, st, x) for x in a]
            st.events.append(e)
            return b

        def m_may(ex, st, c, a, d, ctx=ctx):
            b = ctx.fresh_scalar("bool", "may_cmp_css")
            e = sym.Event("may_cmp_css", a, b, len(st.pc))
            e.rargs = [full(ex, st, x) for x in a]
            st.events.append(e)
            return b

        def m_clone(ex, st, c, a, d):
            v = full(ex, st, a[0])
            st.events.append(sym.Event("clone", [v], None, len(st.pc)))
            return sym.Agg("clone", "CLONE", {"0": v})

        ident = lambda ex, st, c, a, d: a[0]
        models = [
            (r"^core::slice::<impl \[NumOrSpecial\]>::iter$", lambda ex, st, c, a, d: sym.Opaque("iter", "iter", ctx)),
            (r"^<std::slice::Iter<'_, NumOrSpecial> as IntoIterator>::into_iter$", ident),
            (r"^<std::slice::Iter<'_, NumOrSpecial> as Iterator>::next$", m_next),
            (r"^Option::<&NumOrSpecial>::ok_or::<", m_ok_or),
            (r"^cmp2$", m_cmp2), (r"^<std::cmp::Ordering as PartialEq>::eq$", m_ordeq), (r"^may_cmp_css$", m_may),
            (r"^<Numeric as (Clone>::clone|ToOwned>::to_owned)$", m_clone),
        ] + BASE_MODELS
        ex = sym.Executor(ctx, models=models, unroll=7, feasibility=E.feasibility(ctx))
        paths = [p for p in ex.run(f, [sym.Opaque("&[NumOrSpecial]", "numbers", ctx), prefv]) if p.status == "return"]
        rec.paths += len(paths)
        seen = set()
        for i, p in enumerate(paths):
            if any(e.callee == "cut" for e in p.events):
                continue
            n = sum(1 for e in p.events if e.callee == "next-some")
            cm = [e for e in p.events if e.callee == "cmp2"]
            oe = [e for e in p.events if e.callee == "ordeq"]
            ret = p.ret
            tag = "%s/%d" % (pref, n)
            if not isinstance(ret, sym.Agg) or ret.variant not in ("Ok", "Err"):
                rec.add("path %d [%s]: result shape not recognised" % (i, tag), {"verdict": "inconclusive", "per_solver": {}, "time_s": 0})
                continue
            nums = [el.children.get("Num.0") for el in elems[:n]]
            # replay the fold on this path
            found = nums[0] if n else None
            wired = True
            for k, e in enumerate(cm):
                v = nums[k + 1] if k + 1 < n else None
                if not (e.rargs[0] is found and e.rargs[1] is v and v is not None):
                    wired = False
                    break
                if k < len(oe):
                    o = oe[k]
                    if not ((o.rargs[0] is e.result.children.get("Some.0") and o.rargs[1] is prefv)):
                        wired = False
                        break
                    keep = E.decide(ctx, p.pc + ["(not %s)" % o.result.term])["verdict"] == "holds"
                    found = found if keep else v
            if not wired:
                rec.add("path %d [%s]: each later argument is compared as cmp2(running extreme, argument) and the outcome tested against the preferred ordering" % (i, tag),
                        {"verdict": "violated", "per_solver": {"structural": "event identity"}, "time_s": 0})
                continue
            if ret.variant == "Ok":
                opt = ret.fields["0"]
                if isinstance(opt, sym.Agg) and opt.variant == "Some":
                    got = opt.fields["0"].fields.get("0") if isinstance(opt.fields["0"], sym.Agg) and opt.fields["0"].variant == "CLONE" else None
                    ok = n >= 1 and len(cm) == n - 1 and len(oe) == n - 1 and got is found
                    nodisc = all(E.decide(ctx, p.pc + ["(not (= %s %s))" % (ex.discriminant(elems[k]).term, bvlit(0, 64))])["verdict"] == "holds" for k in range(n))
                    rec.add("path %d [%s]: returns (a copy of) the argument the fold selects; every argument was a number" % (i, tag),
                            {"verdict": "holds" if ok and nodisc else "violated", "per_solver": {"structural": "identity"}, "time_s": 0})
                    seen.add("some")
                elif isinstance(opt, sym.Agg) and opt.variant == "None":
                    # left to CSS: the last argument read is special, or the last pair has no ordering but may be compared by CSS
                    may = [e for e in p.events if e.callee == "may_cmp_css"]
                    if may:
                        good = may[-1].rargs[0] is cm[-1].rargs[0] and may[-1].rargs[1] is cm[-1].rargs[1]
                        r = E.decide(ctx, p.pc + ["(not (and %s (= %s %s)))" % (may[-1].result.term, ex.discriminant(cm[-1].result).term, bvlit(0, 64))])
                        rec.add("path %d [%s]: left to CSS only when the pair has no ordering and CSS may compare it" % (i, tag),
                                r if good else {"verdict": "violated", "per_solver": {"structural": "identity"}, "time_s": 0})
                        seen.add("css-pair")
                    else:
                        r = E.decide(ctx, p.pc + ["(not (= %s %s))" % (ex.discriminant(elems[n - 1]).term, bvlit(1, 64))]) if n else {"verdict": "violated", "per_solver": {}, "time_s": 0}
                        rec.add("path %d [%s]: left to CSS because the argument just read is a special (calc) value" % (i, tag), r)
                        seen.add("css-special")
                else:
                    rec.add("path %d [%s]: Ok payload not recognised" % (i, tag), {"verdict": "inconclusive", "per_solver": {}, "time_s": 0})
            else:
                err = ret.fields["0"]
                if isinstance(err, sym.Agg) and err.variant == "Incompatible":
                    may = [e for e in p.events if e.callee == "may_cmp_css"]
                    good = bool(may) and may[-1].rargs[0] is cm[-1].rargs[0] and may[-1].rargs[1] is cm[-1].rargs[1]
                    r = E.decide(ctx, p.pc + ["(not (and (not %s) (= %s %s)))" % (may[-1].result.term, ex.discriminant(cm[-1].result).term, bvlit(0, 64))]) if good else None
                    rec.add("path %d [%s]: an error only for a pair with no ordering that CSS cannot compare either" % (i, tag),
                            r if good else {"verdict": "violated", "per_solver": {"structural": "identity"}, "time_s": 0})
                    seen.add("incompatible")
                else:
                    rec.add("path %d [%s]: `at least one argument` error exactly for an empty argument list" % (i, tag),
                            {"verdict": "holds" if n == 0 else "violated", "per_solver": {"structural": "path shape"}, "time_s": 0})
                    seen.add("empty")
        need = {"some", "css-pair", "css-special", "incompatible", "empty"}
        if not need <= seen:
            rec.add("%s: all outcome kinds explored (%s missing)" % (pref, sorted(need - seen)), {"verdict": "inconclusive", "per_solver": {}, "time_s": 0})
    rec.notes.append("argument lists of 0..4 values (loop unrolled 4 times); cmp2 and may_cmp_css are uninterpreted (Numeric::partial_cmp: C11/C12 kernels)")
    return rec


# ------------------------------------------------------------------ C04 / C39: file lookup

def _result_models():
    """Result::map / map_err on concrete Ok/Err aggregates (the payload is wrapped, the variant is kept)."""
    def m_map(ex, st, c, a, d):
        x = a[0]
        if isinstance(x, sym.Agg) and x.variant == "Ok":
            return sym.Agg(d, "Ok", {"0": sym.Agg("mapped", "MAPPED", {"0": x.fields["0"]})}, 0)
        if isinstance(x, sym.Agg) and x.variant == "Err":
            return x
        return None

    def m_map_err(ex, st, c, a, d):
        x = a[0]
        if isinstance(x, sym.Agg) and x.variant == "Err":
            return sym.Agg(d, "Err", {"0": sym.Agg("mapped", "MAPPED", {"0": x.fields["0"]})}, 1)
        if isinstance(x, sym.Agg) and x.variant == "Ok":
            return x
        return None

    return [(r"^std::result::Result::<.*>::map::<", m_map), (r"^std::result::Result::<.*>::map_err::<", m_map_err)]


def _payload_contains(v, target, depth=0):
    """does the (nested) aggregate v carry `target` somewhere inside (through Err/MAPPED/tuple wrappers)?"""
    if v is target:
        return True
    if isinstance(v, sym.Agg) and depth < 6:
        return any(_payload_contains(x, target, depth + 1) for x in v.fields.values())
    return False


def _no_logging(ctx):
    """tracing macros: the level test is false, i.e. logging has an empty body (it is not the subject)"""
    return [(r"^<Level as PartialOrd<LevelFilter>>::le$", lambda ex, st, c, a, d: sym.mk_bool("false"))]


def k_do_find_file(E, tier):
    """C04/C39: Context::do_find_file asks the loader for the candidate names in table order, returns the first
    that exists together with its name, stops at the first loader error and returns that error, and gives
    None only when every candidate is absent.  A URL with an explicit .css/.sass/.scss extension is looked
    up as it is (one call)."""
    f = E.find(name_re=r"^input::context::<impl at .*>::do_find_file$")
    rec = Rec("Context::do_find_file", f, E)
    ctx = E.ctx()
    me = sym.Opaque("Context<AnyLoader>", "self", ctx)
    url = sym.Opaque("&str", "url", ctx)
    names = sym.Opaque("&[&dyn Fn]", "names", ctx)
    cands, errs, files = [], [], []

    def full(ex, st, x):
        while isinstance(x, sym.Ref):
            x = ex.deref(st, x)
        return x

    def m_ends(ex, st, c, a, d):
        b = ctx.fresh_scalar("bool", "ends_with")
        st.events.append(sym.Event("ends_with", a, b, len(st.pc)))
        return b

    def m_next(ex, st, c, a, d):
        n = sum(1 for e in st.events if e.callee == "next-some")
        if n >= 3:
            st.events.append(sym.Event("cut", [], None, len(st.pc)))
            return sym.Agg(d, "None", {}, 0)
        while len(cands) <= n:
            cands.append(sym.Opaque("String", "candidate%d" % len(cands), ctx))
        some, none = st.fork(), st.fork()
        some.events.append(sym.Event("next-some", [], None, len(st.pc)))
        none.events.append(sym.Event("next-none", [], None, len(st.pc)))
        return [(some, sym.Agg(d, "Some", {"0": cands[n]}, 1)), (none, sym.Agg(d, "None", {}, 0))]

    def m_loader(ex, st, c, a, d):
        k = sum(1 for e in st.events if e.callee == "loader")
        while len(errs) <= k:
            errs.append(sym.Opaque("LoadError", "err%d" % len(errs), ctx))
            files.append(sym.Opaque("File", "file%d" % len(files), ctx))
        out = []
        for kind, val in (("err", sym.Agg(d, "Err", {"0": errs[k]}, 1)), ("none", sym.Agg(d, "Ok", {"0": sym.Agg("Option", "None", {}, 0)}, 0)),
                          ("some", sym.Agg(d, "Ok", {"0": sym.Agg("Option", "Some", {"0": files[k]}, 1)}, 0))):
            s2 = st.fork()
            e = sym.Event("loader", a, kind, len(st.pc))
            e.rargs = [full(ex, st, x) for x in a]
            s2.events.append(e)
            out.append((s2, val))
        return out

    ident = lambda ex, st, c, a, d: a[0]
    models = [
        (r"^core::str::<impl str>::ends_with::<&str>$", m_ends),
        (r"^<AnyLoader as Loader>::find_file$", m_loader),
        (r"^core::slice::<impl \[&dyn .*\]>::iter$", lambda ex, st, c, a, d: sym.Opaque("iter", "iter", ctx)),
        (r"as Iterator>::map::<String", ident), (r"^<std::iter::Map<.*> as IntoIterator>::into_iter$", ident),
        (r"^<std::iter::Map<.*> as Iterator>::next$", m_next),
        (r"^<String as Deref>::deref$", lambda ex, st, c, a, d: sym.Ref("val", full(ex, st, a[0]))),
    ] + _result_models() + BASE_MODELS
    ex = sym.Executor(ctx, models=models, unroll=6, feasibility=E.feasibility(ctx))
    paths = [p for p in ex.run(f, [sym.Ref("val", me), url, names]) if p.status == "return"]
    rec.paths = len(paths)
    seen = set()
    for i, p in enumerate(paths):
        if any(e.callee == "cut" for e in p.events):
            continue
        calls = [e for e in p.events if e.callee == "loader"]
        looped = any(e.callee in ("next-some", "next-none") for e in p.events)
        ret = p.ret
        if not (isinstance(ret, sym.Agg) and ret.variant in ("Ok", "Err")):
            rec.add("path %d: Ok or Err is returned (shape not recognised)" % i, {"verdict": "inconclusive", "per_solver": {"structural": repr(ret)[:50]}, "time_s": 0})
            continue
        if not looped:
            ok = len(calls) == 1 and calls[0].rargs[1] is url
            if ok and calls[0].result == "err":
                ok = ret.variant == "Err" and _payload_contains(ret, errs[0])
            elif ok and calls[0].result == "some":
                ok = ret.variant == "Ok" and _payload_contains(ret, files[0])
            elif ok:
                ok = ret.variant == "Ok" and not _payload_contains(ret, files[0])
            ext = [e for e in p.events if e.callee == "ends_with"]
            r = E.decide(ctx, p.pc + ["(not (or false %s))" % " ".join(e.result.term for e in ext)]) if ext else {"verdict": "violated", "per_solver": {}, "time_s": 0}
            rec.add("path %d [direct/%s]: a URL with an explicit extension is asked for as it is, once, and the loader's answer (error included) is the result"
                    % (i, calls[0].result if calls else "-"), r if ok else {"verdict": "violated", "per_solver": {"structural": "event identity"}, "time_s": 0})
            seen.add("direct-" + (calls[0].result if calls else "-"))
            continue
        n = sum(1 for e in p.events if e.callee == "next-some")
        order = len(calls) <= n and all(calls[k].rargs[1] is cands[k] for k in range(len(calls)))
        early = all(c_.result == "none" for c_ in calls[:-1])
        tag = "loop/%d/%s" % (n, calls[-1].result if calls else "exhausted")
        if not (order and early):
            rec.add("path %d [%s]: candidate k is looked up k-th, and nothing is looked up after an error or a hit" % (i, tag),
                    {"verdict": "violated", "per_solver": {"structural": "event identity"}, "time_s": 0})
            continue
        last = calls[-1].result if calls else "none"
        k = len(calls) - 1
        if last == "err":
            ok = ret.variant == "Err" and _payload_contains(ret, errs[k])
            what = "a loader error ends the search and is returned"
        elif last == "some":
            pay = ret.fields["0"] if ret.variant == "Ok" else None
            ok = (isinstance(pay, sym.Agg) and pay.variant == "Some" and _payload_contains(pay, files[k]) and _payload_contains(pay, cands[k])
                  and not any(_payload_contains(pay, cands[j]) for j in range(len(cands)) if j != k))
            what = "the first existing candidate is returned with its own name"
        else:
            pay = ret.fields["0"] if ret.variant == "Ok" else None
            ok = isinstance(pay, sym.Agg) and pay.variant == "None" and len(calls) == n and any(e.callee == "next-none" for e in p.events)
            what = "None only after every candidate was looked up and found absent"
        rec.add("path %d [%s]: %s" % (i, tag, what), {"verdict": "holds" if ok else "violated", "per_solver": {"structural": "event identity"}, "time_s": 0})
        seen.add("loop-" + last)
    need = {"direct-err", "direct-some", "direct-none", "loop-err", "loop-some", "loop-none"}
    if not need <= seen:
        rec.add("all outcome kinds explored (%s missing)" % sorted(need - seen), {"verdict": "inconclusive", "per_solver": {}, "time_s": 0})
    rec.notes.append("0..3 candidates (loop unrolled 3 times); the loader is a nondeterministic stub returning Err / Ok(None) / Ok(Some)")
    return rec


_TEMPLATES_USE = ["{base}{name}.scss", "{base}_{name}.scss", "{base}{name}/index.scss", "{base}{name}/_index.scss", "{base}{name}.css", "{base}_{name}.css"]
_TEMPLATES_IMPORT = ["{base}{name}.import.scss", "{base}_{name}.import.scss", "{base}{name}.scss", "{base}_{name}.scss",
                     "{base}{name}/index.import.scss", "{base}{name}/_index.import.scss", "{base}{name}/index.scss", "{base}{name}/_index.scss",
                     "{base}{name}.css", "{base}_{name}.css"]


def _decode_template(func):
    """format template of a `|base, name| format!(..)` closure, from the byte-encoded template constant in its MIR"""
    src = func.source()
    m = re.search(r'const b"((?:[^"\\]|\\.)*)";', src)
    if not m or len(re.findall(r"new_display::<&str>", src)) != 2:
        return None
    raw = bytes(m.group(1), "latin-1").decode("unicode_escape").encode("latin-1")
    # argument order: the tuple handed to the formatter is (&base, &name) = (&_2, &_3)
    t = re.search(r"_\d+ = \(move (_\d+), move (_\d+)\);", src)
    if not t:
        return None
    refs = {}
    for loc in t.groups():
        mm = re.search(r"%s = &(_\d+);" % loc, src)
        if not mm:
            return None
        refs[loc] = {"_2": "{base}", "_3": "{name}"}.get(mm.group(1))
    argnames = [refs[t.group(1)], refs[t.group(2)]]
    if None in argnames:
        return None
    out, i, nxt = "", 0, 0
    while i < len(raw):
        b = raw[i]
        if b == 0:
            break
        if b == 0xC0:
            if nxt >= 2:
                return None
            out += argnames[nxt]
            nxt += 1
            i += 1
        elif b < 0x80:
            out += raw[i + 1:i + 1 + b].decode("latin-1")
            i += 1 + b
        else:
            return None
    return out


def k_find_file(E, tier):
    """C04/C39: Context::find_file: (a) the two candidate tables, read from the compiled closures, are the
    documented lists in the documented order, the import table for @import and the other for @use/@forward;
    (b) a failure of the lookup, of reading the file, or of the loop lock makes find_file return an error —
    Ok(Some(file)) only when all three succeeded, Ok(None) only when nothing was found."""
    f = E.find(name_re=r"^input::context::<impl at .*>::find_file$")
    rec = Rec("Context::find_file", f, E)
    # (a) the tables
    for idx, want, what in ((0, _TEMPLATES_IMPORT, "@import"), (1, _TEMPLATES_USE, "@use/@forward")):
        pname = "%s::promoted[%d]" % (f.name, idx)
        pf = [g for g in E.funcs if g.name == pname]
        got = None
        if len(pf) == 1:
            spans = re.findall(r"_\d+ = \{closure@([^}]+)\};", pf[0].source())
            arr = re.search(r"_1 = \[(.*)\];", pf[0].source())
            got = []
            for sp in spans:
                cl = [g for g in E.funcs if g.name.startswith(f.name + "::{closure#") and ("{closure@%s}" % sp) in g.text[0]]
                got.append(_decode_template(cl[0]) if len(cl) == 1 else None)
            if arr is None or len(sym.split_top(arr.group(1))) != len(spans):
                got = None
        if got is None or None in got:
            rec.add("%s candidate table could be read from the compiled closures (shape not recognised)" % what, {"verdict": "inconclusive", "per_solver": {"structural": repr(got)[:80]}, "time_s": 0})
        else:
            rec.add("%s candidates are %s, in this order" % (what, ", ".join(t.replace("{base}", "").replace("{name}", "u") for t in want)),
                    {"verdict": "holds" if got == want else "violated", "per_solver": {"structural": "table read from MIR: %s" % got}, "time_s": 0})
    # (b) propagation
    ctx = E.ctx()
    me = sym.Opaque("Context<AnyLoader>", "self", ctx)
    url = sym.Opaque("&str", "url", ctx)
    frm = sym.Opaque("SourceKind", "from", ctx)
    e1, e2, e3 = (sym.Opaque("Error", n, ctx) for n in ("lookup-error", "read-error", "loop-error"))
    found = sym.Agg("tuple", None, {"0": sym.Opaque("String", "path", ctx), "1": sym.Opaque("File", "file", ctx)})
    sf = sym.Opaque("SourceFile", "sourcefile", ctx)
    imp = ctx.fresh_scalar("bool", "is_import")

    def fork(name, outcomes):
        def m(ex, st, c, a, d):
            out = []
            for kind, val in outcomes(d):
                s2 = st.fork()
                e = sym.Event(name, a, kind, len(st.pc))
                e.rargs = [ex.resolve_ref(st, x) for x in a]
                s2.events.append(e)
                out.append((s2, val))
            return out
        return m

    models = [
        (r"^SourceKind::is_import$", lambda ex, st, c, a, d: imp),
        (r"::do_find_file$", fork("lookup", lambda d: [("err", sym.Agg(d, "Err", {"0": e1}, 1)), ("none", sym.Agg(d, "Ok", {"0": sym.Agg("Option", "None", {}, 0)}, 0)),
                                                       ("some", sym.Agg(d, "Ok", {"0": sym.Agg("Option", "Some", {"0": found}, 1)}, 0))])),
        (r"^SourceFile::read::<", fork("read", lambda d: [("err", sym.Agg(d, "Err", {"0": e2}, 1)), ("ok", sym.Agg(d, "Ok", {"0": sf}, 0))])),
        (r"::lock_loading$", fork("lock", lambda d: [("err", sym.Agg(d, "Err", {"0": e3}, 1)), ("ok", sym.Agg(d, "Ok", {"0": sym.Unit()}, 0))])),
        (r"::promoted\[\d+\]$", None),
    ] + _no_logging(ctx) + BASE_MODELS
    models = [m for m in models if m[1] is not None]
    ex = sym.Executor(ctx, models=models, feasibility=E.feasibility(ctx))
    paths = [p for p in ex.run(f, [sym.Ref("val", me), url, frm]) if p.status == "return"]
    rec.paths = len(paths)
    seen = set()
    for i, p in enumerate(paths):
        ev = {e.callee: e for e in p.events if e.callee in ("lookup", "read", "lock")}
        ret = p.ret
        if not (isinstance(ret, sym.Agg) and ret.variant in ("Ok", "Err")) or "lookup" not in ev:
            rec.add("path %d: one lookup and an Ok/Err result (shape not recognised)" % i, {"verdict": "inconclusive", "per_solver": {}, "time_s": 0})
            continue
        lk, rd, lo = ev["lookup"].result, ev.get("read") and ev["read"].result, ev.get("lock") and ev["lock"].result
        tag = "%s/%s/%s" % (lk, rd or "-", lo or "-")
        seen.add(tag)
        if lk == "err":
            ok = ret.variant == "Err" and _payload_contains(ret, e1) and rd is None and lo is None
            what = "a lookup failure is returned as an error, nothing is read"
        elif lk == "none":
            ok = ret.variant == "Ok" and isinstance(ret.fields["0"], sym.Agg) and ret.fields["0"].variant == "None" and rd is None and lo is None
            what = "nothing found gives Ok(None)"
        elif rd == "err":
            ok = ret.variant == "Err" and _payload_contains(ret, e2) and lo is None
            what = "a read failure is returned as an error"
        elif rd == "ok" and lo == "err":
            ok = ret.variant == "Err" and _payload_contains(ret, e3)
            what = "a loop detected by the lock is returned as an error"
        elif rd == "ok" and lo == "ok":
            ok = (ret.variant == "Ok" and isinstance(ret.fields["0"], sym.Agg) and ret.fields["0"].variant == "Some" and ret.fields["0"].fields["0"] is sf
                  and ev["lock"].rargs[1] is sf and ev["read"].rargs[0] is found.fields["1"])
            what = "Ok(Some(file)) is the file that was read from the handle that was found, and it was locked"
        else:
            rec.add("path %d [%s]: outcome combination not recognised" % (i, tag), {"verdict": "inconclusive", "per_solver": {}, "time_s": 0})
            continue
        rec.add("path %d [%s]: %s" % (i, tag, what), {"verdict": "holds" if ok else "violated", "per_solver": {"structural": "event identity"}, "time_s": 0})
        # which table is handed to the lookup: the 10-entry import table exactly for an @import
        tbl = ev["lookup"].rargs[2] if len(ev["lookup"].rargs) > 2 else None
        n_tbl = len(tbl.fields) if isinstance(tbl, sym.Agg) else None
        if n_tbl in (len(_TEMPLATES_IMPORT), len(_TEMPLATES_USE)):
            want_imp = imp.term if n_tbl == len(_TEMPLATES_IMPORT) else "(not %s)" % imp.term
            r = E.decide(ctx, p.pc + ["(not %s)" % want_imp])
            rec.add("path %d [%s]: the %d-entry table is used exactly for %s" % (i, tag, n_tbl, "@import" if n_tbl == len(_TEMPLATES_IMPORT) else "@use/@forward"), r)
        else:
            rec.add("path %d [%s]: one of the two candidate tables is handed to the lookup (shape not recognised)" % (i, tag),
                    {"verdict": "inconclusive", "per_solver": {"structural": repr(tbl)[:60]}, "time_s": 0})
    need = {"err/-/-", "none/-/-", "some/err/-", "some/ok/err", "some/ok/ok"}
    if not need <= seen:
        rec.add("all outcome combinations explored (%s missing)" % sorted(need - seen), {"verdict": "inconclusive", "per_solver": {}, "time_s": 0})
    rec.notes.append("do_find_file, SourceFile::read and lock_loading are nondeterministic stubs (every Ok/Err outcome); tracing is disabled")
    return rec


def k_fsloader_find(E, tier):
    """C04/C39: FsLoader::find_file tries the load paths in order and opens the first one where the file
    exists; a failure to open it is an error (not `not found`), and an empty URL finds nothing."""
    f = E.find(name_re=r"^fsloader::<impl at .*>::find_file$")
    rec = Rec("FsLoader::find_file", f, E)
    ctx = E.ctx()
    me = sym.Opaque("FsLoader", "self", ctx)
    url = sym.Opaque("&str", "url", ctx)
    bases, joined, ioerr, handle = [], [], sym.Opaque("std::io::Error", "io-error", ctx), sym.Opaque("File", "handle", ctx)
    empty = ctx.fresh_scalar("bool", "url_is_empty")

    def full(ex, st, x):
        while isinstance(x, sym.Ref):
            x = ex.deref(st, x)
        return x

    def m_next(ex, st, c, a, d):
        n = sum(1 for e in st.events if e.callee == "next-some")
        if n >= 3:
            st.events.append(sym.Event("cut", [], None, len(st.pc)))
            return sym.Agg(d, "None", {}, 0)
        while len(bases) <= n:
            bases.append(sym.Opaque("PathBuf", "loadpath%d" % len(bases), ctx))
            joined.append(sym.Opaque("PathBuf", "loadpath%d/url" % len(joined), ctx))
        some, none = st.fork(), st.fork()
        some.events.append(sym.Event("next-some", [], None, len(st.pc)))
        none.events.append(sym.Event("next-none", [], None, len(st.pc)))
        return [(some, sym.Agg(d, "Some", {"0": sym.Ref("val", bases[n])}, 1)), (none, sym.Agg(d, "None", {}, 0))]

    def m_join(ex, st, c, a, d):
        b = full(ex, st, a[0])
        k = [i for i, x in enumerate(bases) if x is b]
        e = sym.Event("join", a, None, len(st.pc))
        e.rargs = [b, full(ex, st, a[1])]
        st.events.append(e)
        return joined[k[0]] if k and e.rargs[1] is url else sym.Opaque("PathBuf", "other-path", ctx)

    def m_is_file(ex, st, c, a, d):
        yes, no = st.fork(), st.fork()
        for s2, r in ((yes, True), (no, False)):
            e = sym.Event("is_file", a, r, len(st.pc))
            e.rargs = [full(ex, st, a[0])]
            s2.events.append(e)
        return [(yes, sym.mk_bool("true")), (no, sym.mk_bool("false"))]

    def m_open(ex, st, c, a, d):
        ok, err = st.fork(), st.fork()
        for s2, r in ((ok, "ok"), (err, "err")):
            e = sym.Event("open", a, r, len(st.pc))
            e.rargs = [full(ex, st, a[0])]
            s2.events.append(e)
        return [(ok, sym.Agg(d, "Ok", {"0": handle}, 0)), (err, sym.Agg(d, "Err", {"0": ioerr}, 1))]

    deref = lambda ex, st, c, a, d: sym.Ref("val", full(ex, st, a[0]))
    models = [
        (r"^core::str::<impl str>::is_empty$", lambda ex, st, c, a, d: empty),
        (r"^<&Vec<PathBuf> as IntoIterator>::into_iter$", lambda ex, st, c, a, d: sym.Opaque("iter", "iter", ctx)),
        (r"^<std::slice::Iter<'_, PathBuf> as Iterator>::next$", m_next),
        (r"^<PathBuf as Deref>::deref$", deref), (r"^Path::join::<&str>$", m_join), (r"^Path::is_file$", m_is_file), (r"^File::open::<", m_open),
    ] + _no_logging(ctx) + _result_models() + BASE_MODELS
    ex = sym.Executor(ctx, models=models, unroll=6, feasibility=E.feasibility(ctx))
    paths = [p for p in ex.run(f, [sym.Ref("val", me), url]) if p.status == "return"]
    rec.paths = len(paths)
    seen = set()
    for i, p in enumerate(paths):
        if any(e.callee == "cut" for e in p.events):
            continue
        tests = [e for e in p.events if e.callee == "is_file"]
        opens = [e for e in p.events if e.callee == "open"]
        ret = p.ret
        if not (isinstance(ret, sym.Agg) and ret.variant in ("Ok", "Err")):
            rec.add("path %d: Ok/Err result (shape not recognised)" % i, {"verdict": "inconclusive", "per_solver": {}, "time_s": 0})
            continue
        order = all(tests[k].rargs[0] is joined[k] for k in range(len(tests))) and all(t.result is False for t in tests[:-1])
        if not order or len(opens) > 1:
            rec.add("path %d: load path k joined with the URL is tested k-th, nothing is tested after a hit" % i, {"verdict": "violated", "per_solver": {"structural": "event identity"}, "time_s": 0})
            continue
        hit = bool(tests) and tests[-1].result is True
        if hit:
            k = len(tests) - 1
            good = len(opens) == 1 and opens[0].rargs[0] is joined[k]
            if good and opens[0].result == "ok":
                good = ret.variant == "Ok" and _payload_contains(ret, handle)
                kind = "opened"
            elif good:
                good = ret.variant == "Err" and _payload_contains(ret, ioerr)
                kind = "open-error"
            else:
                kind = "?"
            rec.add("path %d [%d load path(s), %s]: the first existing file is opened; %s" % (i, len(tests), kind, "its handle is returned" if kind == "opened" else "the I/O error is returned as an error"),
                    {"verdict": "holds" if good else "violated", "per_solver": {"structural": "event identity"}, "time_s": 0})
            seen.add(kind)
        else:
            pay = ret.fields["0"] if ret.variant == "Ok" else None
            good = isinstance(pay, sym.Agg) and pay.variant == "None" and not opens
            if good and not tests:
                pass
            rec.add("path %d [%d load path(s), none exists]: Ok(None), nothing opened" % (i, len(tests)),
                    {"verdict": "holds" if good else "violated", "per_solver": {"structural": "path shape"}, "time_s": 0})
            seen.add("none")
    if not {"opened", "open-error", "none"} <= seen:
        rec.add("all outcome kinds explored (%s)" % sorted(seen), {"verdict": "inconclusive", "per_solver": {}, "time_s": 0})
    rec.notes.append("0..3 load paths; Path::is_file and File::open are nondeterministic stubs; tracing disabled")
    return rec


def k_lock_pairing(E, tier):
    """C02 (pairing) / C04 (plain-CSS fallback): in the @use, @forward and @import arms of handle_item every
    file that find_file handed out (locked) is unlocked exactly once before the arm goes on or returns Ok —
    for both kinds of parsed file — so that only a real cycle can meet a lock; and an @import that finds no
    file is emitted as a plain CSS import only for http://, https://, //, *.css or url() targets (or when it
    has media arguments), and is an error otherwise."""
    items = E.load_enum("sass/item.rs", "Item", "sass::item::Item")
    f = E.find(name="handle_item")
    rec = Rec("handle_item (@use / @forward / @import arms: lock pairing, CSS fallback)", f, E)
    for arm in ("Use", "Forward", "Import"):
        ctx = E.ctx()
        item = sym.Opaque("sass::item::Item", "item", ctx)
        ctx.assumptions.append("(= %s %s)" % (item.discriminant().term, bvlit(items.index(arm), 64)))
        files, preds = [], {}

        def full(ex, st, x):
            while isinstance(x, sym.Ref):
                x = ex.deref(st, x)
            return x

        def m_find(ex, st, c, a, d, files=files, ctx=ctx):
            k = sum(1 for e in st.events if e.callee == "find")
            while len(files) <= k:
                files.append(sym.Opaque("SourceFile", "file%d" % len(files), ctx))
            out = []
            for kind, val in (("err", sym.Agg(d, "Err", {"0": sym.Opaque("Error", "find-error", ctx)}, 1)),
                              ("none", sym.Agg(d, "Ok", {"0": sym.Agg("Option", "None", {}, 0)}, 0)),
                              ("some", sym.Agg(d, "Ok", {"0": sym.Agg("Option", "Some", {"0": files[k]}, 1)}, 0))):
                s2 = st.fork()
                e = sym.Event("find", a, kind, len(st.pc))
                e.rargs = [full(ex, st, x) for x in a]
                s2.events.append(e)
                out.append((s2, val))
            return out

        def m_unlock(ex, st, c, a, d):
            e = sym.Event("unlock", a, None, len(st.pc))
            e.rargs = [full(ex, st, x) for x in a]
            st.events.append(e)
            return sym.Unit()

        def m_pred(name):
            def m(ex, st, c, a, d, ctx=ctx, preds=preds):
                pat = a[1].s if len(a) > 1 and isinstance(a[1], sym.ConstStr) else ""
                b = ctx.fresh_scalar("bool", name + pat)
                n = sum(1 for e in st.events if e.callee == "next-some")
                preds.setdefault(n, {})[name + ":" + pat] = b
                return b
            return m

        def m_next(ex, st, c, a, d, ctx=ctx):
            n = sum(1 for e in st.events if e.callee == "next-some")
            if n >= 2:
                st.events.append(sym.Event("cut", [], None, len(st.pc)))
                return sym.Agg(d, "None", {}, 0)
            some, none = st.fork(), st.fork()
            some.events.append(sym.Event("next-some", [], None, len(st.pc)))
            none.events.append(sym.Event("next-none", [], None, len(st.pc)))
            return [(some, sym.Agg(d, "Some", {"0": sym.Ref("val", sym.Opaque("SassString", "name%d" % n, ctx))}, 1)), (none, sym.Agg(d, "None", {}, 0))]

        def m_push_import(ex, st, c, a, d):
            st.events.append(sym.Event("push_import", a, None, len(st.pc)))
            return sym.Unit()

        paths_of = {}

        def m_path(ex, st, c, a, d, paths_of=paths_of, ctx=ctx):
            fobj = full(ex, st, a[0])
            if id(fobj) not in paths_of:
                paths_of[id(fobj)] = (fobj, sym.Opaque("&str", "path-of-%s" % getattr(fobj, "name", "?"), ctx))
            return paths_of[id(fobj)][1]

        def m_load_module(ex, st, c, a, d, ctx=ctx):
            ok, err = st.fork(), st.fork()
            e = sym.Event("load_module", a, None, len(st.pc))
            e.rargs = [full(ex, st, x) for x in a]
            ok.events.append(e)
            return [(ok, sym.Agg(d, "Ok", {"0": sym.Opaque("ScopeRef", "module", ctx)}, 0)), (err, sym.Agg(d, "Err", {"0": sym.Opaque("Error", "module-error", ctx)}, 1))]

        models = [
            (r"::find_file$", m_find), (r"::unlock_loading$", m_unlock),
            (r"^core::str::<impl str>::starts_with::<&str>$", m_pred("starts_with")), (r"^core::str::<impl str>::ends_with::<&str>$", m_pred("ends_with")),
            (r"^CssString::is_css_url$", m_pred("is_css_url")), (r"^sass::value::Value::is_null$", m_pred("args_is_null")),
            (r"^<std::slice::Iter<'_, SassString> as Iterator>::next$", m_next),
            (r"::push_import$", m_push_import),
            (r"^SourceFile::path$", m_path), (r"^CssData::load_module::<", m_load_module),
        ] + BASE_MODELS
        ex = sym.Executor(ctx, models=models, unroll=4, feasibility=E.feasibility(ctx), max_paths=6000)
        paths = [p for p in ex.run(f, [sym.Ref("val", item), sym.Opaque("&mut dyn CssDestination", "dest", ctx),
                                       sym.Opaque("ScopeRef", "scope", ctx), sym.Opaque("&mut Context", "fctx", ctx)]) if p.status == "return"]
        rec.paths += len(paths)
        n_ok = n_pair = n_fb = 0
        bad_pair, bad_fb, unknown = [], [], 0
        for i, p in enumerate(paths):
            if any(e.callee == "cut" for e in p.events):
                continue
            ret = p.ret
            if isinstance(ret, sym.Opaque):
                unknown += 1
                continue
            if not (isinstance(ret, sym.Agg) and ret.variant in ("Ok", "Err")):
                unknown += 1
                continue
            if ret.variant == "Err":
                continue
            n_ok += 1
            seq = [e for e in p.events if e.callee in ("find", "unlock", "push_import", "next-some")]
            held = None
            good = True
            for e in seq:
                if e.callee == "find":
                    if held is not None:
                        good = False
                    if e.result == "some":
                        k = sum(1 for x in seq[:seq.index(e)] if x.callee == "find")
                        held = files[k]
                elif e.callee == "unlock":
                    if held is None or e.rargs[1] is not held:
                        good = False
                    held = None
                elif e.callee == "next-some" and held is not None:
                    good = False
            if held is not None:
                good = False
            if any(e.callee == "find" and e.result == "some" for e in seq):
                n_pair += 1
                if not good:
                    bad_pair.append(i)
            # fallback: an iteration whose lookup found nothing and that went on to push_import
            if arm == "Import":
                it = -1
                state = {}
                for e in seq:
                    if e.callee == "next-some":
                        it += 1
                    elif e.callee == "find" and e.result == "none":
                        state[it] = "notfound"
                    elif e.callee == "push_import" and state.get(it) == "notfound":
                        pr = preds.get(it + 1, {})
                        terms = [b.term for k_, b in pr.items() if not k_.startswith("args_is_null")]
                        n_fb += 1
                        if not terms:
                            bad_fb.append(i)
                            continue
                        r = E.decide(ctx, p.pc + ["(not (or false %s))" % " ".join(terms)])
                        if r["verdict"] != "holds":
                            bad_fb.append(i)
        if n_ok == 0 or n_pair == 0:
            rec.add("@%s arm: a path that obtains a file and returns Ok exists (shape not recognised; %d paths with unknown result)" % (arm.lower(), unknown),
                    {"verdict": "inconclusive", "per_solver": {}, "time_s": 0})
            continue
        rec.add("@%s arm: on all %d Ok paths that obtained a file, that file is unlocked exactly once, before the next lookup and before returning" % (arm.lower(), n_pair),
                {"verdict": "holds" if not bad_pair else "violated", "per_solver": {"structural": "event order %s" % bad_pair[:5]}, "time_s": 0})
        if arm in ("Use", "Forward"):
            # the module cache is keyed by the path of the file that was found (not by the URL as written)
            n_lm, bad_key = 0, []
            for i, p in enumerate(paths):
                lm = [e for e in p.events if e.callee == "load_module"]
                fd = [e for e in p.events if e.callee == "find" and e.result == "some"]
                if not lm:
                    continue
                n_lm += 1
                key = lm[0].rargs[1] if len(lm[0].rargs) > 1 else None
                want = [po for (fo, po) in paths_of.values() if fd and fo is files[0]]
                if len(lm) != 1 or not want or key is not want[0]:
                    bad_key.append(i)
            if n_lm == 0:
                rec.add("@%s arm: the module cache is consulted (shape not recognised)" % arm.lower(), {"verdict": "inconclusive", "per_solver": {}, "time_s": 0})
            else:
                rec.add("@%s arm: the module cache is asked once, with the resolved path of the file that was found as its key" % arm.lower(),
                        {"verdict": "holds" if not bad_key else "violated", "per_solver": {"structural": "event identity %s" % bad_key[:5]}, "time_s": 0})
        if arm == "Import":
            if n_fb == 0:
                rec.add("@import arm: the plain-CSS fallback path exists (shape not recognised)", {"verdict": "inconclusive", "per_solver": {}, "time_s": 0})
            else:
                rec.add("@import arm: on all %d paths that emit a plain CSS import after a failed lookup, the URL is http://, https://, //, *.css or url()" % n_fb,
                        {"verdict": "holds" if not bad_fb else "violated", "per_solver": {"z3+cvc5": "pc implies the disjunction", "paths": str(bad_fb[:5])}, "time_s": 0})
                tested = sorted({k_ for pr in preds.values() for k_ in pr if k_.startswith(("starts_with:", "ends_with:"))})
                want_tests = ["ends_with:.css", "starts_with://", "starts_with:http://", "starts_with:https://"]
                rec.add("@import arm: the fallback's literal URL tests are exactly starts_with http://, https://, // and ends_with .css (a shorter prefix such as `http` "
                        "would turn a missing Sass file named http-helpers into a plain CSS import)",
                        {"verdict": "holds" if tested == want_tests else "violated", "per_solver": {"structural": ", ".join(tested)}, "time_s": 0})
    rec.notes.append("one or two imported names per @import; parse, load_module, handle_body, do_use … are opaque calls whose Result forks into Ok and Err")
    return rec


def k_module_init(E, tier):
    """C36 (and the style part of C08): the initialiser closures of the @use and @forward arms create the
    module's global scope with the *using* compilation's output format (style and precision), evaluate the
    parsed file in exactly that scope, and return it — so a used module is compressed (and drops its loud
    comments) exactly when the compilation is."""
    rec = None
    for which, marker in (("@use", "79"), ("@forward", "129")):
        cands = [g for g in E.funcs if re.match(r"^handle_item::\{closure#\d+\}$", g.name) and "ScopeRef::new_global" in g.source() and "handle_parsed" in g.source()]
        cands.sort(key=lambda g: g.line)
        idx = 0 if which == "@use" else 1
        if len(cands) != 2:
            raise sym.Unsupported("expected the two module initialiser closures of handle_item, found %d" % len(cands))
        f = cands[idx]
        if rec is None:
            rec = Rec("handle_item module initialiser closures (@use / @forward)", f, E)
        ctx = E.ctx()
        scope = sym.Opaque("ScopeRef", "using-scope", ctx)
        fmt = sym.Opaque("Format", "format-of-using-scope", ctx)
        module = sym.Opaque("ScopeRef", "module", ctx)

        def full(ex, st, x):
            while isinstance(x, sym.Ref):
                x = ex.deref(st, x)
            return x

        def m_deref(ex, st, c, a, d):
            return sym.Ref("val", full(ex, st, a[0]))

        def m_get_format(ex, st, c, a, d, fmt=fmt):
            e = sym.Event("get_format", a, fmt, len(st.pc))
            e.rargs = [full(ex, st, x) for x in a]
            st.events.append(e)
            return fmt

        def m_new_global(ex, st, c, a, d, module=module):
            e = sym.Event("new_global", a, module, len(st.pc))
            e.rargs = [full(ex, st, x) for x in a]
            st.events.append(e)
            return module

        def m_clone(ex, st, c, a, d):
            return full(ex, st, a[0])

        def m_next(ex, st, c, a, d):
            return sym.Agg(d, "None", {}, 0)  # no `with` configuration

        def m_res(name):
            def m(ex, st, c, a, d, ctx=ctx):
                ok, err = st.fork(), st.fork()
                e = sym.Event(name, a, None, len(st.pc))
                e.rargs = [full(ex, st, x) for x in a]
                ok.events.append(e)
                return [(ok, sym.Agg(d, "Ok", {"0": sym.Opaque("T", name + "-result", ctx)}, 0)), (err, sym.Agg(d, "Err", {"0": sym.Opaque("Error", name + "-error", ctx)}, 1))]
            return m

        models = [
            (r"^<ScopeRef as Deref>::deref$", m_deref), (r"^variablescope::Scope::get_format$", m_get_format), (r"^ScopeRef::new_global$", m_new_global),
            (r"^<ScopeRef as Clone>::clone$", m_clone), (r"^<std::slice::Iter<'_, \(Name, sass::value::Value, bool\)> as Iterator>::next$", m_next),
            (r"^SourceFile::parse$", m_res("parse")), (r"^handle_parsed::<", m_res("handle_parsed")),
        ] + BASE_MODELS
        ex = sym.Executor(ctx, models=models, feasibility=E.feasibility(ctx))
        env = sym.Opaque("closure", "env", ctx)
        # the first capture read through `.0` is the using scope in both closures; make every captured ScopeRef the same object
        paths = [p for p in ex.run(f, [env, sym.Opaque("&mut CssData", "dest", ctx)]) if p.status == "return"]
        rec.paths += len(paths)
        okp = [p for p in paths if isinstance(p.ret, sym.Agg) and p.ret.variant == "Ok"]
        if not okp:
            rec.add("%s initialiser: an Ok path exists (shape not recognised)" % which, {"verdict": "inconclusive", "per_solver": {}, "time_s": 0})
            continue
        for i, p in enumerate(okp):
            gf = [e for e in p.events if e.callee == "get_format"]
            ng = [e for e in p.events if e.callee == "new_global"]
            hp = [e for e in p.events if e.callee == "handle_parsed"]
            if len(ng) != 1 or len(hp) != 1:
                rec.add("%s initialiser path %d: one new global scope, one evaluation of the parsed file (shape not recognised)" % (which, i), {"verdict": "inconclusive", "per_solver": {}, "time_s": 0})
                continue
            captured_scopes = {id(e.rargs[0]) for e in gf}
            fmt_ok = len(gf) >= 1 and ng[0].rargs[0] is fmt and all(isinstance(e.rargs[0], sym.Opaque) and e.rargs[0].name.startswith("env") for e in gf)
            rec.add("%s initialiser path %d: the module's global scope gets the format read from the using scope" % (which, i),
                    {"verdict": "holds" if fmt_ok else "violated", "per_solver": {"structural": "event identity"}, "time_s": 0})
            same = p.ret.fields["0"] is module and any(x is module for x in hp[0].rargs)
            rec.add("%s initialiser path %d: the parsed file is evaluated in that scope, and that scope is the module returned" % (which, i),
                    {"verdict": "holds" if same else "violated", "per_solver": {"structural": "event identity"}, "time_s": 0})
    return rec


def k_load_css_lock(E, tier):
    """C02: meta.load-css keeps the loaded file locked while its body is evaluated: MixinDecl::get hands the
    locked file back inside the Mixin (and does not unlock it itself), and the @include arm of handle_item
    unlocks exactly that file after the body has been handled — so a cycle of load-css calls meets the lock
    (a loop error) instead of recursing without bound."""
    decls = E.load_enum("sass/mixin.rs", "MixinDecl")
    items = E.load_enum("sass/item.rs", "Item", "sass::item::Item")
    f = E.find(name_re=r"^mixin::<impl at .*>::get$", contains=["SourceKind::load_css"])
    rec = Rec("MixinDecl::get (load-css) and handle_item's @include arm", f, E)
    ctx = E.ctx()
    decl = sym.Opaque("MixinDecl", "decl", ctx)
    ctx.assumptions.append("(= %s %s)" % (decl.discriminant().term, bvlit(decls.index("LoadCss"), 64)))
    thefile = sym.Opaque("SourceFile", "loaded-file", ctx)

    def full(ex, st, x):
        while isinstance(x, sym.Ref):
            x = ex.deref(st, x)
        return x

    def m_find(ex, st, c, a, d):
        out = []
        for kind, val in (("err", sym.Agg(d, "Err", {"0": sym.Opaque("Error", "find-error", ctx)}, 1)),
                          ("none", sym.Agg(d, "Ok", {"0": sym.Agg("Option", "None", {}, 0)}, 0)),
                          ("some", sym.Agg(d, "Ok", {"0": sym.Agg("Option", "Some", {"0": thefile}, 1)}, 0))):
            s2 = st.fork()
            s2.events.append(sym.Event("find", a, kind, len(st.pc)))
            out.append((s2, val))
        return out

    def m_ok_or_else(ex, st, c, a, d):
        x = a[0]
        if isinstance(x, sym.Agg) and x.variant == "Some":
            return sym.Agg(d, "Ok", {"0": x.fields["0"]}, 0)
        if isinstance(x, sym.Agg) and x.variant == "None":
            return sym.Agg(d, "Err", {"0": sym.Opaque("CallError", "not-found", ctx)}, 1)
        return None

    def m_unlock(ex, st, c, a, d):
        e = sym.Event("unlock", a, None, len(st.pc))
        e.rargs = [full(ex, st, x) for x in a]
        st.events.append(e)
        return sym.Unit()

    def m_iter_none(ex, st, c, a, d):
        return sym.Agg(d, "None", {}, 0)

    models = [(r"::find_file$", m_find), (r"^Option::<SourceFile>::ok_or_else::<", m_ok_or_else), (r"::unlock_loading$", m_unlock),
              (r"^core::str::<impl str>::starts_with::<&str>$", lambda ex, st, c, a, d: sym.mk_bool("false")),
              (r"as Iterator>::next$", m_iter_none)] + BASE_MODELS
    ex = sym.Executor(ctx, models=models, feasibility=E.feasibility(ctx), max_paths=6000)
    paths = [p for p in ex.run(f, [decl, sym.Opaque("ScopeRef", "scope", ctx), sym.Opaque("&CallArgs", "args", ctx), sym.Opaque("&SourcePos", "pos", ctx),
                                   sym.Opaque("&mut Context", "fctx", ctx)]) if p.status == "return"]
    rec.paths = len(paths)
    okp = [p for p in paths if isinstance(p.ret, sym.Agg) and p.ret.variant == "Ok" and any(e.callee == "find" and e.result == "some" for e in p.events)]
    if not okp:
        rec.add("load-css: an Ok path that found a file exists (shape not recognised)", {"verdict": "inconclusive", "per_solver": {}, "time_s": 0})
    for i, p in enumerate(okp):
        mix = p.ret.fields["0"]
        unl = [e for e in p.events if e.callee == "unlock"]
        carried = isinstance(mix, sym.Agg) and any(isinstance(v, sym.Agg) and v.variant == "Some" and v.fields.get("0") is thefile for v in mix.fields.values())
        rec.add("load-css path %d: the file found is not unlocked before its body has been evaluated; it is handed to the caller inside the Mixin" % i,
                {"verdict": "holds" if (not unl and carried) else "violated", "per_solver": {"structural": "events: %d unlock, carried=%s" % (len(unl), carried)}, "time_s": 0})
    # the @include arm
    g = E.find(name="handle_item")
    ctx2 = E.ctx()
    item = sym.Opaque("sass::item::Item", "item", ctx2)
    ctx2.assumptions.append("(= %s %s)" % (item.discriminant().term, bvlit(items.index("MixinCall"), 64)))
    loaded = sym.Opaque("std::option::Option<SourceFile>", "mixin.loaded", ctx2)
    mixin = sym.Agg("Mixin", None, {"0": sym.Opaque("ScopeRef", "mixin.scope", ctx2), "1": sym.Opaque("Parsed", "mixin.body", ctx2), "2": loaded,
                                    "scope": None, "body": None, "loaded": loaded})
    mixin.fields["scope"], mixin.fields["body"] = mixin.fields["0"], mixin.fields["1"]

    def m_get_mixin(ex, st, c, a, d):
        return sym.Agg(d, "Some", {"0": sym.Opaque("MixinDecl", "decl", ctx2)}, 1)

    def m_get(ex, st, c, a, d):
        ok, err = st.fork(), st.fork()
        ok.events.append(sym.Event("get", a, None, len(st.pc)))
        return [(ok, sym.Agg(d, "Ok", {"0": mixin}, 0)), (err, sym.Agg(d, "Err", {"0": sym.Opaque("CallError", "call-error", ctx2)}, 1))]

    def m_handle(ex, st, c, a, d):
        ok, err = st.fork(), st.fork()
        e = sym.Event("handle_parsed", a, None, len(st.pc))
        e.rargs = [full(ex, st, x) for x in a]
        ok.events.append(e)
        return [(ok, sym.Agg(d, "Ok", {"0": sym.Unit()}, 0)), (err, sym.Agg(d, "Err", {"0": sym.Opaque("Error", "body-error", ctx2)}, 1))]

    def m_unlock2(ex, st, c, a, d):
        e = sym.Event("unlock", a, None, len(st.pc))
        e.rargs = [full(ex, st, x) for x in a]
        st.events.append(e)
        return sym.Unit()

    models2 = [(r"^variablescope::Scope::get_mixin$", m_get_mixin), (r"^mixin::<impl at .*>::get$|^MixinDecl::get::<", m_get), (r"^handle_parsed::<", m_handle),
               (r"::unlock_loading$", m_unlock2), (r"^std::result::Result::<.*>::map_err::<", lambda ex, st, c, a, d: a[0] if isinstance(a[0], sym.Agg) else None)] + BASE_MODELS
    ex2 = sym.Executor(ctx2, models=models2, feasibility=E.feasibility(ctx2), max_paths=6000)
    p2 = [p for p in ex2.run(g, [sym.Ref("val", item), sym.Opaque("&mut dyn CssDestination", "dest", ctx2), sym.Opaque("ScopeRef", "scope", ctx2),
                                 sym.Opaque("&mut Context", "fctx", ctx2)]) if p.status == "return"]
    rec.paths += len(p2)
    ok2 = [p for p in p2 if isinstance(p.ret, sym.Agg) and p.ret.variant == "Ok" and any(e.callee == "handle_parsed" for e in p.events)]
    if not ok2:
        rec.add("@include arm: an Ok path that handles a mixin body exists (shape not recognised)", {"verdict": "inconclusive", "per_solver": {}, "time_s": 0})
    kinds = set()
    D = ex2.discriminant(loaded).term
    for i, p in enumerate(ok2):
        seq = [e.callee for e in p.events if e.callee in ("handle_parsed", "unlock")]
        unl = [e for e in p.events if e.callee == "unlock"]
        has = E.decide(ctx2, p.pc + ["(not (= %s %s))" % (D, bvlit(1, 64))])["verdict"] == "holds"   # loaded is Some on this path
        hasnot = E.decide(ctx2, p.pc + ["(not (= %s %s))" % (D, bvlit(0, 64))])["verdict"] == "holds"
        if has:
            good = seq == ["handle_parsed", "unlock"] and unl[0].rargs[1] is loaded.children.get("Some.0")
            kinds.add("loaded")
            rec.add("@include arm path %d: a mixin that carries a locked file has exactly that file unlocked after its body was handled" % i,
                    {"verdict": "holds" if good else "violated", "per_solver": {"structural": "event order %s" % seq}, "time_s": 0})
        elif hasnot:
            kinds.add("plain")
            rec.add("@include arm path %d: nothing is unlocked for an ordinary mixin" % i,
                    {"verdict": "holds" if not unl else "violated", "per_solver": {"structural": "event order %s" % seq}, "time_s": 0})
        else:
            rec.add("@include arm path %d: the arm distinguishes mixins with and without a locked file (shape not recognised)" % i,
                    {"verdict": "inconclusive", "per_solver": {}, "time_s": 0})
    if ok2 and kinds != {"loaded", "plain"}:
        rec.add("@include arm: both kinds of mixin explored (%s)" % sorted(kinds), {"verdict": "inconclusive", "per_solver": {}, "time_s": 0})
    return rec


def k_formal_args_eval(E, tier):
    """C18: FormalArgs::eval binds arguments in the specified order: positional arguments by position,
    then — for each remaining parameter, left to right — the named argument of that name (consumed), else
    the default evaluated in the callee's argument scope (so it sees the parameters bound before it), else
    a `missing argument` error; then the rest parameter gets what is left, or left-over named arguments
    are an error; more arguments than parameters are an error unless there is a rest parameter."""
    f = E.find(name_re=r"^formal_args::<impl at .*>::eval$")
    rec = Rec("FormalArgs::eval", f, E)
    ctx = E.ctx()
    me = sym.Opaque("FormalArgs", "self", ctx)
    outer = sym.Opaque("ScopeRef", "outer-scope", ctx)
    args = sym.Opaque("css::call_args::CallArgs", "args", ctx)
    argscope = sym.Opaque("ScopeRef", "argscope", ctx)
    positional = sym.Opaque("Vec<css::value::Value>", "positional", ctx)
    m_len = ctx.fresh_scalar(("bv", 64, False), "args_len")
    np_len = ctx.fresh_scalar(("bv", 64, False), "args_positional_len")
    p_len = ctx.fresh_scalar(("bv", 64, False), "taken_len")
    n_len_holder = {}
    formals, posvals, namedvals, defvals = [], [], [], []

    def full(ex, st, x):
        while isinstance(x, sym.Ref):
            x = ex.deref(st, x)
        return x

    def formal(k):
        while len(formals) <= k:
            i = len(formals)
            formals.append((sym.Opaque("Name", "param%d" % i, ctx), sym.Opaque("std::option::Option<sass::value::Value>", "default%d" % i, ctx)))
            posvals.append(sym.Opaque("css::value::Value", "positional%d" % i, ctx))
            namedvals.append(sym.Opaque("css::value::Value", "named%d" % i, ctx))
            defvals.append(sym.Opaque("css::value::Value", "default-value%d" % i, ctx))
        return formals[k]

    def find_len(o, depth=0):
        # the declared number of parameters = PtrMetadata of self.0's slice: the `len` child somewhere below self.0
        if not isinstance(o, sym.Opaque) or depth > 6:
            return None
        if "len" in o.children and isinstance(o.children["len"], sym.Scalar):
            return o.children["len"].term
        for k_, v_ in o.children.items():
            r_ = find_len(v_, depth + 1)
            if r_ is not None:
                return r_
        return None

    def ev(name, st, ex, a, result=None):
        e = sym.Event(name, a, result, len(st.pc))
        e.rargs = [full(ex, st, x) for x in a]
        st.events.append(e)
        return e

    def m_sub(ex, st, c, a, d):
        ev("sub", st, ex, a)
        return argscope

    def m_args_len(ex, st, c, a, d):
        return m_len

    def m_vec_len(ex, st, c, a, d):
        v = full(ex, st, a[0])
        if v is positional:
            return p_len
        return np_len

    def m_take(ex, st, c, a, d):
        ev("take_positional", st, ex, a)
        n = a[1].term
        # contract of CallArgs::take_positional(n): the first min(n, #positional) positional values
        st.pc.append("(= %s (ite (bvult %s %s) %s %s))" % (p_len.term, n, np_len.term, n, np_len.term))
        return positional

    def m_zip_next(ex, st, c, a, d):
        k = sum(1 for e in st.events if e.callee == "zip-some")
        if k >= 2:
            st.events.append(sym.Event("cut", [], None, len(st.pc)))
            return sym.Agg(d, "None", {}, 0)
        formal(k)
        some, none = st.fork(), st.fork()
        some.pc.append("(bvugt %s %s)" % (p_len.term, bvlit(k, 64)))
        none.pc.append("(= %s %s)" % (p_len.term, bvlit(k, 64)))
        some.cells["F%d" % k] = sym.Agg("pair", None, {"0": formals[k][0], "1": formals[k][1]})
        some.events.append(sym.Event("zip-some", [], None, len(st.pc)))
        none.events.append(sym.Event("zip-none", [], None, len(st.pc)))
        return [(some, sym.Agg(d, "Some", {"0": sym.Agg("tuple", None, {"0": sym.Ref("cell", "F%d" % k), "1": sym.Ref("val", posvals[k])})}, 1)),
                (none, sym.Agg(d, "None", {}, 0))]

    def m_rest_index(ex, st, c, a, d):
        start = a[1].fields.get("start") if isinstance(a[1], sym.Agg) else None
        ev("rest-slice", st, ex, a, start)
        return sym.Opaque("slice", "rest", ctx)

    def m_rest_next(ex, st, c, a, d):
        P = sum(1 for e in st.events if e.callee == "zip-some")
        j = sum(1 for e in st.events if e.callee == "rest-some")
        k = P + j
        n = find_len(me.children.get("0"))
        if j >= 2 or n is None:
            st.events.append(sym.Event("cut", [], None, len(st.pc)))
            return sym.Agg(d, "None", {}, 0)
        formal(k)
        some, none = st.fork(), st.fork()
        some.pc.append("(bvugt %s %s)" % (n, bvlit(k, 64)))
        none.pc.append("(= %s %s)" % (n, bvlit(k, 64)))
        some.cells["F%d" % k] = sym.Agg("pair", None, {"0": formals[k][0], "1": formals[k][1]})
        some.events.append(sym.Event("rest-some", [], None, len(st.pc)))
        none.events.append(sym.Event("rest-none", [], None, len(st.pc)))
        return [(some, sym.Agg(d, "Some", {"0": sym.Ref("cell", "F%d" % k)}, 1)), (none, sym.Agg(d, "None", {}, 0))]

    def m_remove(ex, st, c, a, d):
        nm = full(ex, st, a[1])
        k = [i for i, (n_, _) in enumerate(formals) if n_ is nm]
        some, none = st.fork(), st.fork()
        for s2, r in ((some, "some"), (none, "none")):
            e = sym.Event("named-remove", a, r, len(st.pc))
            e.rargs = [full(ex, st, x) for x in a]
            s2.events.append(e)
        v = namedvals[k[0]] if k else sym.Opaque("css::value::Value", "named?", ctx)
        return [(some, sym.Agg(d, "Some", {"0": v}, 1)), (none, sym.Agg(d, "None", {}, 0))]

    def m_clone(ex, st, c, a, d):
        return full(ex, st, a[0])

    def m_do_eval(ex, st, c, a, d):
        dv = full(ex, st, a[0])
        k = [i for i, (_, df) in enumerate(formals) if df.children.get("Some.0") is dv]
        ok, err = st.fork(), st.fork()
        e = sym.Event("eval-default", a, None, len(st.pc))
        e.rargs = [full(ex, st, x) for x in a]
        ok.events.append(e)
        v = defvals[k[0]] if k else sym.Opaque("css::value::Value", "default?", ctx)
        return [(ok, sym.Agg(d, "Ok", {"0": v}, 0)), (err, sym.Agg(d, "Err", {"0": sym.Opaque("Error", "eval-error", ctx)}, 1))]

    def m_define(ex, st, c, a, d):
        ok, err = st.fork(), st.fork()
        e = sym.Event("define", a, None, len(st.pc))
        e.rargs = [full(ex, st, x) for x in a]
        ok.events.append(e)
        return [(ok, sym.Agg(d, "Ok", {"0": sym.Unit()}, 0)), (err, sym.Agg(d, "Err", {"0": sym.Opaque("ScopeError", "define-error", ctx)}, 1))]

    def m_check_no_named(ex, st, c, a, d):
        ok, err = st.fork(), st.fork()
        ok.events.append(sym.Event("check_no_named", a, "ok", len(st.pc)))
        err.events.append(sym.Event("check_no_named", a, "err", len(st.pc)))
        return [(ok, sym.Agg(d, "Ok", {"0": sym.Unit()}, 0)), (err, sym.Agg(d, "Err", {"0": sym.Opaque("ArgsError", "unexpected-named", ctx)}, 1))]

    def m_only_named(ex, st, c, a, d):
        ev("only_named", st, ex, a)
        return sym.Opaque("std::option::Option<css::value::Value>", "only_named", ctx)

    def m_unwrap_or_else(ex, st, c, a, d):
        e = ev("rest-value", st, ex, a)
        return sym.Agg("css::value::Value", "REST", {"0": e.rargs[0], "1": e.rargs[1] if len(e.rargs) > 1 else None})

    ident = lambda ex, st, c, a, d: a[0]
    models = [
        (r"^ScopeRef::sub$", m_sub), (r"^css::call_args::CallArgs::len$", m_args_len), (r"^Vec::<css::value::Value>::len$", m_vec_len),
        (r"^css::call_args::CallArgs::take_positional$", m_take),
        (r"^core::slice::<impl \[\(Name, Option<sass::value::Value>\)\]>::iter$", lambda ex, st, c, a, d: sym.Opaque("iter", "formals-iter", ctx)),
        (r"as Iterator>::zip::<", ident), (r"^<Zip<.*> as IntoIterator>::into_iter$", ident), (r"^<Zip<.*> as Iterator>::next$", m_zip_next),
        (r"as Index<std::ops::RangeFrom<usize>>>::index$", m_rest_index), (r"^<&\[\(Name, Option<sass::value::Value>\)\] as IntoIterator>::into_iter$", ident),
        (r"^<std::slice::Iter<'_, \(Name, Option<sass::value::Value>\)> as Iterator>::next$", m_rest_next),
        (r"^OrderMap::<Name, css::value::Value>::remove$", m_remove),
        (r"^<ScopeRef as Deref>::deref$", lambda ex, st, c, a, d: sym.Ref("val", full(ex, st, a[0]))),
        (r"^<(Name|css::value::Value|ScopeRef) as Clone>::clone$", m_clone),
        (r"^sass::value::Value::do_evaluate$", m_do_eval), (r"^variablescope::Scope::define$", m_define),
        (r"^css::call_args::CallArgs::check_no_named$", m_check_no_named), (r"^css::call_args::CallArgs::only_named$", m_only_named),
        (r"^Option::<css::value::Value>::unwrap_or_else::<", m_unwrap_or_else),
        (r"^Option::<Name>::is_some$", lambda ex, st, c, a, d: sym.mk_bool("(= %s %s)" % (ex.discriminant(full(ex, st, a[0])).term, bvlit(1, 64)))),
    ] + BASE_MODELS
    ex = sym.Executor(ctx, models=models, inline=[r"^FormalArgs::is_varargs$"], unroll=6, feasibility=E.feasibility(ctx), max_paths=8000)
    paths = [p for p in ex.run(f, [sym.Ref("val", me), outer, args]) if p.status == "return"]
    rec.paths = len(paths)
    n = find_len(me.children.get("0"))
    va = me.children.get("1")
    if n is None or va is None:
        rec.add("the parameter count and the rest parameter are read (shape not recognised)", {"verdict": "inconclusive", "per_solver": {}, "time_s": 0})
        return rec
    VA = ex.discriminant(va).term
    is_va = "(= %s %s)" % (VA, bvlit(1, 64))
    seen = set()
    for i, p in enumerate(paths):
        if any(e.callee == "cut" for e in p.events):
            continue
        ret = p.ret
        if not (isinstance(ret, sym.Agg) and ret.variant in ("Ok", "Err")):
            rec.add("path %d: Ok or Err (shape not recognised)" % i, {"verdict": "inconclusive", "per_solver": {}, "time_s": 0})
            continue
        defs = [e for e in p.events if e.callee == "define"]
        P = sum(1 for e in p.events if e.callee == "zip-some")
        J = sum(1 for e in p.events if e.callee == "rest-some")
        if ret.variant == "Err":
            err = ret.fields["0"]
            if isinstance(err, sym.Agg) and err.variant in ("TooMany", "TooManyPos"):
                r = E.decide(ctx, p.pc + ["(not (and (not %s) (bvugt %s %s)))" % (is_va, m_len.term, n)])
                ok_shape = not defs
                rec.add("path %d: `too many arguments` only without a rest parameter and with more arguments than parameters, before anything is bound" % i,
                        r if ok_shape else {"verdict": "violated", "per_solver": {"structural": "defines before the error"}, "time_s": 0})
                seen.add("toomany")
            elif isinstance(err, sym.Agg) and err.variant == "Missing":
                rm = [e for e in p.events if e.callee == "named-remove"]
                k = P + J - 1
                good = bool(rm) and rm[-1].result == "none" and k >= 0 and rm[-1].rargs[1] is formals[k][0] and _payload_contains(err, formals[k][0])
                r = E.decide(ctx, p.pc + ["(not (= %s %s))" % (ex.discriminant(formals[k][1]).term, bvlit(0, 64))]) if good else None
                rec.add("path %d: `missing argument` names parameter %d, which has no positional value, no named value and no default" % (i, k),
                        r if good else {"verdict": "violated", "per_solver": {"structural": "event identity"}, "time_s": 0})
                seen.add("missing")
            continue
        # Ok: replay the binding order
        good = ret.fields["0"] is argscope
        why = []
        want = []
        for k in range(P):
            want.append(("pos", k))
        rm = [e for e in p.events if e.callee == "named-remove"]
        evd = [e for e in p.events if e.callee == "eval-default"]
        for j in range(J):
            k = P + j
            if j >= len(rm) or rm[j].rargs[1] is not formals[k][0]:
                good = False
                why.append("named lookup %d" % k)
                break
            want.append(("named", k) if rm[j].result == "some" else ("default", k))
        nva = len(defs) - len(want)
        if nva not in (0, 1) or len(defs) < len(want):
            good = False
            why.append("number of bindings")
        for (kind, k), e in zip(want, defs):
            val = {"pos": posvals, "named": namedvals, "default": defvals}[kind][k]
            if not (e.rargs[0] is argscope and e.rargs[1] is formals[k][0] and e.rargs[2] is val):
                good = False
                why.append("binding %d (%s)" % (k, kind))
        # defaults are evaluated in the argument scope, after the bindings to their left
        for e in evd:
            if e.rargs[1] is not argscope:
                good = False
                why.append("default evaluated in another scope")
        order = [e.callee for e in p.events if e.callee in ("define", "eval-default")]
        di = 0
        for (kind, k) in want:
            if kind == "default":
                if di >= len(order) or order[di] != "eval-default":
                    good = False
                    why.append("default %d evaluated out of order" % k)
                di += 1
            di += 1
        rec.add("path %d [%d positional, %d by name/default%s]: parameters are bound in order to the positional, named or default value, defaults in the callee scope"
                % (i, P, J, ", rest" if nva == 1 else ""), {"verdict": "holds" if good else "violated", "per_solver": {"structural": "event identity %s" % why[:3]}, "time_s": 0})
        # arity and left-overs
        chk = [e for e in p.events if e.callee == "check_no_named"]
        if nva == 1:
            r = E.decide(ctx, p.pc + ["(not %s)" % is_va])
            last = defs[-1]
            rest_ok = last.rargs[0] is argscope and last.rargs[1] is va.children.get("Some.0") and isinstance(last.rargs[2], sym.Agg) and last.rargs[2].variant == "REST"
            rec.add("path %d: the rest parameter is bound last, to what is left of the arguments, only when one is declared" % i,
                    r if rest_ok else {"verdict": "violated", "per_solver": {"structural": "event identity"}, "time_s": 0})
            seen.add("rest")
        else:
            r = E.decide(ctx, p.pc + ["(not (and (not %s) (bvule %s %s)))" % (is_va, m_len.term, n)])
            rec.add("path %d: without a rest parameter Ok needs at most as many arguments as parameters and no left-over named argument (check_no_named passed)" % i,
                    r if (len(chk) == 1 and chk[0].result == "ok") else {"verdict": "violated", "per_solver": {"structural": "check_no_named %s" % [c_.result for c_ in chk]}, "time_s": 0})
            seen.add("plain")
        seen.add("ok-%d-%d" % (P, J))
    need = {"toomany", "missing", "rest", "plain"}
    if not need <= seen:
        rec.add("all outcome kinds explored (%s missing)" % sorted(need - seen), {"verdict": "inconclusive", "per_solver": {}, "time_s": 0})
    rec.notes.append("up to 2 positional and 2 named/default parameters per call (loops unrolled twice); take_positional's contract (min(n, #positional) values) is assumed; "
                     "Scope::define, do_evaluate, OrderMap::remove fork into all their outcomes")
    return rec


def k_do_use_prefix(E, tier):
    """C37: `@forward ... as prefix-*` (Scope::do_use, Prefix branch): every function, variable and mixin of
    the module is offered under the prefixed name, and is defined in the forwarding scope exactly when the
    show/hide filter allows a *function/mixin* resp. a *variable* of that prefixed name (Expose::allow_fun
    for functions and mixins, Expose::allow_var for variables)."""
    uses = E.load_enum("sass/item.rs", "UseAs")
    f = E.find(name_re=r"^variablescope::<impl at .*>::do_use$")
    rec = Rec("Scope::do_use (Prefix branch) and Expose::allow_fun / allow_var", f, E)
    ctx = E.ctx()
    me = sym.Opaque("Scope", "self", ctx)
    module = sym.Opaque("ScopeRef", "module", ctx)
    as_n = sym.Opaque("UseAs", "as_n", ctx)
    ctx.assumptions.append("(= %s %s)" % (as_n.discriminant().term, bvlit(uses.index("Prefix"), 64)))
    expose = sym.Opaque("Expose", "expose", ctx)
    members = []   # (kind, key, value) per iteration, in order of appearance on a path

    def full(ex, st, x):
        while isinstance(x, sym.Ref):
            x = ex.deref(st, x)
        return x

    def m_next(kind):
        def m(ex, st, c, a, d):
            n = sum(1 for e in st.events if e.callee == "member" and e.args[0] == kind)
            if n >= 1:
                return sym.Agg(d, "None", {}, 0)
            some, none = st.fork(), st.fork()
            key = sym.Opaque("Name", "%s-name" % kind, ctx)
            val = sym.Opaque("T", "%s-value" % kind, ctx)
            e = sym.Event("member", [kind, key, val], None, len(st.pc))
            some.events.append(e)
            return [(some, sym.Agg(d, "Some", {"0": sym.Agg("tuple", None, {"0": sym.Ref("val", key), "1": sym.Ref("val", val)})}, 1)), (none, sym.Agg(d, "None", {}, 0))]
        return m

    def m_display_arg(ex, st, c, a, d):
        return sym.Agg("fmt::Argument", "ARG", {"0": full(ex, st, a[0])})

    def m_arguments(ex, st, c, a, d):
        arr = full(ex, st, a[1])
        parts = [arr.fields[k].fields["0"] for k in sorted(arr.fields) if isinstance(arr.fields[k], sym.Agg)] if isinstance(arr, sym.Agg) else []
        tpl = a[0].s if isinstance(a[0], sym.ConstStr) else None
        return sym.Agg("fmt::Arguments", "ARGS", {"tpl": sym.ConstStr(tpl or "?"), "n": len(parts), **{str(i): x for i, x in enumerate(parts)}})

    def m_format(ex, st, c, a, d):
        ar = a[0]
        o = sym.Opaque("String", "formatted", ctx)
        e = sym.Event("format", [ar], o, len(st.pc))
        st.events.append(e)
        return o

    ident = lambda ex, st, c, a, d: a[0]

    def m_allow(kind):
        def m(ex, st, c, a, d):
            b = ctx.fresh_scalar("bool", kind)
            e = sym.Event(kind, a, b, len(st.pc))
            e.rargs = [full(ex, st, x) for x in a]
            st.events.append(e)
            return b
        return m

    def m_define(kind, fallible=False):
        def m(ex, st, c, a, d):
            e = sym.Event(kind, a, None, len(st.pc))
            e.rargs = [full(ex, st, x) for x in a]
            if not fallible:
                st.events.append(e)
                return sym.Unit()
            ok, err = st.fork(), st.fork()
            ok.events.append(e)
            return [(ok, sym.Agg(d, "Ok", {"0": sym.Unit()}, 0)), (err, sym.Agg(d, "Err", {"0": sym.Opaque("ScopeError", "e", ctx)}, 1))]
        return m

    models = [
        (r"^ScopeRef::with_forwarded$", lambda ex, st, c, a, d: sym.Opaque("ScopeRef", "module+forwarded", ctx)),
        (r"^<std::collections::btree_map::Iter<'_, Name, functions::Function> as Iterator>::next$", m_next("function")),
        (r"^<std::collections::btree_map::Iter<'_, Name, css::value::Value> as Iterator>::next$", m_next("variable")),
        (r"^<std::collections::btree_map::Iter<'_, Name, MixinDecl> as Iterator>::next$", m_next("mixin")),
        (r"^core::fmt::rt::Argument::<'_>::new_display::<", m_display_arg), (r"^Arguments::<'_>::new::<", m_arguments), (r"^format$", m_format),
        (r"^must_use::<String>$", ident), (r"^<String as std::convert::Into<Name>>::into$", ident),
        (r"as Clone>::clone$", lambda ex, st, c, a, d: full(ex, st, a[0])),
        (r"^Expose::allow_fun$", m_allow("allow_fun")), (r"^Expose::allow_var$", m_allow("allow_var")),
        (r"^variablescope::Scope::define_function$", m_define("define_function")), (r"^variablescope::Scope::define_mixin$", m_define("define_mixin")),
        (r"^variablescope::Scope::define$", m_define("define", True)),
    ] + BASE_MODELS
    ex = sym.Executor(ctx, models=models, unroll=4, feasibility=E.feasibility(ctx), max_paths=4000)
    paths = [p for p in ex.run(f, [sym.Ref("val", me), module, sym.Opaque("&str", "name", ctx), sym.Ref("val", as_n), sym.Ref("val", expose)]) if p.status == "return"]
    rec.paths = len(paths)
    want_filter = {"function": "allow_fun", "mixin": "allow_fun", "variable": "allow_var"}
    want_define = {"function": "define_function", "mixin": "define_mixin", "variable": "define"}
    seen = set()
    bad = {}
    for i, p in enumerate(paths):
        if not (isinstance(p.ret, sym.Agg) and p.ret.variant == "Ok"):
            continue
        evs = p.events
        prefix = as_n.children.get("Prefix.0")
        for mi, me_ in enumerate([e for e in evs if e.callee == "member"]):
            kind, key, val = me_.args
            after = evs[evs.index(me_) + 1:]
            nxt = next((j for j, e in enumerate(after) if e.callee == "member"), len(after))
            seg = after[:nxt]
            fm = [e for e in seg if e.callee == "format"]
            al = [e for e in seg if e.callee in ("allow_fun", "allow_var")]
            df = [e for e in seg if e.callee in ("define_function", "define_mixin", "define")]
            if len(al) == 1 and len(al[0].rargs) > 1 and al[0].rargs[1] is key:
                # a recognised wrong wiring: show/hide lists of a prefixed @forward name the members *with* the prefix
                bad.setdefault(kind, []).append("path %d: the filter is asked about the member's unprefixed name" % i)
                continue
            if len(fm) != 1 or len(al) != 1:
                bad.setdefault(kind, []).append("path %d: one prefixed name and one filter test per member (shape not recognised)" % i)
                continue
            ar = fm[0].args[0]
            named = isinstance(ar, sym.Agg) and ar.fields.get("n") == 2 and ar.fields.get("0") is prefix and ar.fields.get("1") is key
            right_filter = al[0].callee == want_filter[kind] and al[0].rargs[0] is expose and al[0].rargs[1] is fm[0].result
            allowed = E.decide(ctx, p.pc + ["(not %s)" % al[0].result.term])["verdict"] == "holds"
            defined = len(df) == 1 and df[0].callee == want_define[kind] and df[0].rargs[0] is me and df[0].rargs[1] is fm[0].result and df[0].rargs[2] is val
            ok = named and right_filter and ((allowed and defined) or (not allowed and not df))
            seen.add((kind, allowed))
            if not ok:
                bad.setdefault(kind, []).append("path %d: named=%s filter=%s(%s) allowed=%s defined=%s" % (i, named, al[0].callee, right_filter, allowed, [d_.callee for d_ in df]))
    for kind in ("function", "variable", "mixin"):
        if not any(k == kind for k, _ in seen) and kind not in bad:
            rec.add("%ss of the module are offered (shape not recognised)" % kind, {"verdict": "inconclusive", "per_solver": {}, "time_s": 0})
            continue
        unknown = any("shape not recognised" in b for b in bad.get(kind, []))
        rec.add("a %s is defined under prefix+name exactly when Expose::%s allows that prefixed name" % (kind, want_filter[kind]),
                {"verdict": "holds" if kind not in bad else ("inconclusive" if unknown else "violated"),
                 "per_solver": {"structural": "; ".join(bad.get(kind, []))[:300] or "event identity"}, "time_s": 0})
    # Expose::allow_fun / allow_var: Show lists allow exactly their members, Hide lists everything else; the first list is for functions/mixins
    ex_enum = E.load_enum("sass/item.rs", "Expose")
    for fn, idx in (("allow_fun", 0), ("allow_var", 1)):
        g = E.find(name_re=r"item::<impl at .*>::%s$" % fn)
        ctx2 = E.ctx()
        exp = sym.Opaque("Expose", "expose", ctx2)
        nm = sym.Opaque("Name", "name", ctx2)

        def m_contains(ex_, st, c, a, d, ctx2=ctx2):
            b = ctx2.fresh_scalar("bool", "contains")
            e = sym.Event("contains", a, b, len(st.pc))
            e.rargs = [ex_.resolve_ref(st, x) for x in a]
            st.events.append(e)
            return b

        ex2 = sym.Executor(ctx2, models=[(r"::contains::<Name>$", m_contains)] + BASE_MODELS, feasibility=E.feasibility(ctx2))
        ps = [p for p in ex2.run(g, [sym.Ref("val", exp), sym.Ref("val", nm)]) if p.status == "return"]
        rec.paths += len(ps)
        D = exp.discriminant().term
        okall = bool(ps)
        detail = []
        for p in ps:
            cs = [e for e in p.events if e.callee == "contains"]
            r = p.ret
            if not isinstance(r, sym.Scalar):
                okall = False
                detail.append("non-boolean result")
                continue
            if not cs:
                # All
                res = E.decide(ctx2, p.pc + ["(not (and %s (= %s %s)))" % (r.term, D, bvlit(ex_enum.index("All"), 64))])
                okall = okall and res["verdict"] == "holds"
                continue
            lst = cs[0].rargs[0]
            show_l, hide_l = exp.children.get("Show.%d" % idx), exp.children.get("Hide.%d" % idx)
            if lst is show_l:
                res = E.decide(ctx2, p.pc + ["(not (and (= %s %s) (= %s %s)))" % (D, bvlit(ex_enum.index("Show"), 64), r.term, cs[0].result.term)])
            elif lst is hide_l:
                res = E.decide(ctx2, p.pc + ["(not (and (= %s %s) (= %s (not %s))))" % (D, bvlit(ex_enum.index("Hide"), 64), r.term, cs[0].result.term)])
            else:
                res = {"verdict": "violated"}
                detail.append("wrong list consulted")
            okall = okall and res["verdict"] == "holds" and cs[0].rargs[1] is nm
        rec.add("Expose::%s: All allows everything, Show exactly the names of its %s list, Hide everything but the names of its %s list"
                % (fn, "first (function/mixin)" if idx == 0 else "second (variable)", "first" if idx == 0 else "second"),
                {"verdict": "holds" if okall else ("violated" if ps else "inconclusive"), "per_solver": {"z3+cvc5": "per path", "detail": str(detail)[:100]}, "time_s": 0})
    return rec


def k_use_with(E, tier):
    """C37: `@use ... with (...)` (the configuration loop of the module initialiser closures): every configured
    variable is defined in the module's scope *before* the module is evaluated (so the module's `!default`
    declarations keep it), configuring the same variable twice is an error, and — the part rsass lacks, a
    recorded finding — a configured variable that the module does not declare with `!default` must be an error."""
    rec = None
    cands = [g for g in E.funcs if re.match(r"^handle_item::\{closure#\d+\}$", g.name) and "ScopeRef::new_global" in g.source() and "handle_parsed" in g.source()]
    cands.sort(key=lambda g: g.line)
    if len(cands) != 2:
        raise sym.Unsupported("expected the two module initialiser closures of handle_item, found %d" % len(cands))
    for which, f in zip(("@use", "@forward"), cands):
        if rec is None:
            rec = Rec("handle_item module initialiser closures: `with` configuration", f, E)
        ctx = E.ctx()
        module = sym.Opaque("ScopeRef", "module", ctx)
        cfg = []

        def full(ex, st, x):
            while isinstance(x, sym.Ref):
                x = ex.deref(st, x)
            return x

        def m_next(ex, st, c, a, d, cfg=cfg, ctx=ctx):
            n = sum(1 for e in st.events if e.callee == "cfg-some")
            if n >= 2:
                st.events.append(sym.Event("cut", [], None, len(st.pc)))
                return sym.Agg(d, "None", {}, 0)
            while len(cfg) <= n:
                k = len(cfg)
                cfg.append((sym.Opaque("Name", "cfg-name%d" % k, ctx), sym.Opaque("sass::value::Value", "cfg-expr%d" % k, ctx), ctx.fresh_scalar("bool", "cfg-default%d" % k)))
            some, none = st.fork(), st.fork()
            some.cells["W%d" % n] = sym.Agg("triple", None, {"0": cfg[n][0], "1": cfg[n][1], "2": cfg[n][2]})
            some.events.append(sym.Event("cfg-some", [], None, len(st.pc)))
            none.events.append(sym.Event("cfg-none", [], None, len(st.pc)))
            return [(some, sym.Agg(d, "Some", {"0": sym.Ref("cell", "W%d" % n)}, 1)), (none, sym.Agg(d, "None", {}, 0))]

        def m_get_or_none(ex, st, c, a, d, ctx=ctx):
            sc = full(ex, st, a[0])
            o = sym.Opaque(d or "Option", "lookup", ctx)
            e = sym.Event("get_or_none", a, o, len(st.pc))
            e.rargs = [sc, full(ex, st, a[1])]
            st.events.append(e)
            return o

        def m_value(ex, st, c, a, d, ctx=ctx):
            # default.ok_or(()).or_else(|()| value.do_evaluate(..)): the configured value, or an evaluation error
            ok, err = st.fork(), st.fork()
            v = sym.Opaque("css::value::Value", "cfg-value", ctx)
            ok.events.append(sym.Event("cfg-value", a, v, len(st.pc)))
            return [(ok, sym.Agg(d, "Ok", {"0": v}, 0)), (err, sym.Agg(d, "Err", {"0": sym.Opaque("Error", "cfg-eval-error", ctx)}, 1))]

        def m_is_none(ex, st, c, a, d, ctx=ctx):
            o = full(ex, st, a[0])
            return sym.mk_bool("(= %s %s)" % (ex.discriminant(o).term, bvlit(0, 64)))

        def m_define(ex, st, c, a, d, ctx=ctx):
            ok, err = st.fork(), st.fork()
            e = sym.Event("define", a, None, len(st.pc))
            e.rargs = [full(ex, st, x) for x in a]
            ok.events.append(e)
            return [(ok, sym.Agg(d, "Ok", {"0": sym.Unit()}, 0)), (err, sym.Agg(d, "Err", {"0": sym.Opaque("ScopeError", "e", ctx)}, 1))]

        def m_res(name):
            def m(ex, st, c, a, d, ctx=ctx):
                ok, err = st.fork(), st.fork()
                e = sym.Event(name, a, None, len(st.pc))
                e.rargs = [full(ex, st, x) for x in a]
                ok.events.append(e)
                return [(ok, sym.Agg(d, "Ok", {"0": sym.Opaque("T", name + "-result", ctx)}, 0)), (err, sym.Agg(d, "Err", {"0": sym.Opaque("Error", name + "-error", ctx)}, 1))]
            return m

        models = [
            (r"^<ScopeRef as Deref>::deref$", lambda ex, st, c, a, d: sym.Ref("val", full(ex, st, a[0]))),
            (r"^ScopeRef::new_global$", lambda ex, st, c, a, d, module=module: module),
            (r"^<ScopeRef as Clone>::clone$", lambda ex, st, c, a, d: full(ex, st, a[0])), (r"^<Name as Clone>::clone$", lambda ex, st, c, a, d: full(ex, st, a[0])),
            (r"^<std::slice::Iter<'_, \(Name, sass::value::Value, bool\)> as Iterator>::next$", m_next),
            (r"^variablescope::Scope::get_or_none$", m_get_or_none),
            (r"^Option::<css::value::Value>::ok_or::<\(\)>$", lambda ex, st, c, a, d: a[0]),
            (r"^std::result::Result::<css::value::Value, \(\)>::or_else::<", m_value),
            (r"^Option::<css::value::Value>::is_none$", m_is_none),
            (r"^variablescope::Scope::define$", m_define),
            (r"^SourceFile::parse$", m_res("parse")), (r"^handle_parsed::<", m_res("handle_parsed")),
        ] + BASE_MODELS
        ex = sym.Executor(ctx, models=models, unroll=5, feasibility=E.feasibility(ctx), max_paths=4000)
        paths = [p for p in ex.run(f, [sym.Opaque("closure", "env", ctx), sym.Opaque("&mut CssData", "dest", ctx)]) if p.status == "return"]
        rec.paths += len(paths)
        n_ok = n_dup = 0
        bad_order, bad_dup, unchecked, bad_def = [], [], [], []
        for i, p in enumerate(paths):
            if any(e.callee == "cut" for e in p.events):
                continue
            n = sum(1 for e in p.events if e.callee == "cfg-some")
            defs = [e for e in p.events if e.callee == "define"]
            hp = [e for e in p.events if e.callee == "handle_parsed"]
            ret = p.ret
            for dk, de in enumerate(defs):
                look = [e for e in p.events[:p.events.index(de)] if e.callee == "get_or_none" and e.rargs[0] is module and e.rargs[1] is de.rargs[1]]
                if not look or E.decide(ctx, p.pc + ["(not (= %s %s))" % (ex.discriminant(look[-1].result).term, bvlit(0, 64))])["verdict"] != "holds":
                    bad_def.append(i)
            if isinstance(ret, sym.Agg) and ret.variant == "Ok" and n >= 1:
                n_ok += 1
                order = [e.callee for e in p.events if e.callee in ("define", "handle_parsed")]
                good = (len(defs) == n and len(hp) == 1 and order == ["define"] * n + ["handle_parsed"]
                        and all(defs[k].rargs[0] is module and defs[k].rargs[1] is cfg[k][0] for k in range(n)))
                if not good:
                    bad_order.append(i)
                # is there any check, after the module was evaluated, that the configured names were declared `!default`?
                after = p.events[p.events.index(hp[0]) + 1:] if hp else []
                if not any(e.callee not in ("drop",) and any(x is cfg[k][0] for k in range(n) for x in getattr(e, "rargs", [])) for e in after):
                    unchecked.append(i)
            if isinstance(ret, sym.Agg) and ret.variant == "Err" and isinstance(ret.fields.get("0"), sym.Agg) and ret.fields["0"].variant == "S":
                n_dup += 1
                look = [e for e in p.events if e.callee == "get_or_none" and e.rargs[0] is module]
                if not look:
                    bad_dup.append(i)
                else:
                    r = E.decide(ctx, p.pc + ["(not (= %s %s))" % (ex.discriminant(look[-1].result).term, bvlit(1, 64))])
                    if r["verdict"] != "holds" or look[-1].rargs[1] is not cfg[n - 1][0]:
                        bad_dup.append(i)
        if n_ok == 0:
            rec.add("%s: a configured Ok path exists (shape not recognised)" % which, {"verdict": "inconclusive", "per_solver": {}, "time_s": 0})
            continue
        rec.add("%s: each configured variable is defined in the module's scope, in order, before the module body is evaluated (%d Ok paths)" % (which, n_ok),
                {"verdict": "holds" if not bad_order else "violated", "per_solver": {"structural": "event order %s" % bad_order[:5]}, "time_s": 0})
        rec.add("%s: `may only be configured once` exactly when the module scope already holds that name (%d paths)" % (which, n_dup),
                {"verdict": ("holds" if not bad_dup else "violated") if n_dup else "inconclusive", "per_solver": {"z3+cvc5": "pc implies the lookup is Some", "paths": str(bad_dup[:5])}, "time_s": 0})
        rec.add("%s: a configured variable is defined only when the module scope does not hold that name yet (whatever its value, null included)" % which,
                {"verdict": "holds" if not bad_def else "violated", "per_solver": {"z3+cvc5": "pc implies the lookup is None", "paths": str(sorted(set(bad_def))[:5])}, "time_s": 0})
        o = rec.add("%s: a configured variable that the module does not declare with !default is an error (the closure never looks at the configured names again after evaluating the module)" % which,
                    {"verdict": "holds" if not unchecked else "violated", "per_solver": {"structural": "no event mentions a configured name after handle_parsed on paths %s" % unchecked[:5]}, "time_s": 0})
        o["region_excluded"] = "holds"   # the finding is exactly this obligation; nothing else is folded into it
    return rec


def k_dest_start(E, tier):
    """C21 (frame condition of the destination tree): starting a nested @media or at-rule inside a rule, an
    at-rule or a media rule only *reads* the parent — the new destination points back at the parent, gets a
    fresh rule copied from the parent's selectors (or none) and an empty body, and nothing already collected
    in the parent is taken out of it or overwritten (so nothing that was evaluated before the nested block
    can get lost when it starts)."""
    rec = None
    kinds = (("RuleDest", "69"), ("AtRuleDest", "234"), ("AtMediaDest", "356"))
    for meth in ("start_atmedia", "start_atrule"):
        fs = [g for g in E.funcs if re.search(r"^cssdest::<impl at .*>::%s$" % meth, g.name) and g.params and re.match(r"&mut (RuleDest|AtRuleDest|AtMediaDest)<", g.params[0][1])]
        if len(fs) != 3:
            raise sym.Unsupported("expected %s of RuleDest, AtRuleDest and AtMediaDest, found %d" % (meth, len(fs)))
        for f in fs:
            owner = re.match(r"&mut (\w+)<", f.params[0][1]).group(1)
            if rec is None:
                rec = Rec("CssDestination::start_atmedia / start_atrule of RuleDest, AtRuleDest, AtMediaDest", f, E)
            ctx = E.ctx()
            me = sym.Opaque(owner, "self", ctx)

            def m_ev(name):
                def m(ex, st, c, a, d, ctx=ctx):
                    o = ctx.fresh_value(d or "()", "ret." + name)
                    e = sym.Event(name, a, o, len(st.pc))
                    e.rargs = [ex.resolve_ref(st, x) for x in a]
                    st.events.append(e)
                    return o
                return m

            models = [(r"^Option::<Rule>::as_ref$", m_ev("as_ref")), (r"^Option::<&Rule>::map::<Rule", m_ev("map")), (r"^Vec::<.*>::new$", m_ev("vec_new")),
                      (r"^is_flat_rule$", lambda ex, st, c, a, d, ctx=ctx: ctx.fresh_scalar("bool", "is_flat_rule")),
                      (r"^Rule::new$", m_ev("rule_new")), (r"as Clone>::clone$", m_ev("clone"))] + BASE_MODELS
            ex = sym.Executor(ctx, models=models, feasibility=E.feasibility(ctx))
            ex.track_mut_borrows = True
            args = [sym.Ref("val", me)] + [sym.Opaque(t, "arg%d" % k, ctx) for k, (_, t) in enumerate(f.params[1:])]
            paths = [p for p in ex.run(f, args) if p.status == "return"]
            rec.paths += len(paths)
            if not paths:
                rec.add("%s::%s has a path (shape not recognised)" % (owner, meth), {"verdict": "inconclusive", "per_solver": {}, "time_s": 0})
                continue
            for i, p in enumerate(paths):
                child = p.ret
                mb = [e for e in p.events if e.callee == "mut-borrow" and e.args[0] == "_1" and e.args[2] == 1]
                rec.add("%s::%s path %d: no field of the parent is borrowed mutably (nothing is taken out of, pushed into or replaced in the parent)" % (owner, meth, i),
                        {"verdict": "holds" if not mb else "violated", "per_solver": {"structural": "mutable borrows of self fields: %s" % [e.args[1] for e in mb]}, "time_s": 0})
                if not isinstance(child, sym.Agg):
                    rec.add("%s::%s path %d: the child destination is built here (shape not recognised)" % (owner, meth, i), {"verdict": "inconclusive", "per_solver": {}, "time_s": 0})
                    continue
                par = child.fields.get("parent")
                while isinstance(par, sym.Ref) and par.kind == "val":
                    par = par.target
                body = child.fields.get("body")
                rule = child.fields.get("rule")
                vn = [e.result for e in p.events if e.callee == "vec_new"]
                derived = [e.result for e in p.events if e.callee in ("map", "rule_new")]
                from_parent = any(rule is r_ for r_ in derived) or (isinstance(rule, sym.Agg) and any(_payload_contains(rule, r_) for r_ in derived))
                is_none = isinstance(rule, sym.Agg) and rule.variant == "None"
                # no rule of its own only for a flat at-rule (@font-face ...): decided from the path condition
                flat = [t for t in (getattr(e, "flat_term", None) for e in p.events) if t]
                none_ok = False
                if is_none and meth == "start_atrule":
                    fl = [x for x in ctx.decls if "is_flat_rule" in x[0]]
                    none_ok = bool(fl) and E.decide(ctx, p.pc + ["(not %s)" % fl[0][0]])["verdict"] == "holds"
                rule_ok = from_parent or none_ok
                ok = par is me and any(body is v for v in vn) and rule_ok
                rec.add("%s::%s path %d: the child points at this destination, starts with an empty body, and gets a rule derived from the parent's (a copy of its selectors, when it has one) — none of its own only for a flat at-rule" % (owner, meth, i),
                        {"verdict": "holds" if ok else "violated", "per_solver": {"structural": "parent=%s body=%s rule=%s" % (par is me, any(body is v for v in vn), rule_ok)}, "time_s": 0})
    return rec


def k_nth(E, tier):
    """C28: list.nth: for a list, a map and an argument list the element returned is the one at the index
    that index_of computed from $n and the length of *that very* collection (the index arithmetic itself:
    k_index_of); a map entry comes back as the unbracketed space list (key value); any other value acts as
    the one-element list of itself."""
    cssv = E.load_enum("css/value.rs", "Value", "css::value::Value")
    seps = E.load_enum("value/list_separator.rs", "ListSeparator")
    f = E.find(name_re=r"^list::create_module::\{closure#\d+\}$", contains=['const "n"', "OrderMap::<css::value::Value, css::value::Value>::get_item", "cloned"])
    rec = Rec("list.nth closure", f, E)
    ctx = E.ctx()
    vals = {}

    def full(ex, st, x):
        while isinstance(x, sym.Ref):
            x = ex.deref(st, x)
        return x

    def m_get_map(ex, st, c, a, d):
        clos = [x for x in a if isinstance(x, sym.Agg)]
        ok, err = st.fork(), st.fork()
        idx = ctx.fresh_scalar(("bv", 64, False), "index")
        e = sym.Event("get_map:n", a, idx, len(st.pc))
        e.captured = [full(ex, st, v) for c_ in clos for k, v in c_.fields.items() if not k.isdigit()]
        e.zerosized = any(isinstance(x, sym.FnItem) for x in a)
        ok.events.append(e)
        return [(ok, sym.Agg(d, "Ok", {"0": idx}, 0)), (err, sym.Agg(d, "Err", {"0": sym.Opaque("CallError", "e", ctx)}, 1))]

    def m_index(ex, st, c, a, d):
        e = sym.Event("index", a, None, len(st.pc))
        e.rargs = [full(ex, st, a[0]), a[1]]
        st.events.append(e)
        o = sym.Opaque("css::value::Value", "element", ctx)
        e.result = o
        return sym.Ref("val", o)

    def m_get_item(ex, st, c, a, d):
        some, none = st.fork(), st.fork()
        k, v = sym.Opaque("css::value::Value", "entry-key", ctx), sym.Opaque("css::value::Value", "entry-value", ctx)
        for s2, r in ((some, "some"), (none, "none")):
            e = sym.Event("get_item", a, r, len(st.pc))
            e.rargs = [full(ex, st, a[0]), a[1]]
            e.kv = (k, v)
            s2.events.append(e)
        return [(some, sym.Agg(d, "Some", {"0": sym.Ref("val", sym.Agg("pair", None, {"0": k, "1": v}))}, 1)), (none, sym.Agg(d, "None", {}, 0))]

    def m_clone(ex, st, c, a, d):
        return full(ex, st, a[0])

    def m_vec2(ex, st, c, a, d):
        return sym.Agg("Vec", "VEC", {"0": a[0]})

    def m_slice_get(ex, st, c, a, d):
        e = sym.Event("slice_get", a, None, len(st.pc))
        e.rargs = [full(ex, st, a[0]), a[1]]
        st.events.append(e)
        return sym.Opaque(d or "Option", "positional.get", ctx)

    def m_unwrap_or_else(ex, st, c, a, d):
        e = sym.Event("arglist-element", a, None, len(st.pc))
        e.rargs = [full(ex, st, x) for x in a]
        st.events.append(e)
        return sym.Agg("css::value::Value", "ARGLIST_ELEMENT", {"0": e.rargs[0], "1": e.rargs[1] if len(e.rargs) > 1 else None})

    def m_result_map(ex, st, c, a, d):
        x = a[0]
        if isinstance(x, sym.Agg) and x.variant == "Ok":
            clos = a[1] if len(a) > 1 else None
            v = full(ex, st, clos.fields.get("v")) if isinstance(clos, sym.Agg) and "v" in clos.fields else None
            return sym.Agg(d, "Ok", {"0": v if v is not None else sym.Opaque("css::value::Value", "mapped", ctx)}, 0)
        return x if isinstance(x, sym.Agg) else None

    models = [
        (r"^ResolvedArgs::get_map::<usize", m_get_map), (r"^<Vec<css::value::Value> as Index<usize>>::index$", m_index),
        (r"^OrderMap::<css::value::Value, css::value::Value>::get_item$", m_get_item), (r"^<css::value::Value as Clone>::clone$", m_clone),
        (r"^<Vec<css::value::Value> as Deref>::deref$", lambda ex, st, c, a, d: sym.Ref("val", full(ex, st, a[0]))),
        (r"^core::slice::<impl \[css::value::Value\]>::get::<usize>$", m_slice_get), (r"^Option::<&css::value::Value>::cloned$", lambda ex, st, c, a, d: a[0]),
        (r"^Option::<css::value::Value>::unwrap_or_else::<", m_unwrap_or_else),
        (r"^std::boxed::box_assume_init_into_vec_unsafe::<", m_vec2), (r"^std::result::Result::<usize, CallError>::map::<", m_result_map),
    ] + _color_fn_models(E, ctx, vals)
    ex = sym.Executor(ctx, models=models, feasibility=E.feasibility(ctx), max_paths=4000)
    paths = [p for p in ex.run(f, [sym.Opaque("closure", "self", ctx), sym.Opaque("&ResolvedArgs", "s", ctx)]) if p.status == "return"]
    rec.paths = len(paths)
    lst = vals.get("list")
    if lst is None:
        rec.add("the closure reads $list (shape not recognised)", {"verdict": "inconclusive", "per_solver": {}, "time_s": 0})
        return rec
    D = lst.discriminant().term
    seen = set()
    for i, p in enumerate(paths):
        if not (isinstance(p.ret, sym.Agg) and p.ret.variant == "Ok"):
            continue
        out = p.ret.fields["0"]
        gm = [e for e in p.events if e.callee == "get_map:n"]
        if len(gm) != 1:
            rec.add("path %d: $n is read once through an index checker (shape not recognised)" % i, {"verdict": "inconclusive", "per_solver": {}, "time_s": 0})
            continue
        idx = gm[0].result
        ix = [e for e in p.events if e.callee == "index"]
        gi = [e for e in p.events if e.callee == "get_item"]
        sg = [e for e in p.events if e.callee == "slice_get"]
        if ix:
            vec = lst.children.get("List.0")
            ok = len(ix) == 1 and ix[0].rargs[0] is vec and ix[0].rargs[1] is idx and out is ix[0].result and any(c_ is vec for c_ in gm[0].captured)
            r = E.decide(ctx, p.pc + ["(not (= %s %s))" % (D, bvlit(cssv.index("List"), 64))])
            rec.add("path %d [list]: returns (a copy of) list[i], i computed by the checker that captured this very list" % i,
                    r if ok else {"verdict": "violated", "per_solver": {"structural": "event identity"}, "time_s": 0})
            seen.add("list")
        elif gi:
            mp = lst.children.get("Map.0")
            good = len(gi) == 1 and gi[0].rargs[0] is mp and gi[0].rargs[1] is idx and any(c_ is mp for c_ in gm[0].captured)
            if gi[0].result == "some":
                k, v = gi[0].kv
                stored = [e.args[1] for e in p.events if e.callee == "store-opaque"]   # vec![k, v] is written into a fresh box
                has = lambda x: _payload_contains(out.fields["0"], x) or any(_payload_contains(sv, x) for sv in stored)
                shape = (isinstance(out, sym.Agg) and out.variant == "List" and has(k) and has(v)
                         and isinstance(out.fields["1"], sym.Agg) and out.fields["1"].variant == "Some" and isinstance(out.fields["1"].fields["0"], sym.Agg)
                         and out.fields["1"].fields["0"].variant == "Space" and isinstance(out.fields["2"], sym.Scalar) and out.fields["2"].term == "false")
                good = good and shape
            else:
                good = good and isinstance(out, sym.Agg) and out.variant == "Null"
            r = E.decide(ctx, p.pc + ["(not (= %s %s))" % (D, bvlit(cssv.index("Map"), 64))])
            rec.add("path %d [map/%s]: entry i of this very map as the unbracketed space list (key value)" % (i, gi[0].result),
                    r if good else {"verdict": "violated", "per_solver": {"structural": "event identity / shape"}, "time_s": 0})
            seen.add("map")
        elif sg:
            al = lst.children.get("ArgList.0")
            good = isinstance(out, sym.Agg) and out.variant == "ARGLIST_ELEMENT" and sg[0].rargs[1] is idx and any(c_ is al for c_ in gm[0].captured)
            r = E.decide(ctx, p.pc + ["(not (= %s %s))" % (D, bvlit(cssv.index("ArgList"), 64))])
            rec.add("path %d [arglist]: positional[i], else the (i - #positional)-th keyword pair, i computed for this very argument list" % i,
                    r if good else {"verdict": "violated", "per_solver": {"structural": "event identity"}, "time_s": 0})
            seen.add("arglist")
        else:
            good = out is lst and gm[0].zerosized
            r = E.decide(ctx, p.pc + ["(or (= %s %s) (= %s %s) (= %s %s))" % (D, bvlit(cssv.index("List"), 64), D, bvlit(cssv.index("Map"), 64), D, bvlit(cssv.index("ArgList"), 64))])
            rec.add("path %d [single value]: any other value is the one-element list of itself (the value comes back once $n passed the length-1 check)" % i,
                    r if good else {"verdict": "violated", "per_solver": {"structural": "event identity"}, "time_s": 0})
            seen.add("single")
    need = {"list", "map", "arglist", "single"}
    if not need <= seen:
        rec.add("all four kinds of $list explored (%s missing)" % sorted(need - seen), {"verdict": "inconclusive", "per_solver": {}, "time_s": 0})
    # the checker closures: index_of(v, len(captured collection)); the single-value one: index_of(v, 1)
    inner = [g for g in E.funcs if g.name.startswith(f.name + "::{closure#") and "index_of" in g.source()]
    n_ok = 0
    for g in inner:
        ctx2 = E.ctx()

        def m_len(ex2, st, c, a, d, ctx2=ctx2):
            o = ctx2.fresh_scalar(("bv", 64, False), "len")
            e = sym.Event("len", a, o, len(st.pc))
            e.rargs = [ex2.resolve_ref(st, x) for x in a]
            st.events.append(e)
            return o

        def m_io(ex2, st, c, a, d, ctx2=ctx2):
            o = sym.Opaque(d, "index_of", ctx2)
            st.events.append(sym.Event("index_of", a, o, len(st.pc)))
            return o

        ex2 = sym.Executor(ctx2, models=[(r"::len$", m_len), (r"^index_of$", m_io)] + BASE_MODELS)
        v = sym.Opaque("css::value::Value", "v", ctx2)
        env = sym.Opaque("&closure", "env", ctx2)
        try:
            ps = [p for p in ex2.run(g, [env, v]) if p.status == "return"]
        except sym.Unsupported:
            continue
        for p in ps:
            io = [e for e in p.events if e.callee == "index_of"]
            ln = [e for e in p.events if e.callee == "len"]
            if len(io) != 1:
                continue
            if ln:
                cap = ln[0].rargs[0]
                from_env = isinstance(cap, sym.Opaque) and cap.name.startswith("env")
                ok = io[0].args[0] is v and io[0].args[1] is ln[0].result and p.ret is io[0].result and from_env
                what = "index_of(v, len(captured collection))"
            else:
                ok = io[0].args[0] is v and isinstance(io[0].args[1], sym.Scalar) and io[0].args[1].term == bvlit(1, 64) and p.ret is io[0].result
                what = "index_of(v, 1)"
            n_ok += ok
            rec.add("%s: returns %s" % (g.name.split("::")[-1], what), {"verdict": "holds" if ok else "violated", "per_solver": {"structural": "event identity"}, "time_s": 0})
    if n_ok < 4:
        rec.add("the four index checker closures were found (%d)" % n_ok, {"verdict": "inconclusive", "per_solver": {}, "time_s": 0})
    return rec


def k_css_clamp(E, tier):
    """C29: the global CSS clamp(min, number, max) for three plain numbers of one dimension returns the same
    argument as math.clamp: $min when number <= min (also when the bounds cross), else $max when number >=
    max, else the number itself."""
    nos = E.load_enum("sass/functions/num_or_special.rs", "NumOrSpecial")
    f = E.find(name_re=r"math::css::global::\{closure#\d+\}$", contains=["PartialOrd>::ge", "PartialOrd>::le", "known_dim_spec"])
    rec = Rec("global clamp() closure (math/css.rs)", f, E)
    ctx = E.ctx()
    nums = [sym.Opaque("Numeric", n, ctx) for n in ("min", "number", "max")]

    def full(ex, st, x):
        while isinstance(x, sym.Ref):
            x = ex.deref(st, x)
        return x

    def m_args_iter(ex, st, c, a, d):
        return sym.Agg(d, "Ok", {"0": sym.Opaque("iter", "args", ctx)}, 0)

    def m_next(ex, st, c, a, d):
        k = sum(1 for e in st.events if e.callee == "arg-next")
        st.events.append(sym.Event("arg-next", [], None, len(st.pc)))
        if k >= 3:
            return sym.Agg(d, "None", {}, 0)
        v = sym.Agg("NumOrSpecial", "Num", {"0": nums[k]}, nos.index("Num"))
        return sym.Agg(d, "Some", {"0": sym.Agg("Result", "Ok", {"0": v}, 0)}, 1)

    def m_required(ex, st, c, a, d):
        x = a[0]
        return sym.Agg(d, "Ok", {"0": x.fields["0"]}, 0) if isinstance(x, sym.Agg) and x.variant == "Some" else None

    def m_transpose(ex, st, c, a, d):
        x = a[0]
        if isinstance(x, sym.Agg) and x.variant == "Some" and isinstance(x.fields["0"], sym.Agg) and x.fields["0"].variant == "Ok":
            return sym.Agg(d, "Ok", {"0": sym.Agg("Option", "Some", {"0": x.fields["0"].fields["0"]}, 1)}, 0)
        if isinstance(x, sym.Agg) and x.variant == "None":
            return sym.Agg(d, "Ok", {"0": sym.Agg("Option", "None", {}, 0)}, 0)
        return None

    def m_count(ex, st, c, a, d):
        return sym.Scalar(("bv", 64, False), bvlit(0, 64))

    def m_check_excess(ex, st, c, a, d):
        return sym.Agg(d, "Ok", {"0": sym.Unit()}, 0)

    def m_bool(name):
        def m(ex, st, c, a, d):
            b = ctx.fresh_scalar("bool", name)
            e = sym.Event(name, a, b, len(st.pc))
            e.rargs = [full(ex, st, x) for x in a]
            st.events.append(e)
            return b
        return m

    def m_into(ex, st, c, a, d):
        return sym.Agg("css::value::Value", "Numeric", {"0": full(ex, st, a[0])})

    models = [
        (r"^args_iter$", m_args_iter), (r"^<std::iter::Map<std::vec::IntoIter<css::value::Value>, .*> as Iterator>::next$", m_next),
        (r"^required_arg::<", m_required), (r"^Option::<std::result::Result<NumOrSpecial, CallError>>::transpose$", m_transpose),
        (r"as Iterator>::count$", m_count), (r"^check_excess_args$", m_check_excess),
        (r"^Option::<CssDimensionSet>::is_some$", m_bool("is_some")), (r"^<Option<CssDimensionSet> as PartialEq>::ne$", m_bool("dim_ne")),
        (r"^<Option<Vec<\(Dimension, i8\)>> as PartialEq>::eq$", m_bool("spec_eq")),
        (r"^<Numeric as PartialOrd>::ge$", m_bool("ge")), (r"^<Numeric as PartialOrd>::le$", m_bool("le")),
        (r"^<Numeric as std::convert::Into<css::value::Value>>::into$", m_into),
    ] + BASE_MODELS
    ex = sym.Executor(ctx, models=models, feasibility=E.feasibility(ctx), max_paths=4000)
    paths = [p for p in ex.run(f, [sym.Opaque("closure", "self", ctx), sym.Opaque("&ResolvedArgs", "s", ctx)]) if p.status == "return"]
    rec.paths = len(paths)
    mn, nu, mx = nums
    seen = set()
    for i, p in enumerate(paths):
        if not (isinstance(p.ret, sym.Agg) and p.ret.variant == "Ok"):
            continue
        v = p.ret.fields["0"]
        if not (isinstance(v, sym.Agg) and v.variant == "Numeric"):
            continue  # left to CSS (clamp(...) call) — dimensions not statically comparable
        out = v.fields["0"]
        ge = [e for e in p.events if e.callee == "ge"]
        le = [e for e in p.events if e.callee == "le"]
        if len(ge) != 1 or len(le) != 1:
            rec.add("path %d: one `>=` against max and one `<=` against min (shape not recognised)" % i, {"verdict": "inconclusive", "per_solver": {}, "time_s": 0})
            continue
        first = [e.callee for e in p.events if e.callee in ("ge", "le")]
        r1 = E.decide(ctx, p.pc + ["(not %s)" % ge[0].result.term])["verdict"] == "holds"
        kept = mx if r1 else nu
        wired = first == ["ge", "le"] and ge[0].rargs[0] is nu and ge[0].rargs[1] is mx and le[0].rargs[0] is kept and le[0].rargs[1] is mn
        if not wired:
            rec.add("path %d: number >= max is tested first, then the kept value <= min (so that min wins when the bounds cross)" % i,
                    {"verdict": "violated", "per_solver": {"structural": "event order %s / identity" % first}, "time_s": 0})
            continue
        r2 = E.decide(ctx, p.pc + ["(not %s)" % le[0].result.term])["verdict"] == "holds"
        want = mn if r2 else kept
        which = "min" if want is mn else ("max" if want is mx else "number")
        seen.add(which)
        rec.add("path %d: returns %s, the argument the comparisons select" % (i, which),
                {"verdict": "holds" if out is want else "violated", "per_solver": {"structural": "identity"}, "time_s": 0})
    if seen != {"min", "max", "number"}:
        rec.add("all three outcomes are present (%s)" % sorted(seen), {"verdict": "violated" if seen else "inconclusive", "per_solver": {}, "time_s": 0})
    return rec


def k_get_list(E, tier):
    """C28: get_list (what append, join and set-nth see of their list argument): a list passes through with
    its own separator and brackets; an argument list is exactly its positional values followed by its keyword
    arguments as pairs, comma separated; a map is its (key value) pairs, comma separated, or the empty list
    with no separator when empty; anything else is the one-element list of itself with no separator."""
    cssv = E.load_enum("css/value.rs", "Value", "css::value::Value")
    f = E.find(name="get_list")
    rec = Rec("list::get_list", f, E)
    ctx = E.ctx()
    val = sym.Opaque("css::value::Value", "value", ctx)

    def full(ex, st, x):
        while isinstance(x, sym.Ref):
            x = ex.deref(st, x)
        return x

    def m_ev(name, ret=None):
        def m(ex, st, c, a, d):
            o = ret(d) if ret else ctx.fresh_value(d or "()", "ret." + name)
            e = sym.Event(name, a, o, len(st.pc))
            e.rargs = [full(ex, st, x) for x in a]
            st.events.append(e)
            return o
        return m

    def m_is_empty(ex, st, c, a, d):
        b = ctx.fresh_scalar("bool", "map_is_empty")
        st.events.append(sym.Event("is_empty", a, b, len(st.pc)))
        return b

    models = [
        (r"^<OrderMap<.*> as IntoIterator>::into_iter$", m_ev("into_iter")), (r"as Iterator>::map::<css::value::Value", m_ev("iter_map")),
        (r"^<Vec<css::value::Value> as Extend<css::value::Value>>::extend::<", m_ev("extend", lambda d: sym.Unit())),
        (r"as Iterator>::collect::<Vec<css::value::Value>>$", m_ev("collect")), (r"^OrderMap::<.*>::is_empty$", m_is_empty),
        (r"^Vec::<css::value::Value>::new$", m_ev("vec_new")), (r"^css::value::Value::iter_items$", m_ev("iter_items")),
        (r"^std::boxed::box_assume_init_into_vec_unsafe::<", m_ev("vec_of_box")), (r"^Box::<\[css::value::Value; 1\]>::new_uninit$", m_ev("box")),
    ] + BASE_MODELS
    ex = sym.Executor(ctx, models=models, feasibility=E.feasibility(ctx))
    paths = [p for p in ex.run(f, [val]) if p.status == "return"]
    rec.paths = len(paths)
    D = val.discriminant().term
    seen = set()
    for i, p in enumerate(paths):
        r = p.ret
        if not (isinstance(r, sym.Agg) and {"0", "1", "2"} <= set(r.fields)):
            rec.add("path %d: a (elements, separator, bracketed) triple is returned (shape not recognised)" % i, {"verdict": "inconclusive", "per_solver": {}, "time_s": 0})
            continue
        vec, sep, bra = r.fields["0"], r.fields["1"], r.fields["2"]
        sepname = (sep.fields["0"].variant if isinstance(sep, sym.Agg) and sep.variant == "Some" and isinstance(sep.fields.get("0"), sym.Agg) else
                   ("None" if isinstance(sep, sym.Agg) and sep.variant == "None" else None))
        notbra = isinstance(bra, sym.Scalar) and bra.term == "false"
        evs = {e.callee: e for e in p.events}
        is_ = lambda name: "(= %s %s)" % (D, bvlit(cssv.index(name), 64))
        if vec is val.children.get("List.0"):
            ok = sep is val.children.get("List.1") and bra is val.children.get("List.2")
            res = E.decide(ctx, p.pc + ["(not %s)" % is_("List")])
            rec.add("path %d [list]: elements, separator and brackets of a list pass through unchanged" % i, res if ok else {"verdict": "violated", "per_solver": {"structural": "identity"}, "time_s": 0})
            seen.add("list")
        elif "iter_items" in evs and vec is evs["iter_items"].result:
            rec.add("path %d [arglist]: the elements are the positional values followed by the keyword pairs and nothing else (Value::iter_items adds a null for a trailing comma)" % i,
                    {"verdict": "violated", "per_solver": {"structural": "elements come from Value::iter_items"}, "time_s": 0})
            seen.add("arglist")
        elif "extend" in evs:
            al = val.children.get("ArgList.0")
            pos = al.children.get("0") if al is not None else None
            named = al.children.get("1") if al is not None else None
            src_ok = ("into_iter" in evs and evs["into_iter"].rargs[0] is named and "iter_map" in evs and evs["iter_map"].rargs[0] is evs["into_iter"].result
                      and evs["extend"].rargs[0] is pos and evs["extend"].rargs[1] is evs["iter_map"].result and vec is pos)
            ok = src_ok and sepname == "Comma" and notbra and sum(1 for e in p.events if e.callee == "extend") == 1
            res = E.decide(ctx, p.pc + ["(not %s)" % is_("ArgList")])
            rec.add("path %d [arglist]: the positional vector, extended once by the keyword arguments mapped to pairs; comma separated, not bracketed" % i,
                    res if ok else {"verdict": "violated", "per_solver": {"structural": "event identity"}, "time_s": 0})
            seen.add("arglist")
        elif "collect" in evs and vec is evs["collect"].result:
            mp = val.children.get("Map.0")
            ok = (evs["into_iter"].rargs[0] is mp and evs["iter_map"].rargs[0] is evs["into_iter"].result and evs["collect"].rargs[0] is evs["iter_map"].result
                  and sepname == "Comma" and notbra)
            res = E.decide(ctx, p.pc + ["(not (and %s (not %s)))" % (is_("Map"), evs["is_empty"].result.term)]) if "is_empty" in evs else {"verdict": "violated", "per_solver": {}, "time_s": 0}
            rec.add("path %d [non-empty map]: the entries mapped to pairs, comma separated, not bracketed" % i, res if ok else {"verdict": "violated", "per_solver": {"structural": "event identity"}, "time_s": 0})
            seen.add("map")
        elif "vec_new" in evs and vec is evs["vec_new"].result:
            ok = sepname == "None" and notbra
            res = E.decide(ctx, p.pc + ["(not (and %s %s))" % (is_("Map"), evs["is_empty"].result.term)]) if "is_empty" in evs else {"verdict": "violated", "per_solver": {}, "time_s": 0}
            rec.add("path %d [empty map]: the empty list with no separator" % i, res if ok else {"verdict": "violated", "per_solver": {"structural": "shape"}, "time_s": 0})
            seen.add("empty-map")
        elif "vec_of_box" in evs and vec is evs["vec_of_box"].result:
            stored = [e.args[1] for e in p.events if e.callee == "store-opaque"]
            ok = any(_payload_contains(sv, val) for sv in stored) and sepname == "None" and notbra
            res = E.decide(ctx, p.pc + ["(or %s %s %s)" % (is_("List"), is_("Map"), is_("ArgList"))])
            rec.add("path %d [single value]: the one-element list of the value itself, no separator" % i, res if ok else {"verdict": "violated", "per_solver": {"structural": "shape"}, "time_s": 0})
            seen.add("single")
        else:
            rec.add("path %d: where the elements come from (shape not recognised)" % i, {"verdict": "inconclusive", "per_solver": {"structural": repr(vec)[:60]}, "time_s": 0})
    need = {"list", "arglist", "map", "empty-map", "single"}
    if not need <= seen:
        rec.add("all five kinds of argument explored (%s missing)" % sorted(need - seen), {"verdict": "inconclusive", "per_solver": {}, "time_s": 0})
    return rec


def k_bubble(E, tier):
    """C20 (bubbling wiring): when an item that cannot live inside a style rule (a @media or other at-rule
    with its own copy of the selector, a nested rule) reaches a RuleDest, the declarations collected so far
    are committed first and the item is then handed, unchanged, to the parent — so it is emitted at the outer
    level, after what preceded it and before what follows; committing swaps in a *fresh* rule with the same
    selectors (later declarations start a new block with the same selector), and nothing is pushed for an
    empty rule.  Errors of either step are returned."""
    items = E.load_enum("css/item.rs", "Item", "css::item::Item")
    f = E.find(name_re=r"^cssdest::<impl at .*>::push_item$", contains=["RuleDest::<'_>::commit_rule", "TryInto<BodyItem>"])
    rec = Rec("RuleDest::push_item / commit_rule", f, E)
    ctx = E.ctx()
    me = sym.Opaque("RuleDest", "self", ctx)
    item = sym.Opaque("css::item::Item", "item", ctx)

    def full(ex, st, x):
        while isinstance(x, sym.Ref):
            x = ex.deref(st, x)
        return x

    def forkres(name, okval=None):
        def m(ex, st, c, a, d):
            ok, err = st.fork(), st.fork()
            e = sym.Event(name, a, None, len(st.pc))
            e.rargs = [full(ex, st, x) for x in a]
            ok.events.append(e)
            e2 = sym.Event(name + "-failed", a, None, len(st.pc))
            err.events.append(e2)
            return [(ok, sym.Agg(d, "Ok", {"0": sym.Unit()}, 0)), (err, sym.Agg(d, "Err", {"0": sym.Opaque("Invalid", name + "-error", ctx)}, 1))]
        return m

    def m_try_into(ex, st, c, a, d):
        ok, err = st.fork(), st.fork()
        body = sym.Opaque("BodyItem", "as-body-item", ctx)
        back = sym.Opaque("AtRule", "at-rule-back", ctx)
        ok.events.append(sym.Event("try_into", a, "ok", len(st.pc)))
        err.events.append(sym.Event("try_into", a, "err", len(st.pc)))
        return [(ok, sym.Agg(d, "Ok", {"0": body}, 0)), (err, sym.Agg(d, "Err", {"0": back}, 1))]

    def m_rule_push(ex, st, c, a, d):
        e = sym.Event("own-rule-push", a, None, len(st.pc))
        e.rargs = [full(ex, st, x) for x in a]
        st.events.append(e)
        return sym.Unit()

    def m_into_item(ex, st, c, a, d):
        return sym.Agg("css::item::Item", "FROM", {"0": full(ex, st, a[0])})

    models = [(r"^RuleDest::<'_>::commit_rule$", forkres("commit_rule")), (r"^<dyn CssDestination as CssDestination>::push_item$", forkres("parent-push")),
              (r"^<AtRule as TryInto<BodyItem>>::try_into$", m_try_into), (r"^Rule::push$", m_rule_push),
              (r"as std::convert::Into<css::item::Item>>::into$", m_into_item)] + BASE_MODELS
    ex = sym.Executor(ctx, models=models, feasibility=E.feasibility(ctx), max_paths=4000)
    paths = [p for p in ex.run(f, [sym.Ref("val", me), item]) if p.status == "return"]
    rec.paths = len(paths)
    D = item.discriminant().term
    sep_i, at_i = items.index("Separator"), items.index("AtRule")
    seen = set()
    for i, p in enumerate(paths):
        names = [e.callee for e in p.events if e.callee in ("commit_rule", "commit_rule-failed", "parent-push", "parent-push-failed", "own-rule-push")]
        ret = p.ret
        is_ok = isinstance(ret, sym.Agg) and ret.variant == "Ok"
        ti = [e for e in p.events if e.callee == "try_into"]
        pp = [e for e in p.events if e.callee == "parent-push"]
        if not names and is_ok:
            r = E.decide(ctx, p.pc + ["(not (= %s %s))" % (D, bvlit(sep_i, 64))])
            rec.add("path %d: nothing happens only for a separator" % i, r)
            seen.add("separator")
        elif names == ["own-rule-push"] and is_ok:
            r = E.decide(ctx, p.pc + ["(not (= %s %s))" % (D, bvlit(at_i, 64))])
            good = bool(ti) and ti[0].result == "ok"
            rec.add("path %d: an at-rule that converts to a body item stays inside this rule" % i, r if good else {"verdict": "violated", "per_solver": {"structural": "events"}, "time_s": 0})
            seen.add("inline-atrule")
        elif names == ["commit_rule", "parent-push"] and is_ok:
            pushed = pp[0].rargs[1]
            if ti:
                good = ti[0].result == "err" and _payload_contains(pushed, [e for e in p.events if e.callee == "try_into"][0].args[0]) or isinstance(pushed, sym.Agg)
                what = "an at-rule that cannot be a body item"
            else:
                good = pushed is item
                what = "any other item"
                r0 = E.decide(ctx, p.pc + ["(or (= %s %s) (= %s %s))" % (D, bvlit(sep_i, 64), D, bvlit(at_i, 64))])
                good = good and r0["verdict"] == "holds"
            rec.add("path %d: %s: the collected declarations are committed first, then the item goes — unchanged — to the parent, whose destination is this rule's parent" % (i, what),
                    {"verdict": "holds" if good and pp[0].rargs[0] is me.children.get("0") else "violated", "per_solver": {"structural": "event order / identity"}, "time_s": 0})
            seen.add("bubble")
        elif names in (["commit_rule-failed"], ["commit_rule", "parent-push-failed"]):
            rec.add("path %d: a failing commit or parent push is returned as the error (%s)" % (i, names[-1]),
                    {"verdict": "holds" if isinstance(ret, sym.Agg) and ret.variant == "Err" else "violated", "per_solver": {"structural": "result"}, "time_s": 0})
            seen.add("error")
        else:
            rec.add("path %d: event sequence %s (shape not recognised)" % (i, names), {"verdict": "inconclusive", "per_solver": {}, "time_s": 0})
    need = {"separator", "inline-atrule", "bubble", "error"}
    if not need <= seen:
        rec.add("all outcome kinds explored (%s missing)" % sorted(need - seen), {"verdict": "inconclusive", "per_solver": {}, "time_s": 0})
    # commit_rule
    g = E.find(name_re=r"^cssdest::<impl at .*>::commit_rule$")
    ctx2 = E.ctx()
    me2 = sym.Opaque("RuleDest", "self", ctx2)
    empty = ctx2.fresh_scalar("bool", "body_is_empty")

    def m_is_empty(ex_, st, c, a, d):
        return empty

    def m_clone(ex_, st, c, a, d):
        v = ex_.resolve_ref(st, a[0])
        st.events.append(sym.Event("clone", [v], None, len(st.pc)))
        return sym.Agg("SelectorSet", "CLONE", {"0": v})

    def m_rule_new(ex_, st, c, a, d):
        o = sym.Agg("css::rule::Rule", "NEWRULE", {"0": a[0]})
        st.events.append(sym.Event("rule_new", a, o, len(st.pc)))
        return o

    def m_swap(ex_, st, c, a, d):
        x, y = a[0], a[1]
        vx, vy = ex_.deref(st, x), ex_.deref(st, y)
        e = sym.Event("swap", [vx, vy], None, len(st.pc))
        st.events.append(e)
        # exchange the two places
        for ref, val in ((x, vy), (y, vx)):
            if isinstance(ref, sym.Ref) and ref.kind == "local":
                fi, ln = ref.target
                st.frames[fi][ln] = val
        return sym.Unit()

    def m_ppush(ex_, st, c, a, d):
        ok, err = st.fork(), st.fork()
        e = sym.Event("parent-push", a, None, len(st.pc))
        e.rargs = [ex_.resolve_ref(st, x) for x in a]
        ok.events.append(e)
        err.events.append(sym.Event("parent-push-failed", a, None, len(st.pc)))
        return [(ok, sym.Agg(d, "Ok", {"0": sym.Unit()}, 0)), (err, sym.Agg(d, "Err", {"0": sym.Opaque("Invalid", "push-error", ctx2)}, 1))]

    def m_into2(ex_, st, c, a, d):
        return sym.Agg("css::item::Item", "FROM", {"0": ex_.resolve_ref(st, a[0])})

    models2 = [(r"^Vec::<BodyItem>::is_empty$", m_is_empty), (r"^<SelectorSet as Clone>::clone$", m_clone), (r"^Rule::new$", m_rule_new),
               (r"^std::mem::swap::<Rule>$", m_swap), (r"^<dyn CssDestination as CssDestination>::push_item$", m_ppush),
               (r"^<Rule as std::convert::Into<css::item::Item>>::into$", m_into2)] + BASE_MODELS
    ex2 = sym.Executor(ctx2, models=models2, feasibility=E.feasibility(ctx2))
    p2 = [p for p in ex2.run(g, [sym.Ref("val", me2)]) if p.status == "return"]
    rec.paths += len(p2)
    kinds = set()
    for i, p in enumerate(p2):
        pp = [e for e in p.events if e.callee == "parent-push"]
        pf = [e for e in p.events if e.callee == "parent-push-failed"]
        sw = [e for e in p.events if e.callee == "swap"]
        rn = [e for e in p.events if e.callee == "rule_new"]
        is_ok = isinstance(p.ret, sym.Agg) and p.ret.variant == "Ok"
        if not pp and not pf:
            r = E.decide(ctx2, p.pc + ["(not %s)" % empty.term])
            rec.add("commit path %d: nothing is pushed only for an empty rule" % i, r if is_ok and not sw else {"verdict": "violated", "per_solver": {"structural": "events"}, "time_s": 0})
            kinds.add("empty")
            continue
        own_rule = me2.children.get("1")
        sel = own_rule.children.get("0") if isinstance(own_rule, sym.Opaque) else None
        fresh_ok = (len(rn) == 1 and isinstance(rn[0].args[0], sym.Agg) and rn[0].args[0].variant == "CLONE" and rn[0].args[0].fields["0"] is sel
                    and len(sw) == 1 and {id(sw[0].args[0]), id(sw[0].args[1])} == {id(rn[0].result), id(own_rule)})
        if pp:
            pushed = pp[0].rargs[1]
            good = fresh_ok and is_ok and _payload_contains(pushed, own_rule) and pp[0].rargs[0] is me2.children.get("0")
            r = E.decide(ctx2, p.pc + [empty.term])
            rec.add("commit path %d: a non-empty rule is replaced by a fresh rule with (a copy of) the same selectors and the filled one goes to the parent" % i,
                    r if good else {"verdict": "violated", "per_solver": {"structural": "event identity fresh=%s" % fresh_ok}, "time_s": 0})
            kinds.add("commit")
        else:
            rec.add("commit path %d: a failing parent push is returned" % i, {"verdict": "holds" if not is_ok else "violated", "per_solver": {"structural": "result"}, "time_s": 0})
            kinds.add("error")
    if kinds != {"empty", "commit", "error"}:
        rec.add("commit_rule: all outcomes explored (%s)" % sorted(kinds), {"verdict": "inconclusive", "per_solver": {}, "time_s": 0})
    return rec


def k_loop_scopes(E, tier):
    """C16 (loop variables are local to their block): in handle_item the @for arm binds the loop variable in
    a sub-scope of the enclosing scope (never in the enclosing scope itself) and runs the body in that
    sub-scope; the @while arm runs condition and body in one sub-scope; the @each arm, which binds its
    variables in the current scope, saves the previous values first and restores them after the loop on
    every path that completes (so the variables do not leak)."""
    items = E.load_enum("sass/item.rs", "Item", "sass::item::Item")
    f = E.find(name="handle_item")
    rec = Rec("handle_item (@for / @each / @while arms: scopes of loop variables)", f, E)
    for arm in ("For", "Each", "While"):
        ctx = E.ctx()
        item = sym.Opaque("sass::item::Item", "item", ctx)
        ctx.assumptions.append("(= %s %s)" % (item.discriminant().term, bvlit(items.index(arm), 64)))
        outer = sym.Opaque("ScopeRef", "outer-scope", ctx)
        subs = []

        def full(ex, st, x):
            while isinstance(x, sym.Ref):
                x = ex.deref(st, x)
            return x

        def m_sub(ex, st, c, a, d, subs=subs, ctx=ctx):
            o = sym.Opaque("ScopeRef", "sub-scope%d" % len(subs), ctx)
            subs.append(o)
            e = sym.Event("sub", a, o, len(st.pc))
            e.rargs = [full(ex, st, x) for x in a]
            st.events.append(e)
            return o

        def fork(name, okv=None):
            def m(ex, st, c, a, d, ctx=ctx):
                ok, err = st.fork(), st.fork()
                e = sym.Event(name, a, None, len(st.pc))
                e.rargs = [full(ex, st, x) for x in a]
                ok.events.append(e)
                err.events.append(sym.Event(name + "-failed", a, None, len(st.pc)))
                v = okv(ctx) if okv else sym.Unit()
                e.result = v
                return [(ok, sym.Agg(d, "Ok", {"0": v}, 0)), (err, sym.Agg(d, "Err", {"0": sym.Opaque("Error", name + "-error", ctx)}, 1))]
            return m

        def ev(name, ret=None):
            def m(ex, st, c, a, d, ctx=ctx):
                o = ret(ctx) if ret else ctx.fresh_value(d or "()", "ret." + name)
                e = sym.Event(name, a, o, len(st.pc))
                e.rargs = [full(ex, st, x) for x in a]
                st.events.append(e)
                return o
            return m

        def m_next(ex, st, c, a, d, ctx=ctx):
            n = sum(1 for e in st.events if e.callee == "iter-some")
            if n >= 3:
                st.events.append(sym.Event("cut", [], None, len(st.pc)))
                return sym.Agg(d, "None", {}, 0)
            some, none = st.fork(), st.fork()
            some.events.append(sym.Event("iter-some", [], None, len(st.pc)))
            none.events.append(sym.Event("iter-none", [], None, len(st.pc)))
            return [(some, sym.Agg(d, "Some", {"0": sym.Opaque("css::value::Value", "loop-value%d" % n, ctx)}, 1)), (none, sym.Agg(d, "None", {}, 0))]

        truth = []

        def m_is_true(ex, st, c, a, d, ctx=ctx):
            n = sum(1 for e in st.events if e.callee == "cond")
            if n >= 2:
                st.events.append(sym.Event("cond", [], None, len(st.pc)))
                return sym.mk_bool("false")
            b = ctx.fresh_scalar("bool", "cond")
            st.events.append(sym.Event("cond", a, b, len(st.pc)))
            return b

        models = [
            (r"^ScopeRef::sub$", m_sub), (r"^<(ScopeRef|Name|css::value::Value) as Clone>::clone$", lambda ex, st, c, a, d: full(ex, st, a[0])),
            (r"^<Vec<Name> as Deref>::deref$", lambda ex, st, c, a, d: sym.Ref("val", full(ex, st, a[0]))),
            (r"^<ScopeRef as Deref>::deref$", lambda ex, st, c, a, d: sym.Ref("val", full(ex, st, a[0]))),
            (r"^SrcRange::evaluate$", fork("range", lambda ctx: sym.Opaque("ValueRange", "range", ctx))), (r"^check_body$", fork("check_body")),
            (r"^<ValueRange as IntoIterator>::into_iter$", lambda ex, st, c, a, d: a[0]), (r"^<ValueRange as Iterator>::next$", m_next),
            (r"^variablescope::Scope::define$", fork("define")), (r"^variablescope::Scope::define_multi$", fork("define_multi")),
            (r"^handle_body::<", fork("handle_body")),
            (r"^variablescope::Scope::store_local_values$", ev("store", lambda ctx: sym.Opaque("Vec", "saved-values", ctx))),
            (r"^variablescope::Scope::restore_local_values$", ev("restore", lambda ctx: sym.Unit())),
            (r"^sass::value::Value::evaluate$", fork("evaluate", lambda ctx: sym.Opaque("css::value::Value", "evaluated", ctx))),
            (r"^css::value::Value::iter_items$", ev("iter_items", lambda ctx: sym.Opaque("Vec<css::value::Value>", "items", ctx))),
            (r"^<Vec<css::value::Value> as IntoIterator>::into_iter$", lambda ex, st, c, a, d: a[0]),
            (r"^<std::vec::IntoIter<css::value::Value> as Iterator>::next$", m_next),
            (r"^css::value::Value::is_true$", m_is_true),
        ] + BASE_MODELS
        ex = sym.Executor(ctx, models=models, unroll=5, feasibility=E.feasibility(ctx), max_paths=6000)
        paths = [p for p in ex.run(f, [sym.Ref("val", item), sym.Opaque("&mut dyn CssDestination", "dest", ctx), outer, sym.Opaque("&mut Context", "fctx", ctx)]) if p.status == "return"]
        rec.paths += len(paths)
        # a failing step ends the loop with that error: no path goes on (another iteration, a completed arm) after a failure
        swallowed = []
        for i_, p_ in enumerate(paths):
            names_ = [e.callee for e in p_.events]
            fi = [k for k, n_ in enumerate(names_) if n_.endswith("-failed")]
            if not fi:
                continue
            after = [n_ for n_ in names_[fi[0] + 1:] if n_ in ("handle_body", "define", "define_multi", "iter-some", "evaluate", "handle_body-failed")]
            is_err = isinstance(p_.ret, sym.Agg) and p_.ret.variant == "Err"
            if after or not is_err:
                swallowed.append("path %d: %s then %s, result %s" % (i_, names_[fi[0]], after[:2], getattr(p_.ret, "variant", "?")))
        n_fail = sum(1 for p_ in paths if any(e.callee.endswith("-failed") for e in p_.events))
        rec.add("@%s arm: a failing step (range / items / condition / binding / body) ends the loop at once and its error is the result (%d failing paths)" % (arm.lower(), n_fail),
                {"verdict": ("holds" if not swallowed else "violated") if n_fail else "inconclusive", "per_solver": {"structural": "; ".join(swallowed[:2]) or "event order"}, "time_s": 0})
        okp = [p for p in paths if isinstance(p.ret, sym.Agg) and p.ret.variant == "Ok" and not any(e.callee == "cut" for e in p.events)]
        if not okp:
            rec.add("@%s arm: a completing path exists (shape not recognised)" % arm.lower(), {"verdict": "inconclusive", "per_solver": {}, "time_s": 0})
            continue
        bad, n_iter = [], 0
        for i, p in enumerate(okp):
            evs = p.events
            bodies = [e for e in evs if e.callee == "handle_body"]
            n_iter = max(n_iter, len(bodies))
            subs_here = [e for e in evs if e.callee == "sub"]
            if arm == "For":
                defs = [e for e in evs if e.callee == "define"]
                if len(defs) != len(bodies):
                    bad.append("path %d: one binding per iteration" % i)
                for d_, b_ in zip(defs, bodies):
                    sc = d_.rargs[0]
                    is_sub = any(sc is s_.result and s_.rargs[0] is outer for s_ in subs_here)
                    if not is_sub or sc is outer:
                        bad.append("path %d: the loop variable is bound in a sub-scope of the enclosing scope" % i)
                    if not any(x is sc for x in b_.rargs):
                        bad.append("path %d: the body runs in the scope that holds the loop variable" % i)
                    if d_.rargs[1] is not item.children.get("For.0"):
                        bad.append("path %d: the variable bound is the loop variable" % i)
            elif arm == "While":
                if bodies:
                    ok = len(subs_here) >= 1 and subs_here[0].rargs[0] is outer and all(any(x is subs_here[0].result for x in b_.rargs) for b_ in bodies)
                    ev_sc = [e for e in evs if e.callee == "evaluate"]
                    ok = ok and all(any(x is subs_here[0].result for x in e.rargs) for e in ev_sc)
                    if not ok:
                        bad.append("path %d: condition and body use one sub-scope of the enclosing scope" % i)
            else:
                st_ = [e for e in evs if e.callee == "store"]
                rs_ = [e for e in evs if e.callee == "restore"]
                dm = [e for e in evs if e.callee == "define_multi"]
                ok = (len(st_) == 1 and len(rs_) == 1 and st_[0].rargs[0] is outer and rs_[0].rargs[0] is outer and rs_[0].rargs[1] is st_[0].result
                      and st_[0].rargs[1] is item.children.get("Each.0") and evs.index(st_[0]) < min([evs.index(e) for e in dm] + [len(evs)])
                      and evs.index(rs_[0]) > max([evs.index(e) for e in dm + bodies] + [-1])
                      and all(e.rargs[0] is outer and e.rargs[1] is item.children.get("Each.0") for e in dm) and len(dm) == len(bodies))
                if not ok:
                    bad.append("path %d: previous values saved before the first binding and restored, from that very save, after the last iteration" % i)
        what = {"For": "the loop variable is bound in a sub-scope of the enclosing scope (a fresh one or one per loop) and the body runs in that scope",
                "While": "condition and body run in one sub-scope of the enclosing scope",
                "Each": "the variables are bound in the current scope between a save of their previous values and the restore of exactly that save"}[arm]
        rec.add("@%s arm (%d completing paths, up to %d iterations): %s" % (arm.lower(), len(okp), n_iter, what),
                {"verdict": "holds" if not bad else "violated", "per_solver": {"structural": "; ".join(bad[:3]) or "event identity"}, "time_s": 0})
        if n_iter < 2:
            rec.add("@%s arm: two iterations were explored" % arm.lower(), {"verdict": "inconclusive", "per_solver": {}, "time_s": 0})
    return rec


def k_callable_scopes(E, tier):
    """C18 (bodies see their definition site, not the call site): a user-defined function (Closure::eval_value)
    and a user-defined mixin (MixinDecl::get, Sass arm) bind their arguments in a new scope whose parent is
    the scope the callable was *defined* in (only the selector context comes from the call site), the
    arguments of a mixin call are evaluated in the *calling* scope, the body evaluated is the callable's own
    body in the scope that holds the bound arguments, and a function without @return yields null."""
    decls = E.load_enum("sass/mixin.rs", "MixinDecl")
    # --- functions
    f = E.find(name_re=r"^callable::<impl at .*>::eval_value$")
    rec = Rec("Closure::eval_value and MixinDecl::get (Sass arm)", f, E)
    ctx = E.ctx()
    clos = sym.Opaque("Closure", "closure", ctx)
    call = sym.Opaque("Call", "call", ctx)
    argscope = sym.Opaque("ScopeRef", "argument-scope", ctx)
    bound = sym.Opaque("ScopeRef", "scope-with-bound-arguments", ctx)

    def full(ex, st, x):
        while isinstance(x, sym.Ref):
            x = ex.deref(st, x)
        return x

    def common(ctx, argscope, bound):
        def m_clone(ex, st, c, a, d):
            return full(ex, st, a[0])

        def m_deref(ex, st, c, a, d):
            return sym.Ref("val", full(ex, st, a[0]))

        def m_get_sel(ex, st, c, a, d):
            sc = full(ex, st, a[0])
            o = sym.Opaque("SelectorCtx", "selectors-of(%s)" % getattr(sc, "name", "?"), ctx)
            e = sym.Event("get_selectors", [sc], o, len(st.pc))
            st.events.append(e)
            return sym.Ref("val", o)

        def m_sub_sel(ex, st, c, a, d):
            e = sym.Event("sub_selectors", a, argscope, len(st.pc))
            e.rargs = [full(ex, st, x) for x in a]
            st.events.append(e)
            return argscope

        def m_eval_args(ex, st, c, a, d):
            ok, err = st.fork(), st.fork()
            e = sym.Event("eval_args", a, bound, len(st.pc))
            e.rargs = [full(ex, st, x) for x in a]
            ok.events.append(e)
            return [(ok, sym.Agg(d, "Ok", {"0": bound}, 0)), (err, sym.Agg(d, "Err", {"0": sym.Opaque("CallError", "args-error", ctx)}, 1))]

        return [(r"^<(ScopeRef|SelectorCtx) as Clone>::clone$", m_clone), (r"^<ScopeRef as Deref>::deref$", m_deref),
                (r"^variablescope::Scope::get_selectors$", m_get_sel), (r"^ScopeRef::sub_selectors$", m_sub_sel), (r"^Closure::eval_args$", m_eval_args)]

    def m_eval_body(ex, st, c, a, d):
        out = []
        for kind, val in (("err", sym.Agg(d, "Err", {"0": sym.Opaque("Error", "body-error", ctx)}, 1)),
                          ("none", sym.Agg(d, "Ok", {"0": sym.Agg("Option", "None", {}, 0)}, 0)),
                          ("some", sym.Agg(d, "Ok", {"0": sym.Agg("Option", "Some", {"0": sym.Opaque("css::value::Value", "returned", ctx)}, 1)}, 0))):
            s2 = st.fork()
            e = sym.Event("eval_body", a, kind, len(st.pc))
            e.rargs = [full(ex, st, x) for x in a]
            s2.events.append(e)
            out.append((s2, val))
        return out

    def m_unwrap_or(ex, st, c, a, d):
        x = a[0]
        if isinstance(x, sym.Agg) and x.variant == "Some":
            return x.fields["0"]
        if isinstance(x, sym.Agg) and x.variant == "None":
            return a[1]
        return None

    models = common(ctx, argscope, bound) + [(r"^ScopeRef::eval_body$", m_eval_body), (r"^Option::<css::value::Value>::unwrap_or$", m_unwrap_or)] + _result_models() + BASE_MODELS
    ex = sym.Executor(ctx, models=models, feasibility=E.feasibility(ctx))
    paths = [p for p in ex.run(f, [sym.Ref("val", clos), call]) if p.status == "return"]
    rec.paths = len(paths)
    defscope = clos.children.get("scope") or clos.children.get("0")
    seen = set()
    for i, p in enumerate(paths):
        ss = [e for e in p.events if e.callee == "sub_selectors"]
        ea = [e for e in p.events if e.callee == "eval_args"]
        eb = [e for e in p.events if e.callee == "eval_body"]
        gs = [e for e in p.events if e.callee == "get_selectors"]
        if len(ss) != 1:
            rec.add("function path %d: one argument scope is created (shape not recognised)" % i, {"verdict": "inconclusive", "per_solver": {}, "time_s": 0})
            continue
        parent = ss[0].rargs[0]
        callscope = call.children.get("scope") or call.children.get("1")
        par_ok = isinstance(parent, sym.Opaque) and parent.name.startswith("closure") and parent is not callscope
        sel_ok = len(gs) == 1 and isinstance(gs[0].args[0], sym.Opaque) and gs[0].args[0].name.startswith("call") and ss[0].rargs[1] is gs[0].result
        rec.add("function path %d: the argument scope is a child of the closure's own (definition-site) scope; only the selector context is taken from the calling scope" % i,
                {"verdict": "holds" if par_ok and sel_ok else "violated", "per_solver": {"structural": "parent=%s selectors=%s" % (getattr(parent, "name", "?"), sel_ok)}, "time_s": 0})
        if ea:
            good = ea[0].rargs[0] is clos and ea[0].rargs[1] is argscope and isinstance(ea[0].rargs[2], sym.Opaque) and ea[0].rargs[2].name.startswith("call")
            rec.add("function path %d: the call's arguments are bound in that scope" % i, {"verdict": "holds" if good else "violated", "per_solver": {"structural": "event identity"}, "time_s": 0})
        if eb:
            body_of_closure = isinstance(eb[0].rargs[1], sym.Opaque) and eb[0].rargs[1].name.startswith("closure")
            good = eb[0].rargs[0] is bound and body_of_closure
            rec.add("function path %d: the closure's own body is evaluated in the scope holding the bound arguments" % i,
                    {"verdict": "holds" if good else "violated", "per_solver": {"structural": "event identity"}, "time_s": 0})
            ret = p.ret
            if eb[0].result == "none":
                good = isinstance(ret, sym.Agg) and ret.variant == "Ok" and isinstance(ret.fields["0"], sym.Agg) and ret.fields["0"].variant == "Null"
                rec.add("function path %d: a body that reaches no @return yields null" % i, {"verdict": "holds" if good else "violated", "per_solver": {"structural": repr(ret)[:60]}, "time_s": 0})
                seen.add("null")
            elif eb[0].result == "some":
                good = isinstance(ret, sym.Agg) and ret.variant == "Ok" and isinstance(ret.fields["0"], sym.Opaque) and ret.fields["0"].name == "returned"
                rec.add("function path %d: the value of the @return reached is the result" % i, {"verdict": "holds" if good else "violated", "per_solver": {"structural": repr(ret)[:60]}, "time_s": 0})
                seen.add("value")
            else:
                good = isinstance(ret, sym.Agg) and ret.variant == "Err"
                rec.add("function path %d: an error in the body is an error of the call" % i, {"verdict": "holds" if good else "violated", "per_solver": {"structural": repr(ret)[:60]}, "time_s": 0})
                seen.add("error")
    if not {"null", "value", "error"} <= seen:
        rec.add("function: all body outcomes explored (%s)" % sorted(seen), {"verdict": "inconclusive", "per_solver": {}, "time_s": 0})
    # --- mixins
    g = E.find(name_re=r"^mixin::<impl at .*>::get$", contains=["SourceKind::load_css"])
    ctx2 = E.ctx()
    decl = sym.Opaque("MixinDecl", "decl", ctx2)
    ctx2.assumptions.append("(= %s %s)" % (decl.discriminant().term, bvlit(decls.index("Sass"), 64)))
    callscope2 = sym.Opaque("ScopeRef", "calling-scope", ctx2)
    argscope2 = sym.Opaque("ScopeRef", "argument-scope", ctx2)
    bound2 = sym.Opaque("ScopeRef", "scope-with-bound-arguments", ctx2)
    cargs = sym.Opaque("&CallArgs", "call_args", ctx2)

    def m_evaluate(ex_, st, c, a, d):
        ok, err = st.fork(), st.fork()
        o = sym.Opaque("Call", "evaluated-call", ctx2)
        e = sym.Event("evaluate_args", a, o, len(st.pc))
        e.rargs = [full(ex_, st, x) for x in a]
        ok.events.append(e)
        return [(ok, sym.Agg(d, "Ok", {"0": o}, 0)), (err, sym.Agg(d, "Err", {"0": sym.Opaque("CallError", "e", ctx2)}, 1))]

    models2 = common(ctx2, argscope2, bound2) + [(r"^sass::call_args::CallArgs::evaluate$", m_evaluate)] + BASE_MODELS
    ex2 = sym.Executor(ctx2, models=models2, feasibility=E.feasibility(ctx2), max_paths=4000)
    p2 = [p for p in ex2.run(g, [decl, callscope2, cargs, sym.Opaque("&SourcePos", "pos", ctx2), sym.Opaque("&mut Context", "fctx", ctx2)]) if p.status == "return"]
    rec.paths += len(p2)
    okm = [p for p in p2 if isinstance(p.ret, sym.Agg) and p.ret.variant == "Ok"]
    if not okm:
        rec.add("mixin: an Ok path exists (shape not recognised)", {"verdict": "inconclusive", "per_solver": {}, "time_s": 0})
    for i, p in enumerate(okm):
        ss = [e for e in p.events if e.callee == "sub_selectors"]
        ea = [e for e in p.events if e.callee == "eval_args"]
        ev_ = [e for e in p.events if e.callee == "evaluate_args"]
        gs = [e for e in p.events if e.callee == "get_selectors"]
        if len(ss) != 1 or len(ea) != 1 or len(ev_) != 1:
            rec.add("mixin path %d: one argument scope, one evaluation of the call arguments, one binding (shape not recognised)" % i, {"verdict": "inconclusive", "per_solver": {}, "time_s": 0})
            continue
        parent = ss[0].rargs[0]
        par_ok = isinstance(parent, sym.Opaque) and parent.name.startswith("decl") and parent is not callscope2
        sel_ok = len(gs) >= 1 and gs[0].args[0] is callscope2 and ss[0].rargs[1] is gs[0].result
        args_ok = ev_[0].rargs[0] is cargs and ev_[0].rargs[1] is callscope2
        bind_ok = ea[0].rargs[1] is argscope2 and isinstance(ea[0].rargs[2], sym.Opaque) and ea[0].rargs[2].name.startswith("evaluated-call")
        mix = p.ret.fields["0"]
        scope_f = mix.fields.get("scope") if isinstance(mix, sym.Agg) else None
        body_f = mix.fields.get("body") if isinstance(mix, sym.Agg) else None
        body_ok = scope_f is bound2 and _payload_contains_name(body_f, "decl")
        rec.add("mixin path %d: arguments are evaluated in the calling scope and bound in a child of the mixin's definition-site scope (selector context from the call site); "
                "the Mixin returned carries that scope and the declaration's own body" % i,
                {"verdict": "holds" if par_ok and sel_ok and args_ok and bind_ok and body_ok else "violated",
                 "per_solver": {"structural": "parent=%s sel=%s args=%s bind=%s body=%s" % (par_ok, sel_ok, args_ok, bind_ok, body_ok)}, "time_s": 0})
    return rec


def _payload_contains_name(v, prefix, depth=0):
    """does the aggregate carry an opaque value whose name starts with `prefix` (i.e. derived from that object)?"""
    if isinstance(v, sym.Opaque):
        return v.name.startswith(prefix)
    if isinstance(v, sym.Agg) and depth < 6:
        return any(_payload_contains_name(x, prefix, depth + 1) for x in v.fields.values())
    return False


def k_map_find_value(E, tier):
    """C13: map.get / map.has-key (find_value): the flat lookup is exactly OrderMap::get(map, key) (whose `==`
    semantics E1 checks); with a chain of further keys each step looks the next key up *in the map found by
    the previous step* and the answer is `nothing` as soon as a step does not yield a map; the closures turn
    the answer into the value or null (get) and into a boolean (has-key)."""
    cssv = E.load_enum("css/value.rs", "Value", "css::value::Value")
    f = E.find(name="find_value")
    rec = Rec("map::find_value and the map.get / map.has-key closures", f, E)
    ctx = E.ctx()
    top = sym.Opaque("OrderMap", "map", ctx)
    key = sym.Opaque("css::value::Value", "key", ctx)
    keys = sym.Opaque("css::value::Value", "keys", ctx)
    chain = []

    def full(ex, st, x):
        while isinstance(x, sym.Ref):
            x = ex.deref(st, x)
        return x

    def m_get(ex, st, c, a, d):
        m_, k_ = full(ex, st, a[0]), full(ex, st, a[1])
        some, none = st.fork(), st.fork()
        v = sym.Opaque("css::value::Value", "found%d" % sum(1 for e in st.events if e.callee == "get"), ctx)
        for s2, r in ((some, "some"), (none, "none")):
            e = sym.Event("get", a, r, len(st.pc))
            e.rargs = [m_, k_]
            e.found = v
            s2.events.append(e)
        return [(some, sym.Agg(d, "Some", {"0": sym.Ref("val", v)}, 1)), (none, sym.Agg(d, "None", {}, 0))]

    def m_next(ex, st, c, a, d):
        n = sum(1 for e in st.events if e.callee == "chain-some")
        if n >= 2:
            st.events.append(sym.Event("cut", [], None, len(st.pc)))
            return sym.Agg(d, "None", {}, 0)
        while len(chain) <= n:
            chain.append(sym.Opaque("css::value::Value", "chain-key%d" % len(chain), ctx))
        some, none = st.fork(), st.fork()
        some.events.append(sym.Event("chain-some", [], None, len(st.pc)))
        none.events.append(sym.Event("chain-none", [], None, len(st.pc)))
        return [(some, sym.Agg(d, "Some", {"0": sym.Ref("val", chain[n])}, 1)), (none, sym.Agg(d, "None", {}, 0))]

    def m_check(ex, st, c, a, d):
        ok, err = st.fork(), st.fork()
        return [(ok, sym.Agg(d, "Ok", {"0": sym.Unit()}, 0)), (err, sym.Agg(d, "Err", {"0": sym.Opaque("ArgsError", "e", ctx)}, 1))]

    ident = lambda ex, st, c, a, d: a[0]
    models = [(r"^OrderMap::<css::value::Value, css::value::Value>::get$", m_get), (r"^<std::slice::Iter<'_, css::value::Value> as Iterator>::next$", m_next),
              (r"^<&Vec<css::value::Value> as IntoIterator>::into_iter$", lambda ex, st, c, a, d: sym.Opaque("iter", "chain-iter", ctx)),
              (r"^css::call_args::CallArgs::check_no_named$", m_check)] + _result_models() + BASE_MODELS
    ex = sym.Executor(ctx, models=models, unroll=5, feasibility=E.feasibility(ctx), max_paths=4000)
    paths = [p for p in ex.run(f, [sym.Ref("val", top), sym.Ref("val", key), sym.Ref("val", keys)]) if p.status == "return"]
    rec.paths = len(paths)
    KD = keys.discriminant().term
    seen = set()
    bad = []
    n_ok = 0
    for i, p in enumerate(paths):
        if any(e.callee == "cut" for e in p.events):
            continue
        if not (isinstance(p.ret, sym.Agg) and p.ret.variant == "Ok"):
            continue
        n_ok += 1
        gets = [e for e in p.events if e.callee == "get"]
        res = p.ret.fields["0"]
        if not gets or gets[0].rargs[0] is not top or gets[0].rargs[1] is not key:
            bad.append("path %d: the first lookup is get(map, key)" % i)
            continue
        # each further lookup is made in the map found by the previous step, with the next key of the chain
        ok = True
        for k in range(1, len(gets)):
            prev = gets[k - 1]
            inner = prev.found.children.get("Map.0")
            if prev.result != "some" or gets[k].rargs[0] is not inner:
                ok = False
        if not ok:
            bad.append("path %d: each step descends into the map found by the previous step" % i)
            continue
        last = gets[-1]
        some_res = isinstance(res, sym.Agg) and res.variant == "Some"
        if some_res:
            got = res.fields["0"]
            got = got.target if isinstance(got, sym.Ref) else got
            if not (last.result == "some" and got is last.found):
                bad.append("path %d: the answer is what the last lookup found" % i)
            seen.add("found-%d" % len(gets))
        else:
            seen.add("none-%d" % len(gets))
    rec.add("find_value: get(map, key) first, each further key looked up in the map found by the previous step, the answer is the last lookup's (%d Ok paths)" % n_ok,
            {"verdict": "holds" if not bad and n_ok else ("violated" if bad else "inconclusive"), "per_solver": {"structural": "; ".join(bad[:3]) or "event identity"}, "time_s": 0})
    if not {"found-1", "none-1", "found-2"} <= seen:
        rec.add("flat and chained lookups explored (%s)" % sorted(seen), {"verdict": "inconclusive", "per_solver": {}, "time_s": 0})
    # the closures
    for fn, contains in (("get", ["find_value", "cloned"]), ("has-key", ["find_value", "is_some"])):
        g = E.find(name_re=r"^map::create_module::\{closure#\d+\}$", contains=contains)
        ctx2 = E.ctx()
        vals = {}
        ans = sym.Opaque("std::option::Option<&css::value::Value>", "answer", ctx2)

        def m_fv(ex_, st, c, a, d, ctx2=ctx2, ans=ans):
            ok, err = st.fork(), st.fork()
            e = sym.Event("find_value", a, ans, len(st.pc))
            e.rargs = [ex_.resolve_ref(st, x) for x in a]
            ok.events.append(e)
            return [(ok, sym.Agg(d, "Ok", {"0": ans}, 0)), (err, sym.Agg(d, "Err", {"0": sym.Opaque("CallError", "e", ctx2)}, 1))]

        def m_is_some(ex_, st, c, a, d):
            return sym.mk_bool("(= %s %s)" % (ex_.discriminant(ex_.resolve_ref(st, a[0])).term, bvlit(1, 64)))

        def m_into_bool(ex_, st, c, a, d):
            return sym.Agg("css::value::Value", "BOOL", {"0": a[0]})

        models2 = [(r"^find_value$", m_fv), (r"^Option::<&css::value::Value>::cloned$", lambda ex_, st, c, a, d: a[0]),
                   (r"^Option::<&css::value::Value>::is_some$", m_is_some), (r"^<bool as std::convert::Into<css::value::Value>>::into$", m_into_bool),
                   (r"^Option::<css::value::Value>::unwrap_or$", lambda ex_, st, c, a, d: sym.Agg("css::value::Value", "UNWRAP_OR", {"0": a[0], "1": a[1]}))] + _color_fn_models(E, ctx2, vals)
        ex2 = sym.Executor(ctx2, models=models2, feasibility=E.feasibility(ctx2))
        ps = [p for p in ex2.run(g, [sym.Opaque("closure", "self", ctx2), sym.Opaque("&ResolvedArgs", "s", ctx2)]) if p.status == "return" and isinstance(p.ret, sym.Agg) and p.ret.variant == "Ok"]
        rec.paths += len(ps)
        good = bool(ps)
        for p in ps:
            fv = [e for e in p.events if e.callee == "find_value"]
            out = p.ret.fields["0"]
            wired = len(fv) == 1 and fv[0].rargs[0] is vals.get("map") and fv[0].rargs[1] is vals.get("key") and fv[0].rargs[2] is vals.get("keys")
            if fn == "get":
                shape = isinstance(out, sym.Agg) and out.variant == "UNWRAP_OR" and out.fields["0"] is ans and isinstance(out.fields["1"], sym.Agg) and out.fields["1"].variant == "Null"
            else:
                shape = isinstance(out, sym.Agg) and out.variant == "BOOL" and isinstance(out.fields["0"], sym.Scalar) and ans.disc is not None and ans.disc.term in out.fields["0"].term
            good = good and wired and shape
        rec.add("map.%s: find_value($map, $key, $keys) %s" % (fn, "cloned, or null when nothing was found" if fn == "get" else "is_some as a boolean"),
                {"verdict": "holds" if good else ("violated" if ps else "inconclusive"), "per_solver": {"structural": "event identity"}, "time_s": 0})
    return rec


def k_declaration_arms(E, tier):
    """C21: the declaration arms of handle_item (`name: value`, custom properties, `name: value { … }`): the
    value is evaluated once; a declaration whose value is not null is handed to the destination exactly
    once, with that evaluated value; the arm completes only if that push succeeded, and every failure
    (evaluation, invalid CSS, a destination that refuses the declaration) is returned as the error — a
    declaration is skipped silently only when its value is null."""
    items = E.load_enum("sass/item.rs", "Item", "sass::item::Item")
    f = E.find(name="handle_item")
    rec = Rec("handle_item (Property / CustomProperty / NamespaceRule arms)", f, E)
    for arm in ("Property", "CustomProperty", "NamespaceRule"):
        ctx = E.ctx()
        item = sym.Opaque("sass::item::Item", "item", ctx)
        ctx.assumptions.append("(= %s %s)" % (item.discriminant().term, bvlit(items.index(arm), 64)))
        isnull = ctx.fresh_scalar("bool", "value_is_null")

        def full(ex, st, x):
            while isinstance(x, sym.Ref):
                x = ex.deref(st, x)
            return x

        def fork(name, okv=None):
            def m(ex, st, c, a, d, ctx=ctx):
                ok, err = st.fork(), st.fork()
                e = sym.Event(name, a, None, len(st.pc))
                e.rargs = [full(ex, st, x) for x in a]
                v = okv(ctx, e) if okv else sym.Unit()
                e.result = v
                ok.events.append(e)
                e2 = sym.Event(name + "-failed", a, None, len(st.pc))
                err.events.append(e2)
                return [(ok, sym.Agg(d, "Ok", {"0": v}, 0)), (err, sym.Agg(d, "Err", {"0": sym.Opaque("Error", name + "-error", ctx)}, 1))]
            return m

        def m_take_value(ex, st, c, a, d):
            return full(ex, st, a[0])

        def m_is_null(ex, st, c, a, d):
            st.events.append(sym.Event("is_null", [full(ex, st, a[0])], None, len(st.pc)))
            return isnull

        def m_wrap(ex, st, c, a, d):
            # `.at(pos)` / `.no_pos()` / `valid_css()` keep Ok/Err and wrap the payload
            x = a[0]
            if isinstance(x, sym.Agg) and x.variant in ("Ok", "Err"):
                return x
            return None

        def m_valid_css(ex, st, c, a, d, ctx=ctx):
            ok, err = st.fork(), st.fork()
            v = full(ex, st, a[0])
            ok.events.append(sym.Event("valid_css", [v], None, len(st.pc)))
            err.events.append(sym.Event("valid_css-failed", [v], None, len(st.pc)))
            return [(ok, sym.Agg(d, "Ok", {"0": v}, 0)), (err, sym.Agg(d, "Err", {"0": sym.Opaque("InvalidCss", "invalid-css", ctx)}, 1))]

        def m_start_ns(ex, st, c, a, d, ctx=ctx):
            ok, err = st.fork(), st.fork()
            o = sym.Opaque("NsRuleDest", "nested-destination", ctx)
            e = sym.Event("start_nsrule", a, o, len(st.pc))
            e.rargs = [full(ex, st, x) for x in a]
            ok.events.append(e)
            err.events.append(sym.Event("start_nsrule-failed", a, None, len(st.pc)))
            return [(ok, sym.Agg(d, "Ok", {"0": o}, 0)), (err, sym.Agg(d, "Err", {"0": sym.Opaque("Invalid", "nsrule-error", ctx)}, 1))]

        models = [
            (r"^sass::value::Value::evaluate$", fork("evaluate-value", lambda ctx, e: sym.Opaque("css::value::Value", "value", ctx))),
            (r"^SassString::evaluate$", fork("evaluate-name", lambda ctx, e: sym.Opaque("CssString", "name", ctx))),
            (r"^CssString::take_value$", m_take_value), (r"^css::value::Value::is_null$", m_is_null), (r"^css::value::Value::valid_css$", m_valid_css),
            (r"::push_property$", fork("push_property")), (r"::push_custom_property$", fork("push_custom_property")),
            (r"::start_nsrule$", m_start_ns), (r"^check_body$", fork("check_body")), (r"^handle_body::<", fork("handle_body")),
            (r"as ResultPos<.*>>::at$|as ResultPos<.*>>::no_pos$|::at::<|::no_pos::<", m_wrap),
            (r"^<String as Clone>::clone$", lambda ex, st, c, a, d: full(ex, st, a[0])),
        ] + BASE_MODELS
        ex = sym.Executor(ctx, models=models, feasibility=E.feasibility(ctx), max_paths=6000)
        paths = [p for p in ex.run(f, [sym.Ref("val", item), sym.Opaque("&mut dyn CssDestination", "dest", ctx), sym.Opaque("ScopeRef", "scope", ctx),
                                       sym.Opaque("&mut Context", "fctx", ctx)]) if p.status == "return"]
        rec.paths += len(paths)
        bad, n_ok, n_err, unknown = [], 0, 0, 0
        kinds = set()
        pushname = "push_custom_property" if arm == "CustomProperty" else "push_property"
        for i, p in enumerate(paths):
            ret = p.ret
            if not (isinstance(ret, sym.Agg) and ret.variant in ("Ok", "Err")):
                unknown += 1
                continue
            names = [e.callee for e in p.events if not e.callee.startswith(("drop", "store"))]
            failed = [n for n in names if n.endswith("-failed")]
            if ret.variant == "Err":
                n_err += 1
                if not failed:
                    bad.append("path %d: an error is returned although nothing failed" % i)
                continue
            n_ok += 1
            if failed:
                bad.append("path %d: completes although %s" % (i, failed[0]))
                continue
            ev = [e for e in p.events if e.callee == "evaluate-value"]
            if arm == "CustomProperty":   # name and value are both interpolated strings; the value is evaluated first
                ev = [e for e in p.events if e.callee == "evaluate-name"][:1]
            pu = [e for e in p.events if e.callee == pushname]
            if len(ev) != 1:
                bad.append("path %d: the value is evaluated exactly once" % i)
                continue
            if arm == "CustomProperty":
                ok = len(pu) == 1 and pu[0].rargs[2] is ev[0].result
                kinds.add("pushed")
            else:
                nullp = E.decide(ctx, p.pc + ["(not %s)" % isnull.term])["verdict"] == "holds"
                notnull = E.decide(ctx, p.pc + [isnull.term])["verdict"] == "holds"
                if nullp:
                    ok = not pu
                    kinds.add("null-skipped")
                elif notnull:
                    ok = len(pu) == 1 and pu[0].rargs[2] is ev[0].result
                    kinds.add("pushed")
                else:
                    ok = False
                if arm == "NamespaceRule":
                    ns = [e for e in p.events if e.callee == "start_nsrule"]
                    hb = [e for e in p.events if e.callee == "handle_body"]
                    ok = ok and len(ns) == 1 and len(hb) == 1 and any(x is ns[0].result for x in hb[0].rargs)
            if not ok:
                bad.append("path %d: pushed exactly once with the evaluated value unless the value is null" % i)
        what = {"Property": "a declaration with a non-null value is pushed exactly once with the evaluated value, a null value is skipped, every failure is returned",
                "CustomProperty": "a custom property is always pushed with its evaluated value, every failure is returned",
                "NamespaceRule": "the own value (if not null) is pushed, then the nested block is handled in the namespace destination; every failure is returned"}[arm]
        if n_ok == 0:
            rec.add("%s arm: a completing path exists (shape not recognised; %d paths with unknown result)" % (arm, unknown), {"verdict": "inconclusive", "per_solver": {}, "time_s": 0})
            continue
        rec.add("%s arm (%d completing, %d failing paths): %s" % (arm, n_ok, n_err, what),
                {"verdict": "holds" if not bad else "violated", "per_solver": {"structural": "; ".join(bad[:3]) or "event identity", "z3+cvc5": "null / non-null decided from the path condition"}, "time_s": 0})
        need = {"pushed"} if arm == "CustomProperty" else {"pushed", "null-skipped"}
        if not need <= kinds:
            rec.add("%s arm: pushed and skipped outcomes explored (%s)" % (arm, sorted(kinds)), {"verdict": "inconclusive", "per_solver": {}, "time_s": 0})
    return rec


def k_map_literal(E, tier):
    """C13: a map literal (the Map arm of sass::Value::do_evaluate) is built by inserting every evaluated
    (key, value) pair, in source order, with OrderMap::insert — the operation whose `==`-merging E1 checks —
    and the literal is an error (`Duplicate key.`) exactly when an insert reports that an `==` key was
    already there; evaluation errors of keys and values are returned."""
    sv = E.load_enum("sass/value.rs", "Value", "sass::value::Value")
    f = E.find(name_re=r"^sass::value::<impl at .*>::do_evaluate$", contains=["Duplicate key"])
    rec = Rec("sass::Value::do_evaluate (Map arm)", f, E)
    ctx = E.ctx()
    me = sym.Opaque("sass::value::Value", "literal", ctx)
    ctx.assumptions.append("(= %s %s)" % (me.discriminant().term, bvlit(sv.index("Map"), 64)))
    themap = sym.Opaque("css::ValueMap", "items", ctx)
    srcs = []

    def full(ex, st, x):
        while isinstance(x, sym.Ref):
            x = ex.deref(st, x)
        return x

    def m_new(ex, st, c, a, d):
        st.events.append(sym.Event("map_new", a, themap, len(st.pc)))
        return themap

    def m_next(ex, st, c, a, d):
        n = sum(1 for e in st.events if e.callee == "pair-some")
        if n >= 3:
            st.events.append(sym.Event("cut", [], None, len(st.pc)))
            return sym.Agg(d, "None", {}, 0)
        while len(srcs) <= n:
            k = len(srcs)
            srcs.append((sym.Opaque("sass::value::Value", "key-expr%d" % k, ctx), sym.Opaque("sass::value::Value", "value-expr%d" % k, ctx)))
        some, none = st.fork(), st.fork()
        some.cells["S%d" % n] = sym.Agg("pair", None, {"0": srcs[n][0], "1": srcs[n][1]})
        some.events.append(sym.Event("pair-some", [], None, len(st.pc)))
        none.events.append(sym.Event("pair-none", [], None, len(st.pc)))
        return [(some, sym.Agg(d, "Some", {"0": sym.Ref("cell", "S%d" % n)}, 1)), (none, sym.Agg(d, "None", {}, 0))]

    def m_eval(ex, st, c, a, d):
        # the recursive call on a key or value expression
        src = full(ex, st, a[0])
        ok, err = st.fork(), st.fork()
        v = sym.Opaque("css::value::Value", "evaluated(%s)" % getattr(src, "name", "?"), ctx)
        e = sym.Event("evaluate", a, v, len(st.pc))
        e.rargs = [src]
        ok.events.append(e)
        err.events.append(sym.Event("evaluate-failed", a, None, len(st.pc)))
        return [(ok, sym.Agg(d, "Ok", {"0": v}, 0)), (err, sym.Agg(d, "Err", {"0": sym.Opaque("Error", "eval-error", ctx)}, 1))]

    def m_insert(ex, st, c, a, d):
        some, none = st.fork(), st.fork()
        for s2, r in ((some, "some"), (none, "none")):
            e = sym.Event("insert", a, r, len(st.pc))
            e.rargs = [full(ex, st, x) for x in a]
            s2.events.append(e)
        return [(some, sym.Agg(d, "Some", {"0": sym.Opaque("css::value::Value", "previous", ctx)}, 1)), (none, sym.Agg(d, "None", {}, 0))]

    def m_is_some(ex, st, c, a, d):
        x = full(ex, st, a[0])
        if isinstance(x, sym.Agg):
            return sym.mk_bool("true" if x.variant == "Some" else "false")
        return sym.mk_bool("(= %s %s)" % (ex.discriminant(x).term, bvlit(1, 64)))

    def m_other_build(name):
        def m(ex, st, c, a, d):
            o = ctx.fresh_value(d or "()", "ret." + name)
            st.events.append(sym.Event(name, a, o, len(st.pc)))
            return o
        return m

    models = [
        (r"^OrderMap::<css::value::Value, css::value::Value>::new$", m_new),
        (r"^<std::slice::Iter<'_, \(sass::value::Value, sass::value::Value\)> as Iterator>::next$", m_next),
        (r"^<&Vec<\(sass::value::Value, sass::value::Value\)> as IntoIterator>::into_iter$", lambda ex, st, c, a, d: sym.Opaque("iter", "pairs", ctx)),
        (r"^sass::value::Value::do_evaluate$", m_eval), (r"^OrderMap::<css::value::Value, css::value::Value>::insert$", m_insert),
        (r"^Option::<css::value::Value>::is_some$", m_is_some), (r"^<ScopeRef as Clone>::clone$", lambda ex, st, c, a, d: full(ex, st, a[0])),
        (r"as Iterator>::collect::<.*OrderMap", m_other_build("collect-into-map")), (r"as FromIterator<.*>>::from_iter", m_other_build("collect-into-map")),
    ] + BASE_MODELS
    ex = sym.Executor(ctx, models=models, unroll=7, feasibility=E.feasibility(ctx), max_paths=4000)
    paths = [p for p in ex.run(f, [sym.Ref("val", me), sym.Opaque("ScopeRef", "scope", ctx), ctx.fresh_scalar("bool", "arithmetic")]) if p.status == "return"]
    rec.paths = len(paths)
    seen = set()
    bad = []
    unknown = 0
    for i, p in enumerate(paths):
        if any(e.callee == "cut" for e in p.events):
            continue
        ret = p.ret
        if not (isinstance(ret, sym.Agg) and ret.variant in ("Ok", "Err")):
            unknown += 1
            continue
        if any(e.callee == "collect-into-map" for e in p.events):
            bad.append("path %d: the map is collected from an iterator (OrderMap's FromIterator does not merge `==` keys) instead of being built with insert" % i)
            continue
        n = sum(1 for e in p.events if e.callee == "pair-some")
        ins = [e for e in p.events if e.callee == "insert"]
        evs = [e for e in p.events if e.callee == "evaluate"]
        failed = any(e.callee == "evaluate-failed" for e in p.events)
        if ret.variant == "Ok":
            out = ret.fields["0"]
            ok = (not failed and len(ins) == n and all(x.result == "none" for x in ins) and isinstance(out, sym.Agg) and out.variant == "Map" and out.fields["0"] is themap
                  and all(ins[k].rargs[0] is themap and isinstance(ins[k].rargs[1], sym.Opaque) and ins[k].rargs[1].name == "evaluated(key-expr%d)" % k
                          and ins[k].rargs[2].name == "evaluated(value-expr%d)" % k for k in range(n)))
            if not ok:
                bad.append("path %d: Ok only when every pair was inserted, in order, and no insert met an `==` key" % i)
            seen.add("ok-%d" % n)
        else:
            dup = bool(ins) and ins[-1].result == "some"
            if not (failed or dup):
                bad.append("path %d: an error without a failed evaluation or a duplicate key" % i)
            if dup:
                seen.add("duplicate")
            if failed:
                seen.add("eval-error")
    rec.add("map literal: every evaluated pair is inserted in order; the literal is an error exactly for a failed evaluation or an insert that met an `==` key (%d paths)" % len(paths),
            {"verdict": "holds" if not bad and seen else ("violated" if bad else "inconclusive"), "per_solver": {"structural": "; ".join(bad[:2]) or "event identity"}, "time_s": 0})
    need = {"ok-0", "ok-1", "ok-2", "duplicate", "eval-error"}
    if not bad and not need <= seen:
        rec.add("all outcome kinds explored (%s missing; %d paths with unknown result)" % (sorted(need - seen), unknown), {"verdict": "inconclusive", "per_solver": {}, "time_s": 0})
    return rec


def k_store_restore_locals(E, tier):
    """C16 (@each variables do not leak): Scope::store_local_values snapshots, for each name, what *this
    scope's own* variable table holds (None when it holds nothing — never a value found in an enclosing
    scope), and restore_local_values puts exactly that back: a saved value is re-inserted, a saved None
    removes the variable."""
    f = E.find(name_re=r"^variablescope::<impl at .*>::store_local_values$")
    rec = Rec("Scope::store_local_values / restore_local_values", f, E)
    ctx = E.ctx()
    me = sym.Opaque("Scope", "self", ctx)

    def full(ex, st, x):
        while isinstance(x, sym.Ref):
            x = ex.deref(st, x)
        return x

    def m_lock(ex, st, c, a, d):
        tbl = full(ex, st, a[0])
        return sym.Agg(d, "Ok", {"0": sym.Agg("MutexGuard", "GUARD", {"0": tbl})}, 0)

    def m_unwrap(ex, st, c, a, d):
        x = a[0]
        return x.fields["0"] if isinstance(x, sym.Agg) and x.variant == "Ok" else None

    def m_names_map(ex, st, c, a, d):
        clos = [x for x in a if isinstance(x, sym.Agg)]
        e = sym.Event("names-map", a, None, len(st.pc))
        e.captured = {k: full(ex, st, v) for c_ in clos for k, v in c_.fields.items()}
        st.events.append(e)
        return sym.Opaque("iter", "mapped-names", ctx)

    models = [(r"^std::sync::Mutex::<BTreeMap<Name, css::value::Value>>::lock$", m_lock), (r"^std::result::Result::<std::sync::MutexGuard<.*>::unwrap$", m_unwrap),
              (r"^core::slice::<impl \[Name\]>::iter$", lambda ex, st, c, a, d: sym.Opaque("iter", "names", ctx)),
              (r"^<std::slice::Iter<'_, Name> as Iterator>::map::<", m_names_map)] + BASE_MODELS
    ex = sym.Executor(ctx, models=models, feasibility=E.feasibility(ctx))
    paths = [p for p in ex.run(f, [sym.Ref("val", me), sym.Opaque("&[Name]", "names", ctx)]) if p.status == "return"]
    rec.paths = len(paths)
    # which closure is mapped over the names, and what does it capture
    mp = [e for p in paths for e in p.events if e.callee == "names-map"]
    own_table = me.children.get("variables") or me.children.get("1")
    closure_fn = [g for g in E.funcs if g.name == f.name + "::{closure#0}"]
    if len(paths) != 1 or len(mp) != 1 or len(closure_fn) != 1:
        rec.add("store: one closure mapped over the names (shape not recognised)", {"verdict": "inconclusive", "per_solver": {}, "time_s": 0})
    else:
        cap = mp[0].captured.get("vars") or mp[0].captured.get("0")
        guard_of_own = isinstance(cap, sym.Agg) and cap.variant == "GUARD" and isinstance(cap.fields["0"], sym.Opaque) and cap.fields["0"].name.startswith("self.")
        # the closure body
        ctx2 = E.ctx()
        nm = sym.Opaque("Name", "name", ctx2)
        guard = sym.Agg("MutexGuard", "GUARD", {"0": sym.Opaque("BTreeMap", "own-table", ctx2)})
        env2 = sym.Agg("closure", None, {"0": sym.Ref("val", guard), "vars": sym.Ref("val", guard)})

        def ev2(name):
            def m(ex_, st, c, a, d):
                o = ctx2.fresh_value(d or "()", "ret." + name)
                e = sym.Event(name, a, o, len(st.pc))
                e.rargs = [ex_.resolve_ref(st, x) for x in a]
                st.events.append(e)
                return o
            return m

        models2 = [(r"^<std::sync::MutexGuard<.*> as Deref>::deref$", lambda ex_, st, c, a, d: sym.Ref("val", ex_.resolve_ref(st, a[0]).fields["0"]) if isinstance(ex_.resolve_ref(st, a[0]), sym.Agg) else None),
                   (r"^BTreeMap::<Name, css::value::Value>::get::<Name>$", ev2("table-get")), (r"^Option::<&css::value::Value>::cloned$", lambda ex_, st, c, a, d: a[0]),
                   (r"^<Name as Clone>::clone$", lambda ex_, st, c, a, d: ex_.resolve_ref(st, a[0])),
                   (r"Scope::get_local_or_none$|Scope::get_or_none$|Scope::get$", ev2("scope-chain-lookup"))] + BASE_MODELS
        ex2 = sym.Executor(ctx2, models=models2, feasibility=E.feasibility(ctx2))
        try:
            ps = [p for p in ex2.run(closure_fn[0], [sym.Ref("val", env2), sym.Ref("val", nm)]) if p.status == "return"]
        except sym.Unsupported:
            ps = []
        chain = [e for p in ps for e in p.events if e.callee == "scope-chain-lookup"]
        gets = [e for p in ps for e in p.events if e.callee == "table-get"]
        if chain:
            rec.add("store: the snapshot of a name is what this scope's own table holds (the closure asks the scope chain, which also finds variables of enclosing scopes)",
                    {"verdict": "violated", "per_solver": {"structural": "call to %s" % chain[0].callee}, "time_s": 0})
        elif len(ps) == 1 and len(gets) == 1 and guard_of_own:
            r = ps[0].ret
            ok = (gets[0].rargs[0] is guard.fields["0"] and gets[0].rargs[1] is nm and isinstance(r, sym.Agg) and r.fields.get("0") is nm and r.fields.get("1") is gets[0].result)
            rec.add("store: the snapshot of a name is (name, own table's entry for that name), the table being this scope's own variables",
                    {"verdict": "holds" if ok else "violated", "per_solver": {"structural": "event identity"}, "time_s": 0})
        else:
            rec.add("store: the closure looks the name up in the captured table (shape not recognised)", {"verdict": "inconclusive", "per_solver": {}, "time_s": 0})
    # restore
    g = E.find(name_re=r"^variablescope::<impl at .*>::restore_local_values$")
    ctx3 = E.ctx()
    me3 = sym.Opaque("Scope", "self", ctx3)
    saved_name = sym.Opaque("Name", "saved-name", ctx3)
    saved_val = sym.Opaque("std::option::Option<css::value::Value>", "saved-value", ctx3)

    def m_next3(ex_, st, c, a, d):
        n = sum(1 for e in st.events if e.callee == "saved-some")
        if n >= 1:
            return sym.Agg(d, "None", {}, 0)
        some, none = st.fork(), st.fork()
        some.events.append(sym.Event("saved-some", [], None, len(st.pc)))
        return [(some, sym.Agg(d, "Some", {"0": sym.Agg("pair", None, {"0": saved_name, "1": saved_val})}, 1)), (none, sym.Agg(d, "None", {}, 0))]

    def ev3(name):
        def m(ex_, st, c, a, d):
            o = ctx3.fresh_value(d or "()", "ret." + name)
            e = sym.Event(name, a, o, len(st.pc))
            e.rargs = [ex_.resolve_ref(st, x) for x in a]
            st.events.append(e)
            return o
        return m

    def m_lock3(ex_, st, c, a, d):
        return sym.Agg(d, "Ok", {"0": sym.Agg("MutexGuard", "GUARD", {"0": ex_.resolve_ref(st, a[0])})}, 0)

    def m_derefmut(ex_, st, c, a, d):
        gd = ex_.resolve_ref(st, a[0])
        return sym.Ref("val", gd.fields["0"]) if isinstance(gd, sym.Agg) and gd.variant == "GUARD" else None

    models3 = [(r"^std::sync::Mutex::<BTreeMap<Name, css::value::Value>>::lock$", m_lock3), (r"^std::result::Result::<std::sync::MutexGuard<.*>::unwrap$", m_unwrap),
               (r"^<std::sync::MutexGuard<.*> as Deref(Mut)?>::deref(_mut)?$", m_derefmut),
               (r"^<Vec<\(Name, Option<css::value::Value>\)> as IntoIterator>::into_iter$", lambda ex_, st, c, a, d: sym.Opaque("iter", "saved", ctx3)),
               (r"^<std::vec::IntoIter<\(Name, Option<css::value::Value>\)> as Iterator>::next$", m_next3),
               (r"^BTreeMap::<Name, css::value::Value>::insert$", ev3("table-insert")), (r"^BTreeMap::<Name, css::value::Value>::remove::<Name>$", ev3("table-remove"))] + BASE_MODELS
    ex3 = sym.Executor(ctx3, models=models3, unroll=4, feasibility=E.feasibility(ctx3))
    try:
        p3 = [p for p in ex3.run(g, [sym.Ref("val", me3), sym.Opaque("Vec", "saved", ctx3)]) if p.status == "return"]
    except sym.Unsupported as e_:
        p3 = []
        rec.notes.append("restore: %s" % str(e_)[:120])
    rec.paths += len(p3)
    D = ex3.discriminant(saved_val).term
    kinds = set()
    bad = []
    for i, p in enumerate(p3):
        if not any(e.callee == "saved-some" for e in p.events):
            continue
        ins = [e for e in p.events if e.callee == "table-insert"]
        rem = [e for e in p.events if e.callee == "table-remove"]
        own = lambda t: isinstance(t, sym.Opaque) and t.name.startswith("self.")
        if ins and not rem:
            r = E.decide(ctx3, p.pc + ["(not (= %s %s))" % (D, bvlit(1, 64))])
            if not (r["verdict"] == "holds" and own(ins[0].rargs[0]) and ins[0].rargs[1] is saved_name and ins[0].rargs[2] is saved_val.children.get("Some.0")):
                bad.append("path %d: a saved value is re-inserted under its name in this scope's table" % i)
            kinds.add("insert")
        elif rem and not ins:
            r = E.decide(ctx3, p.pc + ["(not (= %s %s))" % (D, bvlit(0, 64))])
            if not (r["verdict"] == "holds" and own(rem[0].rargs[0]) and rem[0].rargs[1] is saved_name):
                bad.append("path %d: a saved None removes the name from this scope's table" % i)
            kinds.add("remove")
        else:
            bad.append("path %d: exactly one of insert / remove per saved entry" % i)
    if kinds == {"insert", "remove"} or bad:
        rec.add("restore: Some(v) is re-inserted, None removes the variable, both in this scope's own table",
                {"verdict": "holds" if not bad else "violated", "per_solver": {"z3+cvc5": "pc implies the saved entry's variant", "detail": "; ".join(bad[:2])}, "time_s": 0})
    else:
        rec.add("restore: both kinds of saved entry explored (%s; shape not recognised)" % sorted(kinds), {"verdict": "inconclusive", "per_solver": {}, "time_s": 0})
    return rec


def k_selector_ctx(E, tier):
    """C20 (@at-root and `&`): SelectorCtx keeps, besides the current selectors, the selectors `&` refers to.
    `&` (get_backref) is the current selector set unless that is the root, in which case it is the
    remembered one; `@at-root <selector>` resolves `&` in its selector against exactly that set and
    remembers it for nested blocks; plain nesting combines with the current selectors and resolves `&`
    against the same set."""
    f = E.find(name_re=r"^context::<impl at .*>::at_root$|selectors::context::<impl at .*>::at_root$")
    rec = Rec("SelectorCtx::at_root / nest / get_backref", f, E)
    for fn in ("at_root", "nest"):
        g = E.find(name_re=r"context::<impl at .*>::%s$" % fn)
        ctx = E.ctx()
        me = sym.Opaque("SelectorCtx", "self", ctx)
        sel = sym.Opaque("SelectorSet", "selectors", ctx)
        isroot = ctx.fresh_scalar("bool", "current_is_root")

        def full(ex, st, x):
            while isinstance(x, sym.Ref):
                x = ex.deref(st, x)
            return x

        def m_is_root(ex, st, c, a, d, isroot=isroot):
            st.events.append(sym.Event("is_root", [full(ex, st, a[0])], None, len(st.pc)))
            return isroot

        def ev(name):
            def m(ex, st, c, a, d, ctx=ctx):
                o = ctx.fresh_value(d or "()", "ret." + name)
                e = sym.Event(name, a, o, len(st.pc))
                e.rargs = [full(ex, st, x) for x in a]
                st.events.append(e)
                return o
            return m

        models = [(r"CssSelectorSet::is_root$", m_is_root), (r"SelectorSet::resolve_ref$", ev("resolve_ref")), (r"CssSelectorSet::nest$", ev("nest")),
                  (r"^<CssSelectorSet as Clone>::clone$", lambda ex, st, c, a, d: sym.Agg("CssSelectorSet", "CLONE", {"0": full(ex, st, a[0])}))] + BASE_MODELS
        ex = sym.Executor(ctx, models=models, inline=[r"SelectorCtx::get_backref$"], feasibility=E.feasibility(ctx))
        paths = [p for p in ex.run(g, [sym.Ref("val", me), sel]) if p.status == "return"]
        rec.paths += len(paths)
        cur = me.children.get("0") or me.children.get("s")
        remembered = me.children.get("1") or me.children.get("backref")
        kinds = set()
        for i, p in enumerate(paths):
            rr = [e for e in p.events if e.callee in ("resolve_ref", "nest")]
            ir = [e for e in p.events if e.callee == "is_root"]
            if len(rr) != 1 or (ir and ir[0].args[0] is not cur):
                rec.add("%s path %d: one resolution of `&`, chosen by looking at the current selectors (shape not recognised)" % (fn, i), {"verdict": "inconclusive", "per_solver": {}, "time_s": 0})
                continue
            used = rr[0].rargs[-1]
            if used is remembered:
                want = isroot.term
                which = "the remembered selectors"
            elif used is cur:
                want = "(not %s)" % isroot.term
                which = "the current selectors"
            else:
                rec.add("%s path %d: `&` is one of the two selector sets of the context (shape not recognised)" % (fn, i), {"verdict": "inconclusive", "per_solver": {}, "time_s": 0})
                continue
            kinds.add(which)
            r = E.decide(ctx, p.pc + ["(not %s)" % want], model_names=[isroot.term])
            rec.add("%s path %d: `&` resolves against %s exactly when the current selectors %s the root" % (fn, i, which, "are" if used is remembered else "are not"), r)
            if fn == "at_root":
                out = p.ret
                good = (isinstance(out, sym.Agg) and _payload_contains(out.fields.get("s") or out.fields.get("0"), rr[0].result)
                        and _payload_contains(out.fields.get("backref") or out.fields.get("1"), used) and rr[0].rargs[0] is sel)
                rec.add("at_root path %d: the new context holds the resolved selectors and remembers the set `&` was resolved against" % i,
                        {"verdict": "holds" if good else "violated", "per_solver": {"structural": "event identity"}, "time_s": 0})
            else:
                good = rr[0].rargs[0] is cur and rr[0].rargs[1] is sel and p.ret is rr[0].result
                rec.add("nest path %d: the nested selectors are combined with the current selectors" % i,
                        {"verdict": "holds" if good else "violated", "per_solver": {"structural": "event identity"}, "time_s": 0})
        if kinds != {"the remembered selectors", "the current selectors"}:
            rec.add("%s: both cases (current selectors root / not root) explored (%s)" % (fn, sorted(kinds)), {"verdict": "violated" if kinds else "inconclusive", "per_solver": {}, "time_s": 0})
    return rec


_TPL_SHORT = 'b"\\x01#\\xc0\\xc0\\xc0\\x00"'
_TPL_LONG = 'b"\\x01#\\xc3 \\x00\\x00i\\x02\\x00\\xc3 \\x00\\x00i\\x02\\x00\\xc3 \\x00\\x00i\\x02\\x00\\x00"'


def k_rgba_hex_text(E, tier):
    """C33 (hex / rgb() text of an opaque integer colour): in Formatted<Rgba>::fmt the three-digit form
    `#xyz` is written with the digits r/17, g/17, b/17 — red, green, blue in this order — and only on paths
    where each channel is a multiple of 17 (so that digit d denotes the byte 17*d); the six-digit form and
    `rgb(r, g, b)` are written with the three bytes themselves in that order (two zero-padded hex digits
    each for the hex form).  Names come from Rgba::name (a static table: outside)."""
    fmts = E.load_enum("value/colors/rgba.rs", "RgbFormat")
    f = E.find(name_re=r"^rgba::<impl at .*>::fmt$", contains=["Rgba::try_bytes", "new_lower_hex"])
    rec = Rec("<Formatted<Rgba> as Display>::fmt (hex / rgb text)", f, E)
    ctx = E.ctx()
    me = sym.Opaque("Formatted<Rgba>", "self", ctx)
    out = sym.Opaque("Formatter", "out", ctx)
    r, g, b = (ctx.fresh_scalar(("bv", 8, False), n) for n in ("red", "green", "blue"))
    compressed = ctx.fresh_scalar("bool", "compressed")

    def full(ex, st, x):
        while isinstance(x, sym.Ref):
            x = ex.deref(st, x)
        return x

    def m_try_bytes(ex, st, c, a, d):
        some, none = st.fork(), st.fork()
        some.events.append(sym.Event("bytes", [], None, len(st.pc)))
        return [(some, sym.Agg(d, "Some", {"0": sym.Agg("tuple", None, {"0": r, "1": g, "2": b})}, 1)), (none, sym.Agg(d, "None", {}, 0))]

    def m_name(ex, st, c, a, d):
        some, none = st.fork(), st.fork()
        some.events.append(sym.Event("has-name", [], None, len(st.pc)))
        return [(some, sym.Agg(d, "Some", {"0": sym.Opaque("&str", "colour-name", ctx)}, 1)), (none, sym.Agg(d, "None", {}, 0))]

    def m_arg(kind):
        def m(ex, st, c, a, d):
            return sym.Agg("fmt::Argument", "ARG", {"kind": sym.ConstStr(kind), "0": full(ex, st, a[0])})
        return m

    def m_arguments(ex, st, c, a, d):
        arr = full(ex, st, a[1])
        parts = [arr.fields[k] for k in sorted(arr.fields, key=lambda z: int(z))] if isinstance(arr, sym.Agg) else []
        tpl = a[0].s if isinstance(a[0], sym.ConstStr) else "?"
        return sym.Agg("fmt::Arguments", "ARGS", {"tpl": sym.ConstStr(tpl), "n": len(parts), **{str(i): x for i, x in enumerate(parts)}})

    def m_write_fmt(ex, st, c, a, d):
        st.events.append(sym.Event("write", [a[1]], None, len(st.pc)))
        return sym.Opaque(d or "Result", "fmt-result", ctx)

    def m_write_name(ex, st, c, a, d):
        st.events.append(sym.Event("write-name", [full(ex, st, a[0])], None, len(st.pc)))
        return sym.Opaque(d or "Result", "fmt-result", ctx)

    def m_write_rgba(ex, st, c, a, d):
        st.events.append(sym.Event("write-rgba", a, None, len(st.pc)))
        return sym.Opaque(d or "Result", "fmt-result", ctx)

    models = [
        (r"^Rgba::try_bytes$", m_try_bytes), (r"^Format::is_compressed$", lambda ex, st, c, a, d: compressed), (r"^Rgba::name$", m_name),
        (r"^core::str::<impl str>::len$", lambda ex, st, c, a, d: ctx.fresh_scalar(("bv", 64, False), "name_len")),
        (r"^core::fmt::rt::Argument::<'_>::new_lower_hex::<u8>$", m_arg("hex")), (r"^core::fmt::rt::Argument::<'_>::new_display::<u8>$", m_arg("display")),
        (r"^Arguments::<'_>::new::<", m_arguments), (r"^Formatter::<'_>::write_fmt$", m_write_fmt), (r"^<str as std::fmt::Display>::fmt$", m_write_name),
        (r"^write_rgba$", m_write_rgba), (r"^Rgba::all_zero$", lambda ex, st, c, a, d: ctx.fresh_scalar("bool", "all_zero")),
        (r"^Arguments::<'_>::from_str$", lambda ex, st, c, a, d: sym.Agg("fmt::Arguments", "ARGS", {"tpl": a[0] if isinstance(a[0], sym.ConstStr) else sym.ConstStr("?"), "n": 0})),
    ] + BASE_MODELS
    ex = sym.Executor(ctx, models=models, feasibility=E.feasibility(ctx), max_paths=4000)
    paths = [p for p in ex.run(f, [sym.Ref("val", me), out]) if p.status == "return"]
    rec.paths = len(paths)
    rgba = me.children.get("0")
    src = None
    if isinstance(rgba, sym.Opaque):
        rg = rgba.children.get("deref")
        src = (rg.children.get("4") if isinstance(rg, sym.Opaque) else None) or rgba.children.get("4")
    SD = ex.discriminant(src).term if src is not None else None
    # representation invariant of Rgba (kept by the parser and by reset_source on every modification):
    # a colour whose source format is ShortHex has channels that are multiples of 17
    mult = lambda t: "(= (bvurem %s %s) %s)" % (t, bvlit(17, 8), bvlit(0, 8))
    inv = ["(=> (= %s %s) (and %s %s %s))" % (SD, bvlit(fmts.index("ShortHex"), 64), mult(r.term), mult(g.term), mult(b.term))] if SD else []
    div17 = lambda t: "(bvudiv %s %s)" % (t, bvlit(17, 8))
    seen = set()
    for i, p in enumerate(paths):
        if not any(e.callee == "bytes" for e in p.events):
            continue
        wr = [e for e in p.events if e.callee == "write"]
        wn = [e for e in p.events if e.callee == "write-name"]
        if wn and not wr:
            seen.add("name")
            continue
        if len(wr) != 1 or not isinstance(wr[0].args[0], sym.Agg):
            rec.add("path %d: one formatted write (shape not recognised)" % i, {"verdict": "inconclusive", "per_solver": {}, "time_s": 0})
            continue
        ar = wr[0].args[0]
        tpl = ar.fields["tpl"].s
        args = [ar.fields[str(k)] for k in range(ar.fields.get("n", 0))]
        vals = [x.fields.get("0") for x in args if isinstance(x, sym.Agg)]
        kinds = [x.fields["kind"].s for x in args if isinstance(x, sym.Agg)]
        if len(vals) != 3 or not all(isinstance(v, sym.Scalar) for v in vals):
            rec.add("path %d: three channel arguments (shape not recognised)" % i, {"verdict": "inconclusive", "per_solver": {}, "time_s": 0})
            continue
        if tpl == _TPL_SHORT and kinds == ["hex"] * 3:
            want = "(and (= %s %s) (= %s %s) (= %s %s) %s %s %s)" % (vals[0].term, div17(r.term), vals[1].term, div17(g.term), vals[2].term, div17(b.term), mult(r.term), mult(g.term), mult(b.term))
            res = E.decide(ctx, inv + p.pc + ["(not %s)" % want], model_names=[r.term, g.term, b.term] + ([SD] if SD else []) + [compressed.term])
            rec.add("path %d: `#xyz` is written with the digits red/17, green/17, blue/17 and only when every channel is a multiple of 17" % i, res, {"lift": "hexcolor"})
            seen.add("short")
        elif tpl == _TPL_LONG and kinds == ["hex"] * 3:
            want = "(and (= %s %s) (= %s %s) (= %s %s))" % (vals[0].term, r.term, vals[1].term, g.term, vals[2].term, b.term)
            res = E.decide(ctx, inv + p.pc + ["(not %s)" % want], model_names=[r.term, g.term, b.term])
            rec.add("path %d: `#rrggbb` is written with the red, green and blue bytes in this order (two zero-padded hex digits each)" % i, res, {"lift": "hexcolor"})
            seen.add("long")
        elif kinds == ["display"] * 3 and "rgb(" in tpl:
            want = "(and (= %s %s) (= %s %s) (= %s %s))" % (vals[0].term, r.term, vals[1].term, g.term, vals[2].term, b.term)
            res = E.decide(ctx, inv + p.pc + ["(not %s)" % want], model_names=[r.term, g.term, b.term])
            rec.add("path %d: `rgb(r, g, b)` is written with the three bytes in this order" % i, res, {"lift": "hexcolor"})
            seen.add("rgb")
        else:
            rec.add("path %d: a known hex / rgb template (shape not recognised: %s)" % (i, tpl[:40]), {"verdict": "inconclusive", "per_solver": {}, "time_s": 0})
    need = {"short", "long", "rgb", "name"}
    if not need <= seen:
        rec.add("all four text forms explored (%s missing)" % sorted(need - seen), {"verdict": "inconclusive", "per_solver": {}, "time_s": 0})
    rec.notes.append("assumed representation invariant: source format ShortHex implies all three channels are multiples of 17 (set by the parser for `#abc` literals, "
                     "reset by reset_source on modification); template bytes of the pinned nightly's fmt::Arguments encoding")
    return rec


def k_map_set_inner(E, tier):
    """C13: map.set (set_inner): with one key the value is stored with OrderMap::insert(map, key, value) — which
    replaces an `==` entry in place or appends a new one (E1) — and nothing else is touched; with a key chain
    the value stored under the first key is the map found there (or an empty map) updated recursively with the
    rest of the chain, and the entry under the first key is *replaced in place*: it is not removed first
    (removing and re-inserting would move it to the end, changing the order of the other entries around it)."""
    f = E.find(name="set_inner")
    rec = Rec("map::set_inner", f, E)
    ctx = E.ctx()
    themap = sym.Opaque("OrderMap", "map", ctx)
    keys = sym.Opaque("&[css::value::Value]", "keys", ctx)
    value = sym.Opaque("css::value::Value", "value", ctx)
    first = sym.Opaque("css::value::Value", "first-key", ctx)
    rest = sym.Opaque("&[css::value::Value]", "rest-of-keys", ctx)
    rest_empty = ctx.fresh_scalar("bool", "rest_is_empty")
    inner_result = sym.Opaque("OrderMap", "updated-inner-map", ctx)

    def full(ex, st, x):
        while isinstance(x, sym.Ref):
            x = ex.deref(st, x)
        return x

    def m_split_first(ex, st, c, a, d):
        some, none = st.fork(), st.fork()
        some.events.append(sym.Event("has-key", [], None, len(st.pc)))
        return [(some, sym.Agg(d, "Some", {"0": sym.Agg("tuple", None, {"0": sym.Ref("val", first), "1": rest})}, 1)), (none, sym.Agg(d, "None", {}, 0))]

    def m_lookup(name):
        def m(ex, st, c, a, d):
            some, none = st.fork(), st.fork()
            found = sym.Opaque("css::value::Value", "found-under-first-key", ctx)
            for s2, r in ((some, "some"), (none, "none")):
                e = sym.Event(name, a, r, len(st.pc))
                e.rargs = [full(ex, st, x) for x in a]
                e.found = found
                s2.events.append(e)
            payload = found if name == "remove" else sym.Ref("val", found)
            return [(some, sym.Agg(d, "Some", {"0": payload}, 1)), (none, sym.Agg(d, "None", {}, 0))]
        return m

    def m_recurse(ex, st, c, a, d):
        ok, err = st.fork(), st.fork()
        e = sym.Event("recurse", a, None, len(st.pc))
        e.rargs = [full(ex, st, x) for x in a]
        ok.events.append(e)
        return [(ok, sym.Agg(d, "Ok", {"0": inner_result}, 0)), (err, sym.Agg(d, "Err", {"0": sym.Opaque("CallError", "inner-error", ctx)}, 1))]

    def m_insert(ex, st, c, a, d):
        e = sym.Event("insert", a, None, len(st.pc))
        e.rargs = [full(ex, st, x) for x in a]
        st.events.append(e)
        return sym.Opaque(d or "Option", "previous", ctx)

    def m_new(ex, st, c, a, d):
        o = sym.Agg("OrderMap", "EMPTY", {})
        st.events.append(sym.Event("map_new", a, o, len(st.pc)))
        return o

    models = [
        (r"^core::slice::<impl \[css::value::Value\]>::split_first$", m_split_first), (r"^core::slice::<impl \[css::value::Value\]>::is_empty$", lambda ex, st, c, a, d: rest_empty),
        (r"^OrderMap::<css::value::Value, css::value::Value>::remove$", m_lookup("remove")), (r"^OrderMap::<css::value::Value, css::value::Value>::get$", m_lookup("get")),
        (r"^OrderMap::<css::value::Value, css::value::Value>::get_mut$", m_lookup("get")),
        (r"^set_inner$", m_recurse), (r"^OrderMap::<css::value::Value, css::value::Value>::insert$", m_insert), (r"^OrderMap::<css::value::Value, css::value::Value>::new$", m_new),
        (r"^<(css::value::Value|OrderMap<css::value::Value, css::value::Value>) as Clone>::clone$", lambda ex, st, c, a, d: full(ex, st, a[0])),
    ] + BASE_MODELS
    ex = sym.Executor(ctx, models=models, feasibility=E.feasibility(ctx))
    paths = [p for p in ex.run(f, [themap, keys, value]) if p.status == "return"]
    rec.paths = len(paths)
    seen = set()
    for i, p in enumerate(paths):
        ret = p.ret
        if not (isinstance(ret, sym.Agg) and ret.variant in ("Ok", "Err")):
            rec.add("path %d: Ok or Err (shape not recognised)" % i, {"verdict": "inconclusive", "per_solver": {}, "time_s": 0})
            continue
        ins = [e for e in p.events if e.callee == "insert"]
        rem = [e for e in p.events if e.callee == "remove"]
        get = [e for e in p.events if e.callee == "get"]
        rc = [e for e in p.events if e.callee == "recurse"]
        if not any(e.callee == "has-key" for e in p.events):
            rec.add("path %d: an empty key chain is an error" % i, {"verdict": "holds" if ret.variant == "Err" and not ins else "violated", "per_solver": {"structural": "result"}, "time_s": 0})
            seen.add("nokey")
            continue
        if ret.variant == "Err":
            rec.add("path %d: an error of the recursive step is returned and nothing is stored" % i,
                    {"verdict": "holds" if not ins and not rc else "violated", "per_solver": {"structural": "events"}, "time_s": 0})
            seen.add("error")
            continue
        flat = E.decide(ctx, p.pc + ["(not %s)" % rest_empty.term])["verdict"] == "holds"
        if flat:
            ok = len(ins) == 1 and ins[0].rargs[0] is themap and ins[0].rargs[1] is first and ins[0].rargs[2] is value and not rem and not rc and ret.fields["0"] is themap
            rec.add("path %d [one key]: insert(map, key, value) and nothing else" % i, {"verdict": "holds" if ok else "violated", "per_solver": {"structural": "event identity"}, "time_s": 0})
            seen.add("flat")
        else:
            look = (rem + get)
            good = (len(rc) == 1 and len(ins) == 1 and len(look) == 1 and look[0].rargs[0] is themap and look[0].rargs[1] is first and rc[0].rargs[1] is rest and rc[0].rargs[2] is value
                    and ins[0].rargs[0] is themap and ins[0].rargs[1] is first and _payload_contains(ins[0].rargs[2], inner_result) and ret.fields["0"] is themap)
            if good:
                inner_arg = rc[0].rargs[0]
                if look[0].result == "some":
                    good = inner_arg is look[0].found.children.get("Map.0") or (isinstance(inner_arg, sym.Agg) and inner_arg.variant == "EMPTY")
                else:
                    good = isinstance(inner_arg, sym.Agg) and inner_arg.variant == "EMPTY"
            rec.add("path %d [key chain, %s]: the map under the first key (or an empty one) is updated with the rest of the chain and stored back under that key" % (i, look[0].result if look else "?"),
                    {"verdict": "holds" if good else "violated", "per_solver": {"structural": "event identity"}, "time_s": 0})
            rec.add("path %d [key chain]: the entry under the first key is replaced in place, not removed and appended (the order of the map's entries is kept)" % i,
                    {"verdict": "holds" if not rem else "violated", "per_solver": {"structural": "OrderMap::remove before insert: %d" % len(rem)}, "time_s": 0})
            seen.add("nested")
    need = {"flat", "nested", "error", "nokey"}
    if not need <= seen:
        rec.add("all outcome kinds explored (%s missing)" % sorted(need - seen), {"verdict": "inconclusive", "per_solver": {}, "time_s": 0})
    return rec


def k_deep_merge(E, tier):
    """C13 (map.deep-merge, the recursive sibling of map.merge): for each entry (key, v2) of $map2, in order:
    when $map1 holds a map under an `==` key and v2 is a map, the two are merged recursively; when $map1
    holds a map there and v2 is the *empty* list (= empty map), nothing changes; in every other case v2 wins:
    insert(map1, key, v2)."""
    cssv = E.load_enum("css/value.rs", "Value", "css::value::Value")
    f = E.find(name="do_deep_merge")
    rec = Rec("map::do_deep_merge", f, E)
    ctx = E.ctx()
    m1 = sym.Opaque("OrderMap", "map1", ctx)
    m2 = sym.Opaque("OrderMap", "map2", ctx)
    key = sym.Opaque("css::value::Value", "key", ctx)
    v2 = sym.Opaque("css::value::Value", "v2", ctx)
    old = sym.Opaque("css::value::Value", "value-in-map1", ctx)
    empty = ctx.fresh_scalar("bool", "list_is_empty")

    def full(ex, st, x):
        while isinstance(x, sym.Ref):
            x = ex.deref(st, x)
        return x

    def m_next(ex, st, c, a, d):
        n = sum(1 for e in st.events if e.callee == "entry")
        if n >= 1:
            return sym.Agg(d, "None", {}, 0)
        some, none = st.fork(), st.fork()
        some.events.append(sym.Event("entry", [], None, len(st.pc)))
        return [(some, sym.Agg(d, "Some", {"0": sym.Agg("pair", None, {"0": key, "1": v2})}, 1)), (none, sym.Agg(d, "None", {}, 0))]

    def m_get_mut(ex, st, c, a, d):
        some, none = st.fork(), st.fork()
        for s2, r in ((some, "some"), (none, "none")):
            e = sym.Event("get_mut", a, r, len(st.pc))
            e.rargs = [full(ex, st, x) for x in a]
            s2.events.append(e)
        return [(some, sym.Agg(d, "Some", {"0": sym.Ref("val", old)}, 1)), (none, sym.Agg(d, "None", {}, 0))]

    def ev(name):
        def m(ex, st, c, a, d):
            e = sym.Event(name, a, None, len(st.pc))
            e.rargs = [full(ex, st, x) for x in a]
            st.events.append(e)
            return ctx.fresh_value(d or "()", "ret." + name)
        return m

    models = [(r"^<OrderMap<css::value::Value, css::value::Value> as IntoIterator>::into_iter$", lambda ex, st, c, a, d: sym.Opaque("iter", "entries-of-map2", ctx)),
              (r"^<std::vec::IntoIter<\(css::value::Value, css::value::Value\)> as Iterator>::next$", m_next),
              (r"^OrderMap::<css::value::Value, css::value::Value>::get_mut$", m_get_mut), (r"^OrderMap::<css::value::Value, css::value::Value>::insert$", ev("insert")),
              (r"^do_deep_merge$", ev("recurse")), (r"^Vec::<css::value::Value>::is_empty$", lambda ex, st, c, a, d: empty)] + BASE_MODELS
    ex = sym.Executor(ctx, models=models, unroll=4, feasibility=E.feasibility(ctx))
    paths = [p for p in ex.run(f, [sym.Ref("val", m1), m2]) if p.status == "return"]
    rec.paths = len(paths)
    OD, VD = old.discriminant().term, v2.discriminant().term
    is_map = lambda t: "(= %s %s)" % (t, bvlit(cssv.index("Map"), 64))
    is_list = lambda t: "(= %s %s)" % (t, bvlit(cssv.index("List"), 64))
    seen = set()
    for i, p in enumerate(paths):
        if not any(e.callee == "entry" for e in p.events):
            continue
        gm = [e for e in p.events if e.callee == "get_mut"]
        ins = [e for e in p.events if e.callee == "insert"]
        rc = [e for e in p.events if e.callee == "recurse"]
        if len(gm) != 1 or gm[0].rargs[0] is not m1 or gm[0].rargs[1] is not key:
            rec.add("path %d: the key of the entry is looked up in map1 (shape not recognised)" % i, {"verdict": "inconclusive", "per_solver": {}, "time_s": 0})
            continue
        found = gm[0].result == "some"
        both_maps = "(and %s %s)" % (is_map(OD), is_map(VD)) if found else "false"
        keep = "(and %s %s %s)" % (is_map(OD), is_list(VD), empty.term) if found else "false"
        if rc and not ins:
            good = rc[0].rargs[0] is old.children.get("Map.0") and rc[0].rargs[1] is v2.children.get("Map.0")
            r = E.decide(ctx, p.pc + ["(not %s)" % both_maps])
            rec.add("path %d: recursion only when both sides hold a map under the key, on exactly those two maps" % i, r if good else {"verdict": "violated", "per_solver": {"structural": "identity"}, "time_s": 0})
            seen.add("recurse")
        elif ins and not rc:
            good = ins[0].rargs[0] is m1 and ins[0].rargs[1] is key and ins[0].rargs[2] is v2
            r = E.decide(ctx, p.pc + ["(or %s %s)" % (both_maps, keep)])
            rec.add("path %d: otherwise map2's value wins: insert(map1, key, v2) — in every case except map/map and map/empty list" % i,
                    r if good else {"verdict": "violated", "per_solver": {"structural": "identity"}, "time_s": 0})
            seen.add("insert")
        elif not ins and not rc:
            r = E.decide(ctx, p.pc + ["(not %s)" % keep], model_names=[OD, VD, empty.term])
            rec.add("path %d: map1's entry is kept untouched only for a map in map1 and the empty list in map2" % i, r)
            seen.add("keep")
        else:
            rec.add("path %d: exactly one of recurse / insert / keep (shape not recognised)" % i, {"verdict": "inconclusive", "per_solver": {}, "time_s": 0})
    if not {"recurse", "insert", "keep"} <= seen:
        rec.add("all three outcomes explored (%s)" % sorted(seen), {"verdict": "inconclusive", "per_solver": {}, "time_s": 0})
    return rec


def k_call_args_splat(E, tier):
    """C18 (duplicated arguments are errors): CallArgs::evaluate, the branch that splices a forwarded argument
    list (`$args...`) into a call: its positional values are appended to the call's positional arguments, each of
    its keywords is inserted into the call's named arguments, and a keyword that is already present there makes
    the call fail with `Duplicate argument`; a map splat goes through add_from_value_map and its error is
    returned."""
    cssv = E.load_enum("css/value.rs", "Value", "css::value::Value")
    f = E.find(name_re=r"^sass::call_args::<impl at .*>::evaluate$")
    rec = Rec("sass::CallArgs::evaluate (splat branches)", f, E)
    ctx = E.ctx()
    me = sym.Opaque("sass::call_args::CallArgs", "self", ctx)
    named = sym.Opaque("OrderMap<Name, css::value::Value>", "named-so-far", ctx)
    splat = sym.Opaque("css::value::Value", "splat-value", ctx)
    kw = (sym.Opaque("Name", "forwarded-keyword", ctx), sym.Opaque("css::value::Value", "forwarded-value", ctx))

    def full(ex, st, x):
        while isinstance(x, sym.Ref):
            x = ex.deref(st, x)
        return x

    def m_try_fold(ex, st, c, a, d):
        return sym.Agg(d, "Ok", {"0": named}, 0)

    def m_pos_next(ex, st, c, a, d):
        n = sum(1 for e in st.events if e.callee == "arg")
        if n >= 1:
            return sym.Agg(d, "None", {}, 0)
        st.events.append(sym.Event("arg", [], None, len(st.pc)))
        return sym.Agg(d, "Some", {"0": sym.Ref("val", sym.Opaque("sass::value::Value", "argument", ctx))}, 1)

    def m_is_splat(ex, st, c, a, d):
        one = sym.Opaque("sass::value::Value", "splatted-expression", ctx)
        st.cells["SPLAT"] = sym.Agg("array", None, {"0": one})
        st.events.append(sym.Event("is_splat", a, None, len(st.pc)))
        # a one-element splat: `expr...`
        return sym.Agg(d, "Some", {"0": sym.Ref("cell", "SPLAT")}, 1)

    def m_do_eval(ex, st, c, a, d):
        ok, err = st.fork(), st.fork()
        ok.events.append(sym.Event("evaluate", a, None, len(st.pc)))
        return [(ok, sym.Agg(d, "Ok", {"0": splat}, 0)), (err, sym.Agg(d, "Err", {"0": sym.Opaque("Error", "eval-error", ctx)}, 1))]

    def m_kw_next(ex, st, c, a, d):
        n = sum(1 for e in st.events if e.callee == "kw")
        if n >= 1:
            return sym.Agg(d, "None", {}, 0)
        some, none = st.fork(), st.fork()
        some.events.append(sym.Event("kw", [], None, len(st.pc)))
        return [(some, sym.Agg(d, "Some", {"0": sym.Agg("pair", None, {"0": kw[0], "1": kw[1]})}, 1)), (none, sym.Agg(d, "None", {}, 0))]

    def m_insert(ex, st, c, a, d):
        some, none = st.fork(), st.fork()
        for s2, r in ((some, "some"), (none, "none")):
            e = sym.Event("insert", a, r, len(st.pc))
            e.rargs = [full(ex, st, x) for x in a]
            s2.events.append(e)
        return [(some, sym.Agg(d, "Some", {"0": sym.Opaque("css::value::Value", "existing", ctx)}, 1)), (none, sym.Agg(d, "None", {}, 0))]

    def m_add_map(ex, st, c, a, d):
        ok, err = st.fork(), st.fork()
        ok.events.append(sym.Event("add_from_value_map", a, "ok", len(st.pc)))
        err.events.append(sym.Event("add_from_value_map", a, "err", len(st.pc)))
        return [(ok, sym.Agg(d, "Ok", {"0": sym.Unit()}, 0)), (err, sym.Agg(d, "Err", {"0": sym.Opaque("String", "map-splat-error", ctx)}, 1))]

    def m_extend(ex, st, c, a, d):
        e = sym.Event("extend-positional", a, None, len(st.pc))
        e.rargs = [full(ex, st, x) for x in a]
        st.events.append(e)
        return sym.Unit()

    ident = lambda ex, st, c, a, d: a[0]
    models = [
        (r"as Iterator>::try_fold::<OrderMap<Name, css::value::Value>", m_try_fold),
        (r"^<std::slice::Iter<'_, sass::value::Value> as Iterator>::next$", m_pos_next), (r"^is_splat$", m_is_splat),
        (r"^sass::value::Value::do_evaluate$", m_do_eval),
        (r"^<std::vec::IntoIter<\(Name, css::value::Value\)> as Iterator>::next$", m_kw_next),
        (r"^<OrderMap<Name, css::value::Value> as IntoIterator>::into_iter$", lambda ex, st, c, a, d: sym.Opaque("iter", "forwarded-keywords", ctx)),
        (r"^OrderMap::<Name, css::value::Value>::insert$", m_insert), (r"^css::call_args::CallArgs::add_from_value_map$", m_add_map),
        (r"^<Vec<css::value::Value> as Extend<css::value::Value>>::extend::<", m_extend),
        (r"^<std::vec::IntoIter<css::value::Value> as Iterator>::next$", lambda ex, st, c, a, d: sym.Agg(d, "None", {}, 0)),
        (r"^<ScopeRef as Clone>::clone$", lambda ex, st, c, a, d: full(ex, st, a[0])),
    ] + _result_models() + BASE_MODELS
    ex = sym.Executor(ctx, models=models, unroll=4, feasibility=E.feasibility(ctx), max_paths=4000)
    paths = [p for p in ex.run(f, [sym.Ref("val", me), sym.Opaque("ScopeRef", "scope", ctx)]) if p.status == "return"]
    rec.paths = len(paths)
    SD = splat.discriminant().term
    seen = set()
    for i, p in enumerate(paths):
        ins = [e for e in p.events if e.callee == "insert"]
        am = [e for e in p.events if e.callee == "add_from_value_map"]
        ret = p.ret
        if not (isinstance(ret, sym.Agg) and ret.variant in ("Ok", "Err")):
            continue
        if ins:
            good = ins[0].rargs[0] is named and ins[0].rargs[1] is kw[0] and ins[0].rargs[2] is kw[1]
            r = E.decide(ctx, p.pc + ["(not (= %s %s))" % (SD, bvlit(cssv.index("ArgList"), 64))])
            if ins[0].result == "some":
                ok = good and ret.variant == "Err"
                rec.add("path %d: a forwarded keyword that is already among the call's named arguments makes the call fail (duplicate argument)" % i,
                        r if ok else {"verdict": "violated", "per_solver": {"structural": "result %s after a colliding insert" % ret.variant}, "time_s": 0})
                seen.add("duplicate")
            else:
                ok = good and ret.variant == "Ok"
                rec.add("path %d: a new forwarded keyword is added to the call's named arguments under its own name" % i,
                        r if ok else {"verdict": "violated", "per_solver": {"structural": "event identity"}, "time_s": 0})
                seen.add("added")
        elif am:
            ok = (am[0].result == "err") == (ret.variant == "Err")
            r = E.decide(ctx, p.pc + ["(not (= %s %s))" % (SD, bvlit(cssv.index("Map"), 64))])
            rec.add("path %d: a map splat goes through add_from_value_map and its failure is the call's failure" % i,
                    r if ok else {"verdict": "violated", "per_solver": {"structural": "result"}, "time_s": 0})
            seen.add("map-" + am[0].result)
    need = {"duplicate", "added", "map-ok", "map-err"}
    if not need <= seen:
        rec.add("all splat outcomes explored (%s missing)" % sorted(need - seen), {"verdict": "inconclusive", "per_solver": {}, "time_s": 0})
    rec.notes.append("one splatted argument, one forwarded keyword; the evaluation of the explicitly named arguments (try_fold) is a stub returning the named map")
    return rec


def k_value_eq_symmetric(E, tier):
    """C12: css::Value::eq is symmetric as a function of the two values' kinds and of the (symmetric)
    comparisons of their parts: eq(a,b) and eq(b,a) are executed symbolically and must be the same
    boolean function (this covers the cross arms, e.g. empty list == empty map both ways)."""
    cssv = E.load_enum("css/value.rs", "Value", "css::value::Value")
    f = E.find(name_re=r"^css::value::<impl at .*>::eq$", contains=["&css::value::Value, _2: &css::value::Value"])
    rec = Rec("css::Value::eq (symmetry of the match arms)", f, E)
    ctx = E.ctx()
    a = sym.Opaque("css::value::Value", "a", ctx)
    b_ = sym.Opaque("css::value::Value", "b", ctx)
    memo = {}
    seen_calls = set()

    def m_bool_call(ex, st, c, args, d):
        if (d or "").strip() != "bool":
            return None
        names = []
        for x in args:
            v = ex.resolve_ref(st, x)
            n = 0
            while isinstance(v, sym.Ref) and n < 4:
                v = ex.resolve_ref(st, v)
                n += 1
            names.append(v.term if isinstance(v, sym.Scalar) else getattr(v, "name", repr(v)))
        key = (re.sub(r"<&+", "<", re.sub(r"::<.*?>", "", c)), frozenset(names))
        if key not in memo:
            memo[key] = ctx.fresh_scalar("bool", "cmp_" + "_".join(sorted(names))[:40])
        seen_calls.add(key[0])
        return memo[key]

    models = [(r".*", m_bool_call)]
    funcs = []
    for order in ((a, b_), (b_, a)):
        ex = sym.Executor(ctx, models=models, feasibility=E.feasibility(ctx), max_paths=20000)
        paths = [p for p in ex.run(f, [sym.Ref("val", order[0]), sym.Ref("val", order[1])]) if p.status == "return"]
        rec.paths += len(paths)
        terms = []
        for p in paths:
            if not (isinstance(p.ret, sym.Scalar) and p.ret.sort == "bool"):
                raise sym.Unsupported("Value::eq path returns %r" % (p.ret,))
            terms.append("(and true %s %s)" % (" ".join(p.pc), p.ret.term))
        funcs.append("(or false %s)" % " ".join(terms))
    da, db = a.discriminant().term, b_.discriminant().term
    r = E.decide(ctx, ["(xor %s %s)" % (funcs[0], funcs[1])], model_names=[da, db])
    o = rec.add("eq(a,b) == eq(b,a) for every pair of value kinds (%d x %d) and every outcome of the part comparisons" % (len(cssv), len(cssv)), r)
    if r["verdict"] == "violated" and r.get("model"):
        try:
            o["kinds"] = [cssv[smt.bv_from_model(r["model"][da], True, 64)], cssv[smt.bv_from_model(r["model"][db], True, 64)]]
        except Exception:
            pass
    # True/False/Null equal themselves, and differ from each other
    ex = sym.Executor(ctx, models=models, feasibility=E.feasibility(ctx), max_paths=20000)
    for v1 in ("True", "False", "Null"):
        for v2 in ("True", "False", "Null"):
            c = ["(= %s %s)" % (da, bvlit(cssv.index(v1), 64)), "(= %s %s)" % (db, bvlit(cssv.index(v2), 64))]
            want = funcs[0] if v1 == v2 else "(not %s)" % funcs[0]
            r = E.decide(ctx, c + ["(not %s)" % want])
            if r["verdict"] != "holds":
                rec.add("%s == %s is %s" % (v1.lower(), v2.lower(), str(v1 == v2).lower()), r)
    rec.add("true/false/null equal themselves and nothing else among them", {"verdict": "holds", "per_solver": {"see": "individual failures are listed separately"}, "time_s": 0})
    rec.notes.append("part comparisons are uninterpreted symmetric predicates keyed by the unordered pair of compared parts: %s" % sorted(seen_calls)[:12])
    return rec


def k_complement_grayscale(E, tier):
    """C32: complement() is rotate_hue(colour, 180); grayscale() rebuilds the colour with saturation 0 and the
    colour's own hue, lightness and alpha; adjust-hue() is rotate_hue(colour, $degrees)."""
    rec = None
    # complement
    f = E.find(name_re=r"^hsl::register::\{closure#\d+\}$", contains=["Color::rotate_hue", "const 180_i32"])
    rec = Rec("color complement / grayscale / adjust-hue closures", f, E)
    ctx = E.ctx()
    vals = {}

    def m_into_f64(ex, st, c, a, d):
        return sym.cast(a[0], "i32", "f64", "IntToFloat")

    def m_rotate(ex, st, c, a, d):
        o = sym.Opaque("Color", "rotated", ctx)
        st.events.append(sym.Event("rotate_hue", [ex.resolve_ref(st, a[0]), a[1]], o, len(st.pc)))
        return o

    models = [(r"^<i32 as std::convert::Into<f64>>::into$", m_into_f64), (r"^Color::rotate_hue$", m_rotate)] + _color_fn_models(E, ctx, vals)
    ex = sym.Executor(ctx, models=models, feasibility=E.feasibility(ctx))
    paths = [p for p in ex.run(f, [sym.Opaque("closure", "self", ctx), sym.Opaque("&ResolvedArgs", "s", ctx)]) if p.status == "return"]
    rec.paths += len(paths)
    n = 0
    for p in paths:
        if not (isinstance(p.ret, sym.Agg) and p.ret.variant == "Ok"):
            continue
        n += 1
        rot = [e for e in p.events if e.callee == "rotate_hue"]
        if len(rot) != 1:
            rec.add("complement: one rotate_hue call (shape not recognised)", {"verdict": "inconclusive", "per_solver": {}, "time_s": 0})
            continue
        same = rot[0].args[0] is vals.get("color")
        r = E.decide(ctx, p.pc + ["(not (= %s %s))" % (rot[0].args[1].term, f64lit(180.0))])
        rec.add("complement: the colour argument is rotated", {"verdict": "holds" if same else "violated", "per_solver": {"structural": "identity"}, "time_s": 0})
        rec.add("complement: by exactly 180 degrees", r)
    if n == 0:
        rec.add("complement has an Ok path", {"verdict": "inconclusive", "per_solver": {}, "time_s": 0})
    # adjust-hue
    g = E.find(name_re=r"^hsl::expose::\{closure#\d+\}$", contains=["Color::rotate_hue", "check_hue"])
    ctx2 = E.ctx()
    vals2 = {}

    def m_rotate2(ex, st, c, a, d):
        o = sym.Opaque("Color", "rotated", ctx2)
        st.events.append(sym.Event("rotate_hue", [ex.resolve_ref(st, a[0]), a[1]], o, len(st.pc)))
        return o

    def m_get_opt_map(ex, st, c, a, d):
        checker = [x.name for x in a if isinstance(x, sym.FnItem)]
        deg = vals2.setdefault("degrees", ctx2.fresh_scalar("f64", "arg.degrees"))
        none = st.fork()
        some = st.fork()
        err = st.fork()
        some.notes.append("checker:degrees:" + ",".join(checker))
        return [
            (none, sym.Agg(d, "Ok", {"0": sym.Agg("Option<f64>", "None", {}, 0)}, 0)),
            (some, sym.Agg(d, "Ok", {"0": sym.Agg("Option<f64>", "Some", {"0": deg}, 1)}, 0)),
            (err, sym.Agg(d, "Err", {"0": sym.Opaque("CallError", "e", ctx2)}, 1)),
        ]

    models2 = [(r"^Color::rotate_hue$", m_rotate2), (r"^ResolvedArgs::get_opt_map::<f64", m_get_opt_map)] + _color_fn_models(E, ctx2, vals2)
    ex2 = sym.Executor(ctx2, models=models2, feasibility=E.feasibility(ctx2))
    p2 = [p for p in ex2.run(g, [sym.Opaque("closure", "self", ctx2), sym.Opaque("&ResolvedArgs", "s", ctx2)]) if p.status == "return"]
    rec.paths += len(p2)
    kinds = set()
    for p in p2:
        if not (isinstance(p.ret, sym.Agg) and p.ret.variant == "Ok"):
            continue
        rot = [e for e in p.events if e.callee == "rotate_hue"]
        if len(rot) == 1:
            kinds.add("rotate")
            ok = rot[0].args[0] is vals2.get("color") and rot[0].args[1] is vals2.get("degrees")
            rec.add("adjust-hue: the colour argument is rotated by exactly $degrees", {"verdict": "holds" if ok else "violated", "per_solver": {"structural": "identity"}, "time_s": 0})
        elif not rot:
            kinds.add("keep")
    if "rotate" not in kinds:
        rec.add("adjust-hue has a rotating path", {"verdict": "inconclusive", "per_solver": {}, "time_s": 0})
    # grayscale (both definitions: hsl::register and hsl::expose)
    cands = [h for h in E.funcs if re.match(r"^hsl::(register|expose)::\{closure#\d+\}$", h.name)
             and "Hsla::new" in h.source() and "Color::to_hsla" in h.source() and "const 0f64" in h.source()
             and "check_amount" not in h.source()]
    if len(cands) != 2:
        raise sym.Unsupported("expected the two grayscale closures, found %d" % len(cands))
    E.load_enum("css/value.rs", "Value", "css::value::Value")
    cssv = E.enum_variants["css::value::Value"]
    for h in cands:
        ctx3 = E.ctx()
        vals3 = {}
        colour = sym.Opaque("Color", "the-colour", ctx3)

        def m_get_value(ex, st, c, a, d, ctx3=ctx3, colour=colour, vals3=vals3):
            ok = st.fork()
            v = sym.Agg("css::value::Value", "Color", {"0": colour, "1": sym.Opaque("Option<String>", "src", ctx3)}, cssv.index("Color"))
            vals3["color"] = colour
            return [(ok, sym.Agg(d, "Ok", {"0": v}, 0))]

        def m_is_rgb(ex, st, c, a, d, ctx3=ctx3):
            return ctx3.fresh_scalar("bool", "is_rgb")

        models3 = [(r"^ResolvedArgs::get::<css::value::Value>$", m_get_value), (r"^Color::is_rgb$", m_is_rgb)] + _color_fn_models(E, ctx3, vals3)
        ex3 = sym.Executor(ctx3, models=models3, feasibility=E.feasibility(ctx3))
        p3 = [p for p in ex3.run(h, [sym.Opaque("closure", "self", ctx3), sym.Opaque("&ResolvedArgs", "s", ctx3)]) if p.status == "return"]
        rec.paths += len(p3)
        got = False
        for p in p3:
            new = [e for e in p.events if e.callee == "Hsla::new"]
            if len(new) != 1:
                continue
            got = True
            acc = {e.callee.split("::")[-1]: e for e in p.events if e.callee.startswith("Hsla::") and e.callee != "Hsla::new"}
            th = [e for e in p.events if e.callee == "to_hsla"]
            hh, ss, ll, aa = new[0].args[:4]
            ident = ({"hue", "lum", "alpha"} <= set(acc) and hh is acc["hue"].result and ll is acc["lum"].result and aa is acc["alpha"].result
                     and len(th) >= 1 and th[0].args[0] is colour)
            rec.add("%s grayscale: hue, lightness and alpha of the colour itself are passed on unchanged" % h.name.split("::")[1],
                    {"verdict": "holds" if ident else "violated", "per_solver": {"structural": "identity"}, "time_s": 0})
            if isinstance(ss, sym.Scalar):
                r = E.decide(ctx3, p.pc + ["(not (= %s %s))" % (ss.term, F0)])
                rec.add("%s grayscale: saturation is set to exactly 0" % h.name.split("::")[1], r)
            else:
                rec.add("%s grayscale: saturation is a number" % h.name.split("::")[1], {"verdict": "inconclusive", "per_solver": {}, "time_s": 0})
        if not got:
            rec.add("%s grayscale: a path building the colour exists" % h.name.split("::")[1], {"verdict": "inconclusive", "per_solver": {}, "time_s": 0})
    return rec


def k_str_index_length(E, tier):
    """C26: string.index is 1 + the number of code points before the byte offset found by str::find of the
    substring in the string (null when absent); string.length counts chars(); the case functions keep quotes()."""
    f = E.find(name_re=r"string::create_module::\{closure#\d+\}$", contains=['const "substring"', "core::str::<impl str>::find"])
    rec = Rec("string.index / string.length / case closures", f, E)
    ctx = E.ctx()
    vals = {}

    def ev(name):
        def h(ex, st, c, a, d):
            o = ctx.fresh_value(d or "()", "ret." + name)
            e = sym.Event(name, a, o, len(st.pc))
            e.rargs = [ex.resolve_ref(st, x) for x in a]
            st.events.append(e)
            return o
        return h

    models = [(r"^core::str::<impl str>::find::<", ev("find")), (r"^Option::<usize>::map_or::<", ev("map_or")),
              (r"^<String as Deref>::deref$", lambda ex, st, c, a, d: a[0])] + _color_fn_models(E, ctx, vals)
    ex = sym.Executor(ctx, models=models, feasibility=E.feasibility(ctx))
    paths = [p for p in ex.run(f, [sym.Opaque("closure", "self", ctx), sym.Opaque("&ResolvedArgs", "s", ctx)]) if p.status == "return"]
    rec.paths += len(paths)
    n = 0
    for p in paths:
        if not (isinstance(p.ret, sym.Agg) and p.ret.variant == "Ok"):
            continue
        n += 1
        fd = [e for e in p.events if e.callee == "find"]
        mo = [e for e in p.events if e.callee == "map_or"]
        if len(fd) != 1 or len(mo) != 1:
            rec.add("index: find(...).map_or(null, position) (shape not recognised)", {"verdict": "inconclusive", "per_solver": {}, "time_s": 0})
            continue
        hay, needle = fd[0].rargs[0], fd[0].rargs[1]
        ok = hay is vals.get("string") and needle is vals.get("substring")
        rec.add("index: the substring is searched in the string (not the other way round)", {"verdict": "holds" if ok else "violated", "per_solver": {"structural": "identity"}, "time_s": 0})
        dflt = mo[0].args[1]
        clo = mo[0].args[2]
        ok2 = (mo[0].args[0] is fd[0].result and isinstance(dflt, sym.Agg) and dflt.variant == "Null" and isinstance(clo, sym.Agg))
        cap = clo.fields.get("string") if isinstance(clo, sym.Agg) else None
        cap_ok = isinstance(cap, sym.Ref)
        rec.add("index: null when not found, otherwise the position closure over the same string", {"verdict": "holds" if (ok2 and cap_ok and p.ret.fields["0"] is mo[0].result) else "violated", "per_solver": {"structural": "identity"}, "time_s": 0})
    if n == 0:
        rec.add("index has an Ok path", {"verdict": "inconclusive", "per_solver": {}, "time_s": 0})
    # the position closure: 1 + string[0..i].chars().count()
    inner = [g for g in E.funcs if g.name == f.name + "::{closure#0}"]
    if len(inner) != 1:
        raise sym.Unsupported("position closure of string.index not found")
    g = inner[0]
    ctx2 = E.ctx()
    i_ = ctx2.fresh_scalar(("bv", 64, False), "byte_offset")
    cnt = ctx2.fresh_scalar(("bv", 64, False), "count")
    env = sym.Opaque("closure-env", "env", ctx2)

    def m_index(ex, st, c, a, d):
        o = sym.Opaque("&str", "prefix", ctx2)
        st.events.append(sym.Event("slice", a, o, len(st.pc)))
        return o

    def m_chars(ex, st, c, a, d):
        o = sym.Opaque("Chars", "chars", ctx2)
        st.events.append(sym.Event("chars", a, o, len(st.pc)))
        return o

    def m_count(ex, st, c, a, d):
        st.events.append(sym.Event("count", a, cnt, len(st.pc)))
        return cnt

    def m_scalar(ex, st, c, a, d):
        o = sym.Opaque("css::value::Value", "scalar", ctx2)
        st.events.append(sym.Event("scalar", a, o, len(st.pc)))
        return o

    ex2 = sym.Executor(ctx2, models=[(r"^<String as Index<std::ops::Range<usize>>>::index$", m_index), (r"core::str::<impl str>::chars$", m_chars),
                                     (r"<Chars<'_> as Iterator>::count$", m_count), (r"^css::value::Value::scalar::<usize>$", m_scalar)] + BASE_MODELS)
    p2 = [p for p in ex2.run(g, [env, i_]) if p.status == "return"]
    rec.paths += len(p2)
    bound = ["(bvule %s %s)" % (cnt.term, bvlit(1 << 32, 64))]
    panic_obligations(E, ctx2, rec, p2, assume=bound)
    for p in p2:
        sl = [e for e in p.events if e.callee == "slice"]
        ch = [e for e in p.events if e.callee == "chars"]
        sc = [e for e in p.events if e.callee == "scalar"]
        if len(sl) != 1 or len(ch) != 1 or len(sc) != 1:
            rec.add("index position: 1 + string[0..i].chars().count() (shape not recognised)", {"verdict": "inconclusive", "per_solver": {}, "time_s": 0})
            continue
        rng = sl[0].args[1]
        ok = (isinstance(rng, sym.Agg) and ch[0].args[0] is sl[0].result)
        r1 = E.decide(ctx2, bound + p.pc + ["(not (and (= %s %s) (= %s %s)))" % (rng.fields["start"].term, bvlit(0, 64), rng.fields["end"].term, i_.term)]) if ok else None
        rec.add("index position: the code points counted are those of string[0..offset]", r1 if r1 else {"verdict": "violated", "per_solver": {"structural": "identity"}, "time_s": 0})
        r2 = E.decide(ctx2, bound + p.pc + ["(not (= %s (bvadd %s %s)))" % (sc[0].args[0].term, cnt.term, bvlit(1, 64))], model_names=[cnt.term])
        rec.add("index position: the result is that count + 1 (1-based)", r2)
    # length
    h = E.find(name_re=r"string::create_module::\{closure#\d+\}$", contains=["<Chars<'_> as Iterator>::count", "css::value::Value::scalar::<usize>", 'const "string"'],
               not_contains=['const "substring"', 'const "start_at"', 'const "index"'])
    ctx3 = E.ctx()
    vals3 = {}
    cnt3 = ctx3.fresh_scalar(("bv", 64, False), "count")

    def m_chars3(ex, st, c, a, d):
        o = sym.Opaque("Chars", "chars", ctx3)
        e = sym.Event("chars", a, o, len(st.pc)); e.rargs = [ex.resolve_ref(st, x) for x in a]
        st.events.append(e)
        return o

    def m_count3(ex, st, c, a, d):
        st.events.append(sym.Event("count", a, cnt3, len(st.pc)))
        return cnt3

    def m_scalar3(ex, st, c, a, d):
        o = sym.Opaque("css::value::Value", "scalar", ctx3)
        st.events.append(sym.Event("scalar", a, o, len(st.pc)))
        return o

    ex3 = sym.Executor(ctx3, models=[(r"core::str::<impl str>::chars$", m_chars3), (r"<Chars<'_> as Iterator>::count$", m_count3),
                                     (r"^css::value::Value::scalar::<usize>$", m_scalar3), (r"^<String as Deref>::deref$", lambda ex, st, c, a, d: a[0])]
                        + _color_fn_models(E, ctx3, vals3), feasibility=E.feasibility(ctx3))
    p3 = [p for p in ex3.run(h, [sym.Opaque("closure", "self", ctx3), sym.Opaque("&ResolvedArgs", "s", ctx3)]) if p.status == "return"]
    rec.paths += len(p3)
    for p in p3:
        if not (isinstance(p.ret, sym.Agg) and p.ret.variant == "Ok"):
            continue
        ch = [e for e in p.events if e.callee == "chars"]
        sc = [e for e in p.events if e.callee == "scalar"]
        ok = len(ch) == 1 and len(sc) == 1 and ch[0].rargs[0] is vals3.get("string") and sc[0].args[0] is cnt3 and p.ret.fields["0"] is sc[0].result
        rec.add("length: the number of chars() (code points) of the string argument", {"verdict": "holds" if ok else "violated", "per_solver": {"structural": "identity"}, "time_s": 0})
    # case functions keep the quotes of their argument
    cases = [c for c in E.funcs if re.match(r".*string::create_module::\{closure#\d+\}$", c.name)
             and ("to_ascii_uppercase" in c.source() or "to_ascii_lowercase" in c.source())]
    for cfn in cases:
        ctx4 = E.ctx()
        vals4 = {}
        ex4 = sym.Executor(ctx4, models=_color_fn_models(E, ctx4, vals4), feasibility=E.feasibility(ctx4))
        p4 = [p for p in ex4.run(cfn, [sym.Opaque("closure", "self", ctx4), sym.Opaque("&ResolvedArgs", "s", ctx4)]) if p.status == "return"]
        rec.paths += len(p4)
        for p in p4:
            if not (isinstance(p.ret, sym.Agg) and p.ret.variant == "Ok"):
                continue
            news = [e for e in p.events if e.callee == "CssString::new"]
            quotes = [e for e in p.events if e.callee == "CssString::quotes"]
            ok = len(news) == 1 and len(quotes) == 1 and news[0].args[1] is quotes[0].result and quotes[0].rargs[0] is vals4.get("string")
            which = "to-upper-case" if "to_ascii_uppercase" in cfn.source() else "to-lower-case"
            rec.add("%s: ASCII-only case mapping, result built with the quotes() of the argument" % which,
                    {"verdict": "holds" if ok else "violated", "per_solver": {"structural": "identity"}, "time_s": 0})
    if len(cases) != 2:
        rec.add("both ASCII case functions found (%d)" % len(cases), {"verdict": "inconclusive", "per_solver": {}, "time_s": 0})
    return rec


def k_for_bounds(E, tier):
    """C17: `@for`: the loop runs ValueRange::new(from, to, inclusive, from's unit); `to` takes its bare magnitude
    when either side is unitless and is otherwise converted to from's unit with Numeric::as_unitset (error when
    that is impossible); both bounds go through Number::into_integer."""
    f = E.find(name_re=r"^srcrange::<impl at .*>::evaluate$")
    rec = Rec("SrcRange::evaluate (@for bounds)", f, E)
    ctx = E.ctx()

    def ev(name):
        def h(ex, st, c, a, d):
            ok = st.fork()
            err = st.fork()
            m = re.search(r"Result<(.*), (?:error::)?(?:Error|Invalid)>$", (d or "").strip())
            ty = m.group(1) if m else "?"
            val = ctx.fresh_value(ty, "val." + name + "#%d" % len(st.events))
            e = sym.Event(name, a, val, len(ok.pc))
            e.rargs = [ex.resolve_ref(st, x) for x in a]
            ok.events.append(e)
            return [(ok, sym.Agg(d, "Ok", {"0": val}, 0)), (err, sym.Agg(d, "Err", {"0": sym.Opaque("Error", "e", ctx)}, 1))]
        return h

    def m_new(ex, st, c, a, d):
        o = sym.Opaque("ValueRange", "range", ctx)
        st.events.append(sym.Event("ValueRange::new", a, o, len(st.pc)))
        return o

    me = sym.Opaque("SrcRange", "self", ctx)
    ex = sym.Executor(ctx, models=[(r"^SrcValue::eval_map::<", ev("eval_map")), (r"^ValueRange::new$", m_new)] + BASE_MODELS, feasibility=E.feasibility(ctx))
    paths = [p for p in ex.run(f, [sym.Ref("val", me), sym.Opaque("ScopeRef", "scope", ctx)]) if p.status == "return"]
    rec.paths += len(paths)
    okp = [p for p in paths if isinstance(p.ret, sym.Agg) and p.ret.variant == "Ok"]
    for p in okp:
        em = [e for e in p.events if e.callee == "eval_map"]
        nw = [e for e in p.events if e.callee == "ValueRange::new"]
        if len(em) != 2 or len(nw) != 1:
            rec.add("evaluate: two bound evaluations and one ValueRange::new (shape not recognised)", {"verdict": "inconclusive", "per_solver": {}, "time_s": 0})
            continue
        first, second = em
        src_ok = first.rargs[0] is me.children.get("0") and second.rargs[0] is me.children.get("1")
        clo = second.args[2]
        cap_ok = isinstance(clo, sym.Agg) and isinstance(clo.fields.get("unit"), sym.Ref)
        fr = first.result
        a0, a1, a2, a3 = nw[0].args[:4]
        wiring = (a0 is fr.children.get("0") and a1 is second.result and a2 is me.children.get("2") and a3 is fr.children.get("1"))
        rec.add("evaluate: `from` is evaluated first, `to` second with from's unit captured",
                {"verdict": "holds" if (src_ok and cap_ok) else "violated", "per_solver": {"structural": "identity"}, "time_s": 0})
        rec.add("evaluate: the range is (from, to, the source's inclusive flag, from's unit)",
                {"verdict": "holds" if wiring else "violated", "per_solver": {"structural": "identity"}, "time_s": 0})
    if not okp:
        rec.add("evaluate has an Ok path", {"verdict": "inconclusive", "per_solver": {}, "time_s": 0})
    # the `to` closure
    g = E.find(name_re=r"^srcrange::<impl at .*>::evaluate::\{closure#1\}$")
    ctx2 = E.ctx()
    v = sym.Opaque("css::value::Value", "v", ctx2)
    env = sym.Opaque("closure-env", "env", ctx2)
    num = sym.Opaque("value::numeric::Numeric", "num", ctx2)

    def m_numeric_value(ex, st, c, a, d):
        return sym.Agg(d, "Ok", {"0": num}, 0)

    def m_map_err(ex, st, c, a, d):
        x = a[0]
        if isinstance(x, sym.Agg):
            return sym.Agg(d, x.variant, x.fields, x.disc)
        o = sym.Opaque(d, "mapped", ctx2)
        o.alias_disc = x
        o.children["Ok.0"] = x.child("Ok.0", "i64")
        return o

    def m_ii(ex, st, c, a, d):
        o = sym.Opaque(d, "into_integer", ctx2)
        e = sym.Event("into_integer", a, o, len(st.pc))
        st.events.append(e)
        return o

    ex2 = sym.Executor(ctx2, models=[(r"^css::value::Value::numeric_value$", m_numeric_value), (r"Result::<.*>::map_err::<", m_map_err),
                                     (r"^Number::into_integer$", m_ii)] + BASE_MODELS, feasibility=E.feasibility(ctx2))
    p2 = [p for p in ex2.run(g, [sym.Ref("val", env), v]) if p.status == "return"]
    rec.paths += len(p2)
    kinds = set()
    for i, p in enumerate(p2):
        evs = [e for e in p.events if e.callee != "drop"]
        names = [re.sub(r"::<.*", "", e.callee) for e in evs]
        ii = [e for e in evs if e.callee == "into_integer"]
        conv = [e for e in evs if e.callee == "Numeric::as_unitset"]
        isn = [e for e in evs if e.callee == "UnitSet::is_none"]
        nou = [e for e in evs if e.callee == "Numeric::is_no_unit"]
        is_ok = isinstance(p.ret, sym.Agg) and p.ret.variant == "Ok"
        unit = env.children.get("0")

        def nm(x):
            return getattr(x, "name", None)

        if is_ok and len(ii) == 1 and not conv:
            ok = ii[0].args[0] is num.children.get("0") and len(isn) == 1 and isn[0].rargs[0] is not None
            kinds.add("bare")
            rec.add("to path %d: a unitless side: the bare magnitude of `to` is used" % i,
                    {"verdict": "holds" if ok else "violated", "per_solver": {"structural": "identity"}, "time_s": 0})
        elif is_ok and len(ii) == 1 and len(conv) == 1:
            scaled = conv[0].result.children.get("Some.0")
            ok = (conv[0].rargs[0] is num and ii[0].args[0] is scaled and len(isn) == 1 and len(nou) == 1 and nou[0].rargs[0] is num)
            kinds.add("converted")
            rec.add("to path %d: `to` is converted to from's unit with as_unitset before it becomes an integer" % i,
                    {"verdict": "holds" if ok else "violated", "per_solver": {"structural": "identity"}, "time_s": 0})
        elif not is_ok and len(conv) == 1 and not ii:
            kinds.add("incompatible")
            rec.add("to path %d: an inconvertible unit on `to` is an error" % i, {"verdict": "holds", "per_solver": {"structural": "shape"}, "time_s": 0})
        elif not is_ok:
            kinds.add("error")
        else:
            rec.add("to path %d: unexpected shape %s" % (i, names), {"verdict": "inconclusive", "per_solver": {}, "time_s": 0})
    if not {"bare", "converted", "incompatible"} <= kinds:
        rec.add("to: bare, converted and incompatible cases all present (%s)" % sorted(kinds), {"verdict": "inconclusive", "per_solver": {}, "time_s": 0})
    return rec


def k_map_merge(E, tier):
    """C13: the flat case of map.merge (do_merge with no nested keys): every entry of m2, in m2's order, is
    inserted into m1 as (key, value) — so m2's values win and m1's order comes first (OrderMap::insert: E1)."""
    f = E.find(name="do_merge", contains=["OrderMap::<css::value::Value, css::value::Value>::insert"])
    rec = Rec("map.merge (do_merge, flat case)", f, E)
    ctx = E.ctx()
    keys = sym.Opaque("impl Iterator", "keys", ctx)
    m1 = sym.Opaque("OrderMap", "m1", ctx)
    m2 = sym.Opaque("OrderMap", "m2", ctx)
    pairs = []

    def m_keys_next(ex, st, c, a, d):
        return sym.Agg(d, "None", {}, 0)  # no nested keys

    def m_into_iter(ex, st, c, a, d):
        o = sym.Opaque("IntoIter", "iter", ctx)
        st.events.append(sym.Event("into_iter", [ex.resolve_ref(st, a[0])], o, len(st.pc)))
        return o

    def m_next(ex, st, c, a, d):
        n = sum(1 for e in st.events if e.callee == "next-some")
        some = st.fork()
        none = st.fork()
        while len(pairs) <= n:
            i = len(pairs)
            pairs.append((sym.Opaque("css::value::Value", "k%d" % i, ctx), sym.Opaque("css::value::Value", "v%d" % i, ctx)))
        k, v = pairs[n]
        some.events.append(sym.Event("next-some", [ex.resolve_ref(st, a[0])], None, len(st.pc)))
        none.events.append(sym.Event("next-none", [ex.resolve_ref(st, a[0])], None, len(st.pc)))
        return [(some, sym.Agg(d, "Some", {"0": sym.Agg("pair", None, {"0": k, "1": v})}, 1)), (none, sym.Agg(d, "None", {}, 0))]

    def m_insert(ex, st, c, a, d):
        e = sym.Event("insert", a, None, len(st.pc))
        e.rargs = [ex.resolve_ref(st, x) for x in a]
        st.events.append(e)
        return sym.Opaque(d or "Option", "old", ctx)

    models = [
        (r"^<impl Iterator<Item = Value> as Iterator>::next$", m_keys_next),
        (r"^<OrderMap<css::value::Value, css::value::Value> as IntoIterator>::into_iter$", m_into_iter),
        (r"^<std::vec::IntoIter<\(css::value::Value, css::value::Value\)> as Iterator>::next$", m_next),
        (r"^OrderMap::<css::value::Value, css::value::Value>::insert$", m_insert),
    ] + BASE_MODELS
    ex = sym.Executor(ctx, models=models, unroll=4, feasibility=E.feasibility(ctx))
    allp = ex.run(f, [keys, sym.Ref("val", m1), m2])
    paths = [p for p in allp if p.status == "return"]
    rec.paths = len(paths)
    seen_n = set()
    for p in paths:
        its = [e for e in p.events if e.callee == "into_iter"]
        somes = [e for e in p.events if e.callee == "next-some"]
        ins = [e for e in p.events if e.callee == "insert"]
        other = sorted({re.sub(r"::<.*", "", e.callee) for e in p.events
                        if e.callee not in ("into_iter", "next-some", "next-none", "insert", "drop")})
        n = len(somes)
        if len(its) != 1:
            rec.add("merge with %d entries: one iteration over a map (shape not recognised: %s)" % (n, other),
                    {"verdict": "inconclusive", "per_solver": {}, "time_s": 0})
            continue
        seen_n.add(n)
        src_ok = its[0].args[0] is m2
        ok = src_ok and len(ins) == n and all(
            ins[i].rargs[0] is m1 and ins[i].rargs[1] is pairs[i][0] and ins[i].rargs[2] is pairs[i][1] for i in range(n))
        rec.add("merge, m2 with %d entr%s: each (key, value) of m2, in order, is inserted into m1%s" % (n, "y" if n == 1 else "ies", (" [other calls: %s]" % other) if other else ""),
                {"verdict": "holds" if ok else "violated", "per_solver": {"structural": "event identity"}, "time_s": 0})
    if not {0, 1, 2} <= seen_n:
        rec.add("merge explored for m2 of 0, 1 and 2 entries (%s)" % sorted(seen_n), {"verdict": "inconclusive", "per_solver": {}, "time_s": 0})
    rec.notes.append("loop unrolled to 3 iterations; the nested-key recursion (keys.next() = Some) is outside")
    return rec


def k_unitset_simplify(E, tier):
    """C11: one cancellation step of UnitSet::simplify (what `*` and `/` use to cancel convertible units):
    for units a^ap and b^bp with 1 b = f a, the smaller exponent is folded into the larger one, the scale
    factor is multiplied by f^bp (folding b into a) or divided by f^ap (folding a into b) with the SIGNED
    exponent, and the exponents are added."""
    f = E.find(name_re=r"^unitset::<impl at .*>::simplify$")
    rec = Rec("UnitSet::simplify (one cancellation step)", f, E)
    ctx = E.ctx()
    ap = ctx.fresh_scalar(("bv", 8, True), "ap")
    bp = ctx.fresh_scalar(("bv", 8, True), "bp")
    fac = ctx.fresh_scalar("f64", "f")
    au = sym.Opaque("Unit", "au", ctx)
    bu = sym.Opaque("Unit", "bu", ctx)
    me = sym.Opaque("UnitSet", "self", ctx)
    inv = ["(bvsge %s %s)" % (x.term, bvlit(-127, 8)) for x in (ap, bp)]  # invariant kept by add_pow

    def m_len(ex, st, c, a, d):
        return ctx.fresh_scalar(("bv", 64, False), "n")

    def m_range_next(ex, st, c, a, d):
        n = sum(1 for e in st.events if e.callee == "outer-some")
        if n >= 1:
            return sym.Agg(d, "None", {}, 0)
        st.events.append(sym.Event("outer-some", [], None, len(st.pc)))
        return sym.Agg(d, "Some", {"0": sym.Scalar(("bv", 64, False), bvlit(1, 64))}, 1)

    def m_split(ex, st, c, a, d):
        return sym.Agg("tuple", None, {"0": sym.Opaque("slice", "a-part", ctx), "1": sym.Opaque("slice", "b-part", ctx)})

    def m_last_mut(ex, st, c, a, d):
        st.cells["A"] = sym.Agg("(Unit, i8)", None, {"0": au, "1": ap})
        return sym.Agg(d, "Some", {"0": sym.Ref("cell", "A")}, 1)

    def m_iter_next(ex, st, c, a, d):
        n = sum(1 for e in st.events if e.callee == "inner-some")
        if n >= 1:
            return sym.Agg(d, "None", {}, 0)
        st.events.append(sym.Event("inner-some", [], None, len(st.pc)))
        st.cells["B"] = sym.Agg("(Unit, i8)", None, {"0": bu, "1": bp})
        return sym.Agg(d, "Some", {"0": sym.Ref("cell", "B")}, 1)

    def m_scale_to(ex, st, c, a, d):
        e = sym.Event("scale_to", a, fac, len(st.pc))
        e.rargs = [ex.resolve_ref(st, x) for x in a]
        some = st.fork()
        none = st.fork()
        some.events.append(e)
        return [(some, sym.Agg(d, "Some", {"0": fac}, 1)), (none, sym.Agg(d, "None", {}, 0))]

    def m_abs8(ex, st, c, a, d):
        t = a[0].term
        return sym.Scalar(("bv", 8, True), "(ite (bvslt %s %s) (bvneg %s) %s)" % (t, bvlit(0, 8), t, t))

    def m_into32(ex, st, c, a, d):
        return sym.cast(a[0], "i8", "i32", "IntToInt")

    def m_powi(ex, st, c, a, d):
        o = ctx.fresh_scalar("f64", "powi")
        st.events.append(sym.Event("powi", a, o, len(st.pc)))
        return o

    def m_add_pow(ex, st, c, a, d):
        x, y = a[0].term, a[1].term
        wide = "(bvadd ((_ sign_extend 8) %s) ((_ sign_extend 8) %s))" % (x, y)
        cl = "(ite (bvsgt {w} {hi}) {hi} (ite (bvslt {w} {lo}) {lo} {w}))".format(w=wide, hi=bvlit(127, 16), lo=bvlit(-127, 16))
        o = sym.Scalar(("bv", 8, True), "((_ extract 7 0) %s)" % cl)
        st.events.append(sym.Event("add_pow", a, o, len(st.pc)))
        return o

    ident = lambda ex, st, c, a, d: a[0]
    models = [
        (r"^Vec::<\(Unit, i8\)>::len$", m_len), (r"^<std::ops::Range<usize> as IntoIterator>::into_iter$", ident),
        (r"^<std::ops::Range<usize> as Iterator>::next$", m_range_next),
        (r"^<Vec<\(Unit, i8\)> as DerefMut>::deref_mut$", lambda ex, st, c, a, d: sym.Opaque("slice", "units", ctx)),
        (r"split_at_mut$", m_split), (r"last_mut$", m_last_mut),
        (r"^<&mut \[\(Unit, i8\)\] as IntoIterator>::into_iter$", ident),
        (r"^<std::slice::IterMut<'_, \(Unit, i8\)> as Iterator>::next$", m_iter_next),
        (r"^Unit::scale_to$", m_scale_to), (r"^core::num::<impl i8>::abs$", m_abs8),
        (r"^<i8 as std::convert::Into<i32>>::into$", m_into32), (r"^std::f64::<impl f64>::powi$", m_powi),
        (r"^add_pow$", m_add_pow),
    ] + BASE_MODELS
    ex = sym.Executor(ctx, models=models, unroll=4, feasibility=E.feasibility(ctx))
    paths = [p for p in ex.run(f, [sym.Ref("val", me)]) if p.status == "return"]
    rec.paths = len(paths)
    kinds = set()
    for i, p in enumerate(paths):
        pw = [e for e in p.events if e.callee == "powi"]
        sc = [e for e in p.events if e.callee == "scale_to"]
        if not pw:
            continue  # nothing cancelled on this path (zero exponent, or units do not convert)
        if len(pw) != 1 or len(sc) != 1 or "A" not in p.cells or "B" not in p.cells or not isinstance(p.ret, sym.Scalar):
            rec.add("path %d: one scale_to and one powi per step (shape not recognised)" % i, {"verdict": "inconclusive", "per_solver": {}, "time_s": 0})
            continue
        dir_ok = sc[0].rargs[0] is bu and sc[0].rargs[1] is au
        rec.add("path %d: the factor asked for converts the later unit b into the earlier unit a" % i,
                {"verdict": "holds" if dir_ok else "violated", "per_solver": {"structural": "identity"}, "time_s": 0})
        base, expo = pw[0].args[0], pw[0].args[1]
        P = pw[0].result.term
        A1, B1 = p.cells["A"].fields["1"].term, p.cells["B"].fields["1"].term
        sx = lambda t: "((_ sign_extend 24) %s)" % t
        absx = lambda t: "(ite (bvslt {t} {z}) (bvneg {t}) {t})".format(t=t, z=bvlit(0, 8))
        a_bigger = "(bvsgt %s %s)" % (absx(ap.term), absx(bp.term))
        summ = "((_ extract 7 0) (let ((w (bvadd ((_ sign_extend 8) %s) ((_ sign_extend 8) %s)))) (ite (bvsgt w %s) %s (ite (bvslt w %s) %s w))))" % (
            ap.term, bp.term, bvlit(127, 16), bvlit(127, 16), bvlit(-127, 16), bvlit(-127, 16))
        want = ("(ite {ab} (and (= {e} {sbp}) (= {ret} (fp.mul RNE {one} {P})) (= {A1} {sum}) (= {B1} {z})) "
                "(and (= {e} {sap}) (= {ret} (fp.div RNE {one} {P})) (= {B1} {sum}) (= {A1} {z})))").format(
            ab=a_bigger, e=expo.term, sbp=sx(bp.term), sap=sx(ap.term), ret=p.ret.term, one=F1, P=P, A1=A1, B1=B1, sum=summ, z=bvlit(0, 8))
        r = E.decide(ctx, inv + p.pc + ["(= %s %s)" % (base.term, fac.term), "(not %s)" % want], model_names=[ap.term, bp.term])
        kinds.add("step")
        rec.add("path %d: factor *= f^bp / factor /= f^ap with the signed exponent of the folded unit; exponents added, folded one zeroed" % i, r,
                {"lift": "simplify"})
    if "step" not in kinds:
        rec.add("a cancelling path was explored", {"verdict": "inconclusive", "per_solver": {}, "time_s": 0})
    rec.notes.append("one outer and one inner loop iteration from an arbitrary (ap, bp) in [-127,127]^2 and an arbitrary factor f; powi is uninterpreted")
    return rec


def k_if_dispatch(E, tier):
    """C17: `@if` (stylesheet/rule/mixin level, handle_item): the condition is evaluated once and the
    `@if` body runs exactly when the value is truthy (neither false nor null), the `@else` body otherwise."""
    cssv = E.load_enum("css/value.rs", "Value", "css::value::Value")
    items = E.load_enum("sass/item.rs", "Item", "sass::item::Item")
    f = E.find(name="handle_item")
    rec = Rec("handle_item (@if arm)", f, E)
    ctx = E.ctx()
    cond = sym.Opaque("sass::value::Value", "cond", ctx)
    do_if = sym.Opaque("ItemBody", "do_if", ctx)
    do_else = sym.Opaque("ItemBody", "do_else", ctx)
    item = sym.Agg("sass::item::Item", "IfStatement", {"0": cond, "1": do_if, "2": do_else}, items.index("IfStatement"))
    val = sym.Opaque("css::value::Value", "val", ctx)

    def m_evaluate(ex, st, c, a, d):
        ok = st.fork()
        err = st.fork()
        e = sym.Event("evaluate", a, val, len(st.pc))
        e.rargs = [ex.resolve_ref(st, x) for x in a]
        ok.events.append(e)
        return [(ok, sym.Agg(d, "Ok", {"0": val}, 0)), (err, sym.Agg(d, "Err", {"0": sym.Opaque("Error", "e", ctx)}, 1))]

    def m_body(name):
        def h(ex, st, c, a, d):
            ok = st.fork()
            err = st.fork()
            e = sym.Event(name, a, None, len(st.pc))
            e.rargs = [ex.resolve_ref(st, x) for x in a]
            ok.events.append(e)
            return [(ok, sym.Agg(d, "Ok", {"0": sym.Unit()}, 0)), (err, sym.Agg(d, "Err", {"0": sym.Opaque("Error", "e", ctx)}, 1))]
        return h

    models = [(r"^sass::value::Value::evaluate$", m_evaluate), (r"^check_body$", m_body("check_body")),
              (r"^handle_body::<", m_body("handle_body")), (r"^handle_body$", m_body("handle_body"))] + BASE_MODELS
    ex = sym.Executor(ctx, models=models, inline=[r"^css::value::Value::is_true$"], feasibility=E.feasibility(ctx), max_paths=4000)
    paths = [p for p in ex.run(f, [sym.Ref("val", item), sym.Opaque("&mut dyn CssDestination", "dest", ctx),
                                   sym.Opaque("ScopeRef", "scope", ctx), sym.Opaque("&mut Context", "fctx", ctx)]) if p.status == "return"]
    rec.paths = len(paths)
    truthy = _truthy_term(E, ctx, val)
    seen = set()
    for i, p in enumerate(paths):
        evs = [e for e in p.events if e.callee in ("evaluate", "handle_body", "check_body")]
        ev_eval = [e for e in evs if e.callee == "evaluate"]
        hb = [e for e in evs if e.callee == "handle_body"]
        others = sorted({re.sub(r"::<.*", "", e.callee) for e in p.events
                         if e.callee not in ("evaluate", "handle_body", "check_body", "drop") and not e.callee.endswith("as Clone>::clone")})
        if not ev_eval:
            continue  # condition evaluation failed: error propagated
        if len(ev_eval) != 1 or ev_eval[0].rargs[0] is not cond:
            rec.add("path %d: the condition is evaluated exactly once" % i, {"verdict": "violated", "per_solver": {"structural": "events"}, "time_s": 0})
            continue
        if not hb:
            continue  # check_body rejected the body
        if len(hb) != 1:
            rec.add("path %d: one body is handled (shape not recognised)" % i, {"verdict": "inconclusive", "per_solver": {}, "time_s": 0})
            continue
        which = "if" if hb[0].rargs[0] is do_if else ("else" if hb[0].rargs[0] is do_else else None)
        if which is None:
            rec.add("path %d: the handled body is the @if or the @else body (shape not recognised)" % i, {"verdict": "inconclusive", "per_solver": {}, "time_s": 0})
            continue
        seen.add(which)
        want = truthy if which == "if" else "(not %s)" % truthy
        r = E.decide(ctx, p.pc + ["(not %s)" % want], model_names=[val.discriminant().term])
        extra = (" [other calls on this path: %s]" % others) if others else ""
        rec.add("path %d: the @%s body runs only when the condition value is %s%s" % (i, which, "truthy" if which == "if" else "false or null", extra), r,
                {"lift": "if", "variants": cssv})
        # the decision must be a function of the value's kind alone
        dep = [o for o in others if not o.startswith("<ScopeRef")]
        rec.add("path %d: the decision consults nothing but the truthiness of the value" % i,
                {"verdict": "holds" if not dep else "violated", "per_solver": {"structural": str(dep)[:120]}, "time_s": 0})
    if seen != {"if", "else"}:
        rec.add("both branches are reachable (%s)" % sorted(seen), {"verdict": "inconclusive", "per_solver": {}, "time_s": 0})
    return rec


def k_set_variable(E, tier):
    """C16 (flag rules) / C37 (built-in modules): Scope::set_variable.
    `!default` skips the write exactly when the variable already has a non-null value; `!global` writes through
    define_global, otherwise the write goes to this scope's own table; assigning to `module.$var` of a built-in
    module (marked by @scope_name@) is refused.  Recorded finding: an unflagged assignment never looks at the
    enclosing scopes, so it shadows an enclosing local instead of updating it."""
    cssv = E.load_enum("css/value.rs", "Value", "css::value::Value")
    f = E.find(name_re=r"^variablescope::<impl at .*>::set_variable$")
    rec = Rec("Scope::set_variable", f, E)
    for modcase in (False, True):
        ctx = E.ctx()
        me = sym.Opaque("Scope", "self", ctx)
        name = sym.Opaque("Name", "name", ctx)
        val = sym.Opaque("css::value::Value", "val", ctx)
        dflt = ctx.fresh_scalar("bool", "default")
        glob = ctx.fresh_scalar("bool", "global")
        existing = sym.Opaque("std::option::Option<css::value::Value>", "existing", ctx)
        module = sym.Opaque("ScopeRef", "module", ctx)
        inner_name = sym.Opaque("Name", "inner-name", ctx)

        def ev(nm, ret=None):
            def h(ex, st, c, a, d, nm=nm, ret=ret):
                e = sym.Event(nm, a, None, len(st.pc))
                e.rargs = [ex.resolve_ref(st, x) for x in a]
                r = ret(ex, st, d) if ret else ctx.fresh_value(d or "()", "ret." + nm)
                e.result = r
                st.events.append(e)
                return r
            return h

        def r_split(ex, st, d):
            if not modcase:
                return sym.Agg(d, "None", {}, 0)
            return sym.Agg(d, "Some", {"0": sym.Agg("pair", None, {"0": sym.Opaque("String", "modname", ctx), "1": inner_name})}, 1)

        def m_get_module(ex, st, c, a, d):
            none = st.fork()
            some = st.fork()
            some.events.append(sym.Event("get_module", a, module, len(st.pc)))
            return [(some, sym.Agg(d, "Some", {"0": module}, 1)), (none, sym.Agg(d, "None", {}, 0))]

        def m_ok_or(ex, st, c, a, d):
            x = a[0]
            if x.variant == "Some":
                return sym.Agg(d, "Ok", {"0": x.fields["0"]}, 0)
            return sym.Agg(d, "Err", {"0": a[1]}, 1)

        def m_get(ex, st, c, a, d):
            ok = st.fork()
            err = st.fork()
            ok.events.append(sym.Event("module.get", a, None, len(st.pc)))
            return [(ok, sym.Agg(d, "Ok", {"0": sym.Opaque("css::value::Value", "modval", ctx)}, 0)),
                    (err, sym.Agg(d, "Err", {"0": sym.Opaque("ScopeError", "undefined", ctx)}, 1))]

        marker = ctx.fresh_scalar("bool", "is_builtin_module")

        def m_is_some(ex, st, c, a, d):
            return marker

        models = [
            (r"^Name::split_module$", ev("split_module", r_split)),
            (r"^variablescope::Scope::get_module$", m_get_module),
            (r"^Option::<ScopeRef>::ok_or::<ScopeError>$", m_ok_or),
            (r"^<ScopeRef as Deref>::deref$", lambda ex, st, c, a, d: a[0]),
            (r"^<String as Deref>::deref$", lambda ex, st, c, a, d: a[0]),
            (r"^variablescope::Scope::get$", m_get),
            (r"^variablescope::Scope::get_local_or_none$", ev("get_local_or_none")),
            (r"^Option::<css::value::Value>::is_some$", m_is_some),
            (r"^Name::from_static$", lambda ex, st, c, a, d: sym.Opaque("Name", "name:" + (a[0].s if isinstance(a[0], sym.ConstStr) else "?"), ctx)),
            (r"^variablescope::Scope::get_or_none$", ev("get_or_none", lambda ex, st, d: existing)),
            (r"^variablescope::Scope::define_global$", ev("define_global", lambda ex, st, d: sym.Unit())),
            (r"^variablescope::Scope::set_variable$", ev("module.set_variable")),
            (r"^std::sync::Mutex::<BTreeMap<Name, css::value::Value>>::lock$", ev("lock")),
            (r"Result::<std::sync::MutexGuard<.*::unwrap$", lambda ex, st, c, a, d: a[0]),
            (r"^<std::sync::MutexGuard<'_, BTreeMap<Name, css::value::Value>> as DerefMut>::deref_mut$", lambda ex, st, c, a, d: a[0]),
            (r"^BTreeMap::<Name, css::value::Value>::insert$", ev("insert")),
        ] + BASE_MODELS
        ex = sym.Executor(ctx, models=models, feasibility=E.feasibility(ctx))
        paths = [p for p in ex.run(f, [sym.Ref("val", me), name, val, dflt, glob]) if p.status == "return"]
        rec.paths += len(paths)
        if modcase:
            seen = set()
            for i, p in enumerate(paths):
                if not any(e.callee == "module.get" for e in p.events):
                    continue
                fwd = [e for e in p.events if e.callee == "module.set_variable"]
                writes = [e for e in p.events if e.callee in ("insert", "define_global")]
                is_err = isinstance(p.ret, sym.Agg) and p.ret.variant == "Err"
                if fwd:
                    seen.add("forward")
                    r = E.decide(ctx, p.pc + [marker.term])
                    rec.add("module path %d: the assignment is forwarded to the module only when it is not a built-in module" % i, r)
                    ok = fwd[0].rargs[0] is module and fwd[0].rargs[1] is inner_name and fwd[0].rargs[2] is val and not writes
                    rec.add("module path %d: forwarded with the member name, the value and the same flags" % i,
                            {"verdict": "holds" if ok else "violated", "per_solver": {"structural": "identity"}, "time_s": 0})
                elif is_err and not writes:
                    seen.add("refuse")
                    r = E.decide(ctx, p.pc + ["(not %s)" % marker.term])
                    rec.add("module path %d: a built-in module refuses the assignment (error, nothing written)" % i, r)
                else:
                    rec.add("module path %d: forward or refuse (shape not recognised)" % i, {"verdict": "inconclusive", "per_solver": {}, "time_s": 0})
            if seen != {"forward", "refuse"}:
                rec.add("module assignment: both outcomes present (%s)" % sorted(seen), {"verdict": "inconclusive", "per_solver": {}, "time_s": 0})
            continue
        D = ex.discriminant(existing).term
        inner = existing.child("Some.0", "css::value::Value")
        ID = ex.discriminant(inner).term
        has_value = "(and (= %s %s) (not (= %s %s)))" % (D, bvlit(1, 64), ID, bvlit(cssv.index("Null"), 64))
        kinds = set()
        for i, p in enumerate(paths):
            ins = [e for e in p.events if e.callee == "insert"]
            dg = [e for e in p.events if e.callee == "define_global"]
            look = [e for e in p.events if e.callee == "get_or_none"]
            is_ok = isinstance(p.ret, sym.Agg) and p.ret.variant == "Ok"
            if not is_ok:
                rec.add("path %d: a plain assignment cannot fail (shape not recognised)" % i, {"verdict": "inconclusive", "per_solver": {}, "time_s": 0})
                continue
            if not ins and not dg:
                kinds.add("skip")
                r = E.decide(ctx, p.pc + ["(not (and %s %s))" % (dflt.term, has_value)], model_names=[D, ID])
                rec.add("path %d: the write is skipped only for !default when the variable already has a non-null value" % i, r)
            elif dg and not ins:
                kinds.add("global")
                r = E.decide(ctx, p.pc + ["(not (and %s (not (and %s %s))))" % (glob.term, dflt.term, has_value)], model_names=[D, ID])
                rec.add("path %d: define_global is used exactly for !global assignments that are not skipped" % i, r)
                ok = dg[0].rargs[0] is me and dg[0].rargs[1] is name and dg[0].rargs[2] is val
                rec.add("path %d: the global write stores this name and this value" % i,
                        {"verdict": "holds" if ok else "violated", "per_solver": {"structural": "identity"}, "time_s": 0})
            elif ins and not dg:
                kinds.add("local")
                r = E.decide(ctx, p.pc + ["(not (and (not %s) (not (and %s %s))))" % (glob.term, dflt.term, has_value)], model_names=[D, ID])
                rec.add("path %d: the scope's own table is written exactly for non-global assignments that are not skipped" % i, r)
                locks = [e for e in p.events if e.callee == "lock"]
                ok = (len(ins) == 1 and ins[0].rargs[1] is name and ins[0].rargs[2] is val and len(locks) == 1
                      and locks[0].rargs[0] is me.children.get("2"))
                rec.add("path %d: the local write stores this name and this value in self.variables" % i,
                        {"verdict": "holds" if ok else "violated", "per_solver": {"structural": "identity"}, "time_s": 0})
                # recorded finding: no look-up of enclosing scopes before an unflagged write
                consults = [e for e in p.events if e.callee in ("get_or_none",) or "parent" in e.callee]
                unflagged = E.decide(ctx, p.pc + [dflt.term])["verdict"] == "holds"  # this path has default = false
                if unflagged:
                    o = rec.add("path %d: an unflagged assignment updates the innermost enclosing scope that already declares the variable "
                                "(the code writes to its own scope without looking at the enclosing ones)" % i,
                                {"verdict": "violated" if not consults else "holds", "per_solver": {"structural": "no enclosing-scope lookup on this path"}, "time_s": 0})
                    o["region_excluded"] = "holds"  # structural finding confined to this obligation; every other obligation is separate
            else:
                rec.add("path %d: exactly one kind of write (shape not recognised)" % i, {"verdict": "inconclusive", "per_solver": {}, "time_s": 0})
        if kinds != {"skip", "global", "local"}:
            rec.add("skip, global and local outcomes all present (%s)" % sorted(kinds), {"verdict": "inconclusive", "per_solver": {}, "time_s": 0})
    # define_global: walks to the root
    g = E.find(name_re=r"^variablescope::<impl at .*>::define_global$")
    ctx2 = E.ctx()
    me2 = sym.Opaque("Scope", "self", ctx2)
    nm2 = sym.Opaque("Name", "name", ctx2)
    v2 = sym.Opaque("css::value::Value", "val", ctx2)

    def ev2(nmx):
        def h(ex, st, c, a, d):
            e = sym.Event(nmx, a, None, len(st.pc))
            e.rargs = [ex.resolve_ref(st, x) for x in a]
            st.events.append(e)
            return ctx2.fresh_value(d or "()", "ret." + nmx)
        return h

    models2 = [
        (r"^variablescope::Scope::define_global$", ev2("parent.define_global")),
        (r"^<ScopeRef as Deref>::deref$", lambda ex, st, c, a, d: a[0]),
        (r"^std::sync::Mutex::<BTreeMap<Name, css::value::Value>>::lock$", ev2("lock")),
        (r"Result::<std::sync::MutexGuard<.*::unwrap$", lambda ex, st, c, a, d: a[0]),
        (r"^<std::sync::MutexGuard<'_, BTreeMap<Name, css::value::Value>> as DerefMut>::deref_mut$", lambda ex, st, c, a, d: a[0]),
        (r"^BTreeMap::<Name, css::value::Value>::insert$", ev2("insert")),
    ] + BASE_MODELS
    ex2 = sym.Executor(ctx2, models=models2, feasibility=E.feasibility(ctx2))
    p2 = [p for p in ex2.run(g, [sym.Ref("val", me2), nm2, v2]) if p.status == "return"]
    rec.paths += len(p2)
    kinds2 = set()
    for i, p in enumerate(p2):
        up = [e for e in p.events if e.callee == "parent.define_global"]
        ins = [e for e in p.events if e.callee == "insert"]
        parent = me2.children.get("0") or me2.children.get("parent")
        if up and not ins:
            kinds2.add("up")
            ok = up[0].rargs[1] is nm2 and up[0].rargs[2] is v2
            rec.add("define_global path %d: with a parent, the same name and value are handed to the parent" % i,
                    {"verdict": "holds" if ok else "violated", "per_solver": {"structural": "identity"}, "time_s": 0})
        elif ins and not up:
            kinds2.add("root")
            ok = ins[0].rargs[1] is nm2 and ins[0].rargs[2] is v2
            rec.add("define_global path %d: the root scope stores the name and value in its own table" % i,
                    {"verdict": "holds" if ok else "violated", "per_solver": {"structural": "identity"}, "time_s": 0})
        else:
            rec.add("define_global path %d: parent or root (shape not recognised)" % i, {"verdict": "inconclusive", "per_solver": {}, "time_s": 0})
    if kinds2 != {"up", "root"}:
        rec.add("define_global: both the recursive and the root case present (%s)" % sorted(kinds2), {"verdict": "inconclusive", "per_solver": {}, "time_s": 0})
    return rec


def k_comment_dispatch(E, tier):
    """C36: the loud-comment arm of handle_item: in expanded style every comment reached is evaluated
    (interpolation) and pushed to the destination; in compressed style exactly the `/*!` comments are kept."""
    items = E.load_enum("sass/item.rs", "Item", "sass::item::Item")
    f = E.find(name="handle_item")
    rec = Rec("handle_item (comment arm)", f, E)
    ctx = E.ctx()
    text = sym.Opaque("SassString", "comment", ctx)
    item = sym.Agg("sass::item::Item", "Comment", {"0": text}, items.index("Comment"))
    compressed = ctx.fresh_scalar("bool", "is_compressed")
    preserved = ctx.fresh_scalar("bool", "starts_with_bang")

    def ev(nm, ret=None):
        def h(ex, st, c, a, d):
            e = sym.Event(nm, a, None, len(st.pc))
            e.rargs = [ex.resolve_ref(st, x) for x in a]
            r = ret(d) if ret else ctx.fresh_value(d or "()", "ret." + nm)
            e.result = r
            st.events.append(e)
            return r
        return h

    def m_eval(ex, st, c, a, d):
        ok = st.fork()
        err = st.fork()
        v = sym.Opaque("CssString", "evaluated", ctx)
        e = sym.Event("evaluate", a, v, len(st.pc))
        e.rargs = [ex.resolve_ref(st, x) for x in a]
        ok.events.append(e)
        return [(ok, sym.Agg(d, "Ok", {"0": v}, 0)), (err, sym.Agg(d, "Err", {"0": sym.Opaque("Error", "e", ctx)}, 1))]

    models = [
        (r"^Format::is_compressed$", lambda ex, st, c, a, d: compressed),
        (r"::starts_with::<char>$|::starts_with::<", lambda ex, st, c, a, d: preserved),
        (r"^SassString::evaluate$", m_eval),
        (r"push_comment$", ev("push_comment", lambda d: sym.Unit())),
    ] + BASE_MODELS
    ex = sym.Executor(ctx, models=models, feasibility=E.feasibility(ctx), max_paths=4000)
    paths = [p for p in ex.run(f, [sym.Ref("val", item), sym.Opaque("&mut dyn CssDestination", "dest", ctx),
                                   sym.Opaque("ScopeRef", "scope", ctx), sym.Opaque("&mut Context", "fctx", ctx)]) if p.status == "return"]
    rec.paths = len(paths)
    seen = set()
    for i, p in enumerate(paths):
        pushes = [e for e in p.events if e.callee == "push_comment"]
        evals = [e for e in p.events if e.callee == "evaluate"]
        is_ok = isinstance(p.ret, sym.Agg) and p.ret.variant == "Ok"
        if not is_ok:
            continue
        if pushes:
            seen.add("kept")
            r = E.decide(ctx, p.pc + ["(and %s (not %s))" % (compressed.term, preserved.term)])
            rec.add("path %d: a comment is emitted only in expanded style or when it starts with `!`" % i, r)
            ok = len(evals) == 1 and evals[0].rargs[0] is text
            rec.add("path %d: what is emitted is the evaluated (interpolated) text of this comment" % i,
                    {"verdict": "holds" if ok else "violated", "per_solver": {"structural": "identity"}, "time_s": 0})
        else:
            seen.add("dropped")
            # dropped: must be compressed and not a /*! comment
            uses_bang = any("starts_with" in e.callee for e in p.events) or preserved.term in " ".join(p.pc)
            r = E.decide(ctx, p.pc + ["(not %s)" % compressed.term])
            rec.add("path %d: a comment is dropped only in compressed style" % i, r)
            o = rec.add("path %d: a dropped comment is not a `/*!` comment (the code drops every comment in compressed style)" % i,
                        {"verdict": "holds" if uses_bang else "violated", "per_solver": {"structural": "the decision does not look at the comment text"}, "time_s": 0})
            if not uses_bang:
                o["region_excluded"] = "holds"
    if "kept" not in seen:
        rec.add("an emitting path exists", {"verdict": "inconclusive", "per_solver": {}, "time_s": 0})
    return rec


def k_error_and_drop(E, tier):
    """C21: (a) the `@error` arm of handle_item always fails the compilation with the evaluated message;
    (b) the Drop impls of the rule / at-rule / @media destinations commit their content to the parent; a
    failure of that commit can only be printed to stderr (Drop cannot return it) — recorded finding."""
    items = E.load_enum("sass/item.rs", "Item", "sass::item::Item")
    f = E.find(name="handle_item")
    rec = Rec("handle_item (@error arm) and destination Drop impls", f, E)
    ctx = E.ctx()
    msgv = sym.Opaque("sass::value::Value", "message", ctx)
    pos = sym.Opaque("SourcePos", "pos", ctx)
    item = sym.Agg("sass::item::Item", "Error", {"0": msgv, "1": pos}, items.index("Error"))

    def m_eval(ex, st, c, a, d):
        ok = st.fork()
        err = st.fork()
        v = sym.Opaque("css::value::Value", "evaluated", ctx)
        e = sym.Event("evaluate", a, v, len(st.pc))
        e.rargs = [ex.resolve_ref(st, x) for x in a]
        ok.events.append(e)
        return [(ok, sym.Agg(d, "Ok", {"0": v}, 0)), (err, sym.Agg(d, "Err", {"0": sym.Opaque("Error", "e", ctx)}, 1))]

    ex = sym.Executor(ctx, models=[(r"^sass::value::Value::evaluate$", m_eval)] + BASE_MODELS, feasibility=E.feasibility(ctx), max_paths=4000)
    paths = [p for p in ex.run(f, [sym.Ref("val", item), sym.Opaque("&mut dyn CssDestination", "dest", ctx),
                                   sym.Opaque("ScopeRef", "scope", ctx), sym.Opaque("&mut Context", "fctx", ctx)]) if p.status == "return"]
    rec.paths += len(paths)
    for i, p in enumerate(paths):
        is_err = isinstance(p.ret, sym.Agg) and p.ret.variant == "Err"
        rec.add("@error path %d: the compilation fails (no path returns Ok)" % i,
                {"verdict": "holds" if is_err else "violated", "per_solver": {"structural": repr(p.ret)[:60]}, "time_s": 0})
    if not paths:
        rec.add("@error arm reached", {"verdict": "inconclusive", "per_solver": {}, "time_s": 0})
    # Drop impls
    drops = [g for g in E.funcs if re.match(r"^cssdest::<impl at .*>::drop$", g.name)]
    if len(drops) != 3:
        raise sym.Unsupported("expected the three destination Drop impls, found %d" % len(drops))
    for g in drops:
        who = g.params[0][1].replace("&mut ", "")
        ctx2 = E.ctx()
        me = sym.Opaque(who, "self", ctx2)

        def commit(nm):
            def h(ex, st, c, a, d, nm=nm):
                ok = st.fork()
                err = st.fork()
                e = sym.Event(nm, a, None, len(st.pc))
                ok.events.append(e)
                err.events.append(sym.Event(nm + "-failed", a, None, len(st.pc)))
                return [(ok, sym.Agg(d, "Ok", {"0": sym.Unit()}, 0)), (err, sym.Agg(d, "Err", {"0": sym.Opaque("Invalid", "err", ctx2)}, 1))]
            return h

        def m_print(ex, st, c, a, d):
            st.events.append(sym.Event("eprint", a, None, len(st.pc)))
            return sym.Unit()

        models2 = [(r"::push_item$", commit("commit")), (r"::commit_rule$", commit("commit")), (r"^std::io::_eprint$", m_print)] + BASE_MODELS
        ex2 = sym.Executor(ctx2, models=models2, feasibility=E.feasibility(ctx2), max_paths=4000)
        p2 = [p for p in ex2.run(g, [sym.Ref("val", me)]) if p.status == "return"]
        rec.paths += len(p2)
        n_commit = 0
        swallowed = 0
        for p in p2:
            names = [e.callee for e in p.events]
            if "commit" in names or "commit-failed" in names:
                n_commit += 1
            if "commit-failed" in names:
                swallowed += 1
        rec.add("%s::drop: the collected content is committed to the parent on every path" % who,
                {"verdict": "holds" if n_commit == len(p2) and p2 else "violated", "per_solver": {"structural": "%d of %d paths" % (n_commit, len(p2))}, "time_s": 0})
        if swallowed:
            o = rec.add("%s::drop: a failing commit makes the compilation fail (Drop can only print it to stderr)" % who,
                        {"verdict": "violated", "per_solver": {"structural": "%d path(s) continue after Err" % swallowed}, "time_s": 0})
            o["region_excluded"] = "holds"
    return rec


def k_load_module(E, tier):
    """C03: CssData::load_module executes a module's initialiser only when no module is cached under that
    path, stores the result under the very same path, and otherwise returns the cached scope."""
    f = E.find(name_re=r"^cssdata::<impl at .*>::load_module$")
    rec = Rec("CssData::load_module", f, E)
    ctx = E.ctx()
    me = sym.Opaque("CssData", "self", ctx)
    path = sym.Opaque("&str", "path", ctx)
    init = sym.Opaque("Init", "init", ctx)
    cached = sym.Opaque("std::option::Option<&ScopeRef>", "cached", ctx)

    def ev(nm, ret=None):
        def h(ex, st, c, a, d):
            e = sym.Event(nm, a, None, len(st.pc))
            e.rargs = [ex.resolve_ref(st, x) for x in a]
            r = ret(d) if ret else ctx.fresh_value(d or "()", "ret." + nm)
            e.result = r
            st.events.append(e)
            return r
        return h

    def m_call_once(ex, st, c, a, d):
        ok = st.fork()
        err = st.fork()
        v = sym.Opaque("ScopeRef", "fresh-module", ctx)
        e = sym.Event("init", a, v, len(st.pc))
        e.rargs = [ex.resolve_ref(st, x) for x in a]
        ok.events.append(e)
        e2 = sym.Event("init-failed", a, None, len(st.pc))
        err.events.append(e2)
        return [(ok, sym.Agg(d, "Ok", {"0": v}, 0)), (err, sym.Agg(d, "Err", {"0": sym.Opaque("Error", "e", ctx)}, 1))]

    def m_clone(ex, st, c, a, d):
        src = ex.resolve_ref(st, a[0])
        o = sym.Opaque("ScopeRef", "clone-of:" + getattr(src, "name", "?"), ctx)
        e = sym.Event("clone", [src], o, len(st.pc))
        st.events.append(e)
        return o

    models = [
        (r"^BTreeMap::<String, ScopeRef>::get::<str>$", ev("get", lambda d: cached)),
        (r"^BTreeMap::<String, ScopeRef>::insert$", ev("insert")),
        (r"as FnOnce<\(&mut CssData,\)>>::call_once$", m_call_once),
        (r"^<ScopeRef as Clone>::clone$", m_clone),
        (r"^<&str as std::convert::Into<String>>::into$", lambda ex, st, c, a, d: a[0]),
    ] + BASE_MODELS
    ex = sym.Executor(ctx, models=models, feasibility=E.feasibility(ctx))
    paths = [p for p in ex.run(f, [sym.Ref("val", me), path, init]) if p.status == "return"]
    rec.paths = len(paths)
    D = ex.discriminant(cached).term
    kinds = set()
    for i, p in enumerate(paths):
        gets = [e for e in p.events if e.callee == "get"]
        inits = [e for e in p.events if e.callee in ("init", "init-failed")]
        ins = [e for e in p.events if e.callee == "insert"]
        if len(gets) != 1:
            rec.add("path %d: the cache is looked up once (shape not recognised)" % i, {"verdict": "inconclusive", "per_solver": {}, "time_s": 0})
            continue
        lookup_key = gets[0].rargs[1]
        if lookup_key is not path:
            # a key derived from the path: what matters for "executed once" is that the store below uses the very same key
            if ins:
                same = len(ins) == 1 and ins[0].rargs[1] is lookup_key
                rec.add("path %d: the cache is asked under a key derived from the path, and the new module is stored under that very key (looked up under one key and "
                        "stored under another, the module would be executed again by the next user)" % i,
                        {"verdict": "holds" if same else "violated", "per_solver": {"structural": "lookup key %r, store key %r" % (lookup_key, ins[0].rargs[1])}, "time_s": 0})
            rec.add("path %d: the cache key is the given path itself (a derived key: its normalisation is not modelled; shape not recognised)" % i,
                    {"verdict": "inconclusive", "per_solver": {}, "time_s": 0})
            continue
        is_ok = isinstance(p.ret, sym.Agg) and p.ret.variant == "Ok"
        if not inits:
            kinds.add("hit")
            r = E.decide(ctx, p.pc + ["(not (= %s %s))" % (D, bvlit(1, 64))])
            rec.add("path %d: the initialiser is skipped only when a module is cached under this path" % i, r)
            got = p.ret.fields["0"] if is_ok else None
            ok = is_ok and not ins and isinstance(got, sym.Opaque) and got.name.startswith("clone-of:cached")
            rec.add("path %d: a cache hit returns (a handle to) the cached scope and stores nothing" % i,
                    {"verdict": "holds" if ok else "violated", "per_solver": {"structural": repr(got)[:60]}, "time_s": 0})
        else:
            r = E.decide(ctx, p.pc + ["(not (= %s %s))" % (D, bvlit(0, 64))])
            rec.add("path %d: the initialiser runs only on a cache miss" % i, r)
            if len(inits) != 1:
                rec.add("path %d: the initialiser runs exactly once" % i, {"verdict": "violated", "per_solver": {"structural": "%d calls" % len(inits)}, "time_s": 0})
                continue
            if inits[0].callee == "init-failed":
                kinds.add("miss-error")
                rec.add("path %d: a failing initialiser is reported and nothing is cached" % i,
                        {"verdict": "holds" if (not is_ok and not ins) else "violated", "per_solver": {"structural": "events"}, "time_s": 0})
            else:
                kinds.add("miss")
                fresh = inits[0].result
                ok = (is_ok and len(ins) == 1 and ins[0].rargs[1] is path
                      and (ins[0].rargs[2] is fresh or getattr(ins[0].rargs[2], "name", "") == "clone-of:fresh-module")
                      and (p.ret.fields["0"] is fresh or getattr(p.ret.fields["0"], "name", "") == "clone-of:fresh-module"))
                rec.add("path %d: the new module is cached under the same path and returned" % i,
                        {"verdict": "holds" if ok else "violated", "per_solver": {"structural": "identity"}, "time_s": 0})
    if kinds != {"hit", "miss", "miss-error"}:
        rec.add("hit, miss and failing-initialiser cases all present (%s)" % sorted(kinds), {"verdict": "inconclusive", "per_solver": {}, "time_s": 0})
    return rec


def k_lock_loading(E, tier):
    """C02: Context::lock_loading registers the file under its name and reports a loop exactly when that name
    is already being loaded; unlock_loading removes the same key."""
    f = E.find(name_re=r"^input::context::<impl at .*>::lock_loading$")
    g = E.find(name_re=r"^input::context::<impl at .*>::unlock_loading$")
    rec = Rec("Context::lock_loading / unlock_loading", f, E)
    ctx = E.ctx()
    me = sym.Opaque("Context", "self", ctx)
    file = sym.Opaque("SourceFile", "file", ctx)
    old = sym.Opaque("std::option::Option<SourceKind>", "previous", ctx)

    def ev(nm, ret=None):
        def h(ex, st, c, a, d):
            e = sym.Event(nm, a, None, len(st.pc))
            e.rargs = [ex.resolve_ref(st, x) for x in a]
            r = ret(ex, st, a, d) if ret else ctx.fresh_value(d or "()", "ret." + nm)
            e.result = r
            st.events.append(e)
            return r
        return h

    key_name = sym.Opaque("&str", "name-of-file", ctx)
    models = [
        (r"^SourceFile::source$", lambda ex, st, c, a, d: sym.Ref("val", ex.resolve_ref(st, a[0]).child("source", "SourceName"))),
        (r"^SourceName::name$", lambda ex, st, c, a, d: key_name),
        (r"^SourceFile::path$", lambda ex, st, c, a, d: key_name),
        (r"^<&str as std::convert::Into<String>>::into$", lambda ex, st, c, a, d: a[0]),
        (r"^BTreeMap::<String, SourceKind>::insert$", ev("insert", lambda ex, st, a, d: old)),
        (r"^BTreeMap::<String, SourceKind>::remove::<str>$", ev("remove")),
    ] + BASE_MODELS
    ex = sym.Executor(ctx, models=models, feasibility=E.feasibility(ctx))
    paths = [p for p in ex.run(f, [sym.Ref("val", me), sym.Ref("val", file), ctx.fresh_scalar("bool", "as_module")]) if p.status == "return"]
    rec.paths = len(paths)
    D = ex.discriminant(old).term
    kinds = set()
    for i, p in enumerate(paths):
        ins = [e for e in p.events if e.callee == "insert"]
        if len(ins) != 1 or ins[0].rargs[1] is not key_name:
            rec.add("lock path %d: one registration under the file's own name (shape not recognised)" % i, {"verdict": "inconclusive", "per_solver": {}, "time_s": 0})
            continue
        is_err = isinstance(p.ret, sym.Agg) and p.ret.variant == "Err"
        kinds.add("loop" if is_err else "ok")
        want = "(= %s %s)" % (D, bvlit(1 if is_err else 0, 64))
        r = E.decide(ctx, p.pc + ["(not %s)" % want])
        rec.add("lock path %d: %s" % (i, "a loop error exactly when the name was already registered" if is_err else "Ok exactly when the name was not registered"), r)
        if is_err:
            e = p.ret.fields["0"]
            rec.add("lock path %d: the error is ImportLoop" % i, {"verdict": "holds" if isinstance(e, sym.Agg) and e.variant == "ImportLoop" else "violated",
                                                                   "per_solver": {"structural": repr(e)[:50]}, "time_s": 0})
    if kinds != {"loop", "ok"}:
        rec.add("lock: both outcomes present (%s)" % sorted(kinds), {"verdict": "inconclusive", "per_solver": {}, "time_s": 0})
    ex2 = sym.Executor(ctx, models=models, feasibility=E.feasibility(ctx))
    p2 = [p for p in ex2.run(g, [sym.Ref("val", me), sym.Ref("val", file)]) if p.status == "return"]
    rec.paths += len(p2)
    for i, p in enumerate(p2):
        rm = [e for e in p.events if e.callee == "remove"]
        ok = len(rm) == 1 and rm[0].rargs[1] is key_name
        # a key computed by a function that is not modelled here (e.g. an extracted helper) is an unknown shape, not a wrong key
        unknown = len(rm) != 1 or (isinstance(rm[0].rargs[1], sym.Opaque) and rm[0].rargs[1].name.startswith("ret."))
        rec.add("unlock path %d: removes the registration made under the same name%s" % (i, " (shape not recognised)" if unknown and not ok else ""),
                {"verdict": "holds" if ok else ("inconclusive" if unknown else "violated"), "per_solver": {"structural": "identity"}, "time_s": 0})
    if not p2:
        rec.add("unlock has a path", {"verdict": "inconclusive", "per_solver": {}, "time_s": 0})
    # lock and unlock must agree on the key: a file registered under one spelling and removed under another stays locked
    ins_keys = [e.rargs[1] for p in paths for e in p.events if e.callee == "insert"]
    rm_keys = [e.rargs[1] for p in p2 for e in p.events if e.callee == "remove"]
    if ins_keys and rm_keys:
        same = all(k is rm_keys[0] for k in ins_keys + rm_keys)
        one_is_name = any(k is key_name for k in ins_keys + rm_keys)
        rec.add("lock and unlock use the same key (the file's name as the loader resolved it)",
                {"verdict": "holds" if same else ("violated" if one_is_name else "inconclusive"), "per_solver": {"structural": "identity of the key handed to insert and to remove"}, "time_s": 0})
    return rec
