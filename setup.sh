#!/bin/sh
# Offline setup: pre-build the native replay binary and warm one Kani target
# dir.  Everything is rebuilt from /repo's working tree by the checks anyway;
# this only moves the one-off dependency compilation out of the first check.
set -e
cd "$(dirname "$0")"
export CARGO_NET_OFFLINE=true
export RUSTFLAGS="--cfg kaj_rsass_verif --cap-lints allow"
CACHE="${VERIF_CACHE:-/var/tmp/kaj-rsass-verif}"
mkdir -p "$CACHE" evidence
(cd replay && cargo build --offline --target-dir "$CACHE/replay" --bin replay) 2>&1 | tail -2
(cd replay && cargo build --offline --release --target-dir "$CACHE/replay" --bin replay) 2>&1 | tail -2
echo "setup done"
