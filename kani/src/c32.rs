//! C32 — colour adjustment laws (kernel scope).
use crate::{check, cover, harnesses};
use rsass::value::{Color, Hsla, Hwba, RgbFormat, Rgba};
use rsass::verif_hooks::{color_invert, hsla_invert, rgba_invert};

fn near(a: f64, b: f64, tol: f64) -> bool {
    let d = a - b;
    d <= tol && -d <= tol
}
/// Distance of two hues on the circle is below `tol`.
fn hue_near(a: f64, b: f64, tol: f64) -> bool {
    near(a, b, tol) || near(a + 360.0, b, tol) || near(a, b + 360.0, tol)
}

harnesses! {
    /// invert(invert(c)) == c and invert with weight 0 is the identity, for
    /// every in-range rgba colour.
    fn c32_rgba_invert_involution [unwind 2] (s) {
        let (r, g, b, a) = (s.num(), s.num(), s.num(), s.num());
        s.assume(r >= 0.0 && r <= 255.0 && g >= 0.0 && g <= 255.0 && b >= 0.0 && b <= 255.0);
        s.assume(a >= 0.0 && a <= 1.0);
        let c = Rgba::new(r, g, b, a, RgbFormat::Rgb);
        let once = rgba_invert(&c, 1.0);
        let twice = rgba_invert(&once, 1.0);
        let zero = rgba_invert(&c, 0.0);
        cover!(r > 200.0 && g < 50.0, "a saturated colour");
        check!(near(once.red(), 255.0 - r, 1e-9), "invert maps red to 255 - red");
        check!(near(twice.red(), r, 1e-9) && near(twice.green(), g, 1e-9) && near(twice.blue(), b, 1e-9), "inverting twice restores the channels");
        check!(twice.alpha() == a && once.alpha() == a, "invert keeps alpha");
        check!(zero.red() == r && zero.green() == g && zero.blue() == b && zero.alpha() == a, "invert with weight 0 is the identity");
    }
    /// The same for hsl colours (hue turns by 180 degrees and back).
    fn c32_hsla_invert_involution [unwind 2] [stub_deg_mod] (s) {
        let (h, sat, l, a) = (s.num(), s.num(), s.num(), s.num());
        s.assume(h >= 0.0 && h < 360.0 && sat >= 0.0 && sat <= 1.0 && l >= 0.0 && l <= 1.0 && a >= 0.0 && a <= 1.0);
        let c = Hsla::new(h, sat, l, a, true);
        let once = hsla_invert(&c, 1.0);
        let twice = hsla_invert(&once, 1.0);
        cover!(h > 200.0, "hue that wraps");
        cover!(h < 100.0, "hue that does not wrap");
        check!(hue_near(twice.hue(), h, 1e-9), "inverting twice restores the hue");
        check!(near(twice.lum(), l, 1e-9) && twice.sat() == sat && twice.alpha() == a, "inverting twice restores lightness, saturation and alpha");
        check!(once.hue() >= 0.0 && once.hue() < 360.0, "inverted hue stays within [0, 360)");
    }
    /// complement(complement(c)) and adjust-hue(c, 360deg) return the hue and
    /// leave the other channels untouched (hsl carrier, every in-range colour).
    fn c32_hue_rotation_cancels_hsl [unwind 2] [stub_deg_mod] (s) {
        let (h, p, q, a) = (s.num(), s.num(), s.num(), s.num());
        s.assume(h >= 0.0 && h < 360.0 && p >= 0.0 && p <= 1.0 && q >= 0.0 && q <= 1.0 && a >= 0.0 && a <= 1.0);
        let c: Color = Hsla::new(h, p, q, a, true).into();
        let comp2 = c.rotate_hue(180.0).rotate_hue(180.0);
        let full = c.rotate_hue(360.0);
        let once = c.rotate_hue(180.0);
        if let Color::Hsla(o) = &once {
            check!(o.sat() == p && o.lum() == q && o.alpha() == a, "one hue rotation keeps saturation, lightness and alpha");
        }
        cover!(h > 300.0, "wrapping");
        cover!(h < 10.0, "small hue");
        match (&comp2, &full) {
            (Color::Hsla(x), Color::Hsla(y)) => {
                check!(hue_near(x.hue(), h, 1e-9), "complement twice returns the hue");
                check!(hue_near(y.hue(), h, 1e-9), "adjust-hue by 360deg returns the hue");
                check!(x.hue() >= 0.0 && x.hue() < 360.0 && y.hue() >= 0.0 && y.hue() < 360.0, "a rotated hue stays within [0, 360)");
                check!(x.sat() == p && x.lum() == q && x.alpha() == a, "complement keeps saturation, lightness and alpha");
                check!(y.sat() == p && y.lum() == q && y.alpha() == a, "adjust-hue keeps saturation, lightness and alpha");
            }
            _ => {
                check!(false, "rotation keeps the representation");
            }
        }
    }
    /// The same for the hwb carrier (its hue is reduced when reported, so it
    /// is compared modulo a full turn).
    fn c32_hue_rotation_cancels_hwb [unwind 2] (s) {
        let (h, p, q, a) = (s.num(), s.num(), s.num(), s.num());
        s.assume(h >= 0.0 && h < 360.0 && p >= 0.0 && q >= 0.0 && p + q <= 1.0 && a >= 0.0 && a <= 1.0);
        let c: Color = Hwba::new(h, p, q, a).into();
        let comp2 = c.rotate_hue(180.0).rotate_hue(180.0);
        cover!(h > 300.0, "large hue");
        match &comp2 {
            Color::Hwba(x) => {
                check!(near(x.hue(), h + 360.0, 1e-9), "complement twice returns the hue plus a full turn (hwb)");
                check!(x.whiteness() == p && x.blackness() == q && x.alpha() == a, "complement keeps whiteness, blackness and alpha");
            }
            _ => {
                check!(false, "rotation keeps the representation (hwb)");
            }
        }
    }
    /// A SINGLE rotation of an hwb colour by any finite angle keeps whiteness,
    /// blackness and alpha and moves the hue by exactly that angle.
    fn c32_hue_rotation_single_hwb [unwind 2] (s) {
        let (h, p, q, a) = (s.num(), s.num(), s.num(), s.num());
        s.assume(h >= 0.0 && h < 360.0 && p >= 0.0 && q >= 0.0 && p + q <= 1.0 && a >= 0.0 && a <= 1.0);
        let d = s.finite();
        let c: Color = Hwba::new(h, p, q, a).into();
        let once = c.rotate_hue(d);
        cover!(p > 0.0 && q > 0.0 && p != q, "distinct whiteness and blackness");
        match &once {
            Color::Hwba(o) => {
                check!(o.whiteness() == p && o.blackness() == q && o.alpha() == a, "one hue rotation keeps whiteness, blackness and alpha");
                check!(o.hue() == h + d, "one hue rotation moves the hue by exactly the angle (hwb)");
            }
            _ => {
                check!(false, "rotation keeps the representation (hwb, single)");
            }
        }
    }
    /// set_alpha clamps to 0..1 and keeps every other channel
    /// (the kernel of opacify / transparentize).
    fn c32_set_alpha_clamps [unwind 2] (s) {
        let (r, g, b, a0) = (s.num(), s.num(), s.num(), s.num());
        s.assume(a0 >= 0.0 && a0 <= 1.0);
        let amount = s.num();
        s.assume(amount >= 0.0 && amount <= 1.0);
        let up = s.bool();
        let mut c: Color = Rgba::new(r, g, b, a0, RgbFormat::Rgb).into();
        let before = c.to_rgba().into_owned();
        let target = if up { a0 + amount } else { a0 - amount };
        c.set_alpha(target);
        let after = c.to_rgba().into_owned();
        cover!(target > 1.0, "clamped above");
        cover!(target < 0.0, "clamped below");
        cover!(target > 0.0 && target < 1.0, "not clamped");
        let want = if target > 1.0 { 1.0 } else if target < 0.0 { 0.0 } else { target };
        check!(after.alpha() == want, "alpha moves by exactly the amount, clamped to 0..1");
        check!(after.red() == before.red() && after.green() == before.green() && after.blue() == before.blue(), "changing alpha keeps the colour channels");
        // undo when nothing was clamped
        if target >= 0.0 && target <= 1.0 {
            let mut d = c.clone();
            d.set_alpha(if up { target - amount } else { target + amount });
            check!(near(d.get_alpha(), a0, 1e-12), "opacify and transparentize undo each other when nothing was clamped");
        }
    }
    /// Color::invert dispatches to the carrier's invert and keeps alpha;
    /// weight 0 is the identity on the reported rgb channels.
    fn c32_color_invert_weight0_identity [unwind 2] [stub_deg_mod] (s) {
        let (r, g, b) = (s.u8(), s.u8(), s.u8());
        if !cfg!(feature = "thorough") {
            s.assume((r % 17 == 0 && g % 17 == 0 && b % 17 == 0) || r == g || g == b);
        }
        let c: Color = Rgba::from_rgb(r, g, b).into();
        let z = color_invert(&c, 0.0);
        let o = color_invert(&c, 1.0);
        cover!(r != g, "non-grey");
        check!(z == c, "invert with weight 0 returns the colour");
        let o = o.to_rgba().into_owned();
        check!(o.red() == 255.0 - f64::from(r) && o.green() == 255.0 - f64::from(g) && o.blue() == 255.0 - f64::from(b), "invert with weight 1 maps every channel to 255 - channel");
    }
}
