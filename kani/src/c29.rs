//! C29 — math functions compute the specified values: the rounding kernels
//! (`Number::{ceil, floor, trunc, round, abs, signum}`) that math.ceil/floor/
//! round/abs and CSS round() are made of, checked against their
//! order-theoretic definitions (not against another implementation).
use crate::{check, cover, harnesses};
use rsass::value::Number;

/// Integrality without using the functions under test: below 2^53 the value
/// survives a round trip through i64; from 2^52 on every double is integral.
fn integral(r: f64) -> bool {
    if r.abs() >= 4503599627370496.0 {
        true
    } else {
        (r as i64) as f64 == r
    }
}

harnesses! {
    /// floor(x) is the greatest integer not above x.
    fn c29_floor_is_greatest_integer_below [unwind 2] (s) {
        let x = s.finite();
        let r = f64::from(Number::from(x).floor());
        cover!(x < 0.0 && r != x, "negative non-integer");
        cover!(x > 0.0 && x < 1.0, "inside (0,1)");
        check!(integral(r), "floor gives an integer");
        check!(r <= x, "floor(x) <= x");
        check!(r == x || r + 1.0 > x, "floor(x) + 1 > x");
    }
    /// ceil(x) is the least integer not below x.
    fn c29_ceil_is_least_integer_above [unwind 2] (s) {
        let x = s.finite();
        let r = f64::from(Number::from(x).ceil());
        cover!(x < 0.0 && r != x, "negative non-integer");
        cover!(x > 0.0 && x < 1.0, "inside (0,1)");
        check!(integral(r), "ceil gives an integer");
        check!(r >= x, "ceil(x) >= x");
        check!(r == x || r - 1.0 < x, "ceil(x) - 1 < x");
    }
    /// trunc(x) drops the fraction: the integer of largest magnitude not beyond x.
    fn c29_trunc_rounds_toward_zero [unwind 2] (s) {
        let x = s.finite();
        let r = f64::from(Number::from(x).trunc());
        cover!(x < 0.0 && r != x, "negative non-integer");
        check!(integral(r), "trunc gives an integer");
        check!(if x >= 0.0 { r <= x && (r == x || r + 1.0 > x) } else { r >= x && (r == x || r - 1.0 < x) }, "trunc(x) lies between 0 and x, less than 1 away");
        check!(r == 0.0 || (r < 0.0) == (x < 0.0), "trunc keeps the sign");
    }
    /// round(x) is a nearest integer, ties away from zero (Sass math.round).
    fn c29_round_is_nearest_ties_away [unwind 2] (s) {
        let x = s.finite();
        let r = f64::from(Number::from(x).round());
        let d = r - x;
        cover!(d == 0.5, "tie rounded up");
        cover!(d == -0.5, "tie rounded down");
        cover!(d != 0.0 && d != 0.5 && d != -0.5, "ordinary fraction");
        check!(integral(r), "round gives an integer");
        check!(d <= 0.5 && d >= -0.5, "round(x) is within 1/2 of x");
        check!(if d == 0.5 { x > 0.0 } else { true }, "a tie is rounded up only for positive x");
        check!(if d == -0.5 { x < 0.0 } else { true }, "a tie is rounded down only for negative x");
    }
    /// abs and signum: |x| >= 0 with the same magnitude; signum is -1, 1 or the zero itself.
    fn c29_abs_and_signum [unwind 2] (s) {
        let x = s.num();
        let a = f64::from(Number::from(x).abs());
        let g = f64::from(Number::from(x).signum());
        cover!(x < 0.0, "negative");
        cover!(x == 0.0 && x.is_sign_negative(), "negative zero");
        check!(!a.is_sign_negative(), "abs is non-negative (also for -0)");
        check!(a == x || a == -x, "abs keeps the magnitude");
        check!(if x > 0.0 { g == 1.0 } else if x < 0.0 { g == -1.0 } else { g == 0.0 && g.is_sign_negative() == x.is_sign_negative() },
               "signum is 1, -1, or the (signed) zero itself");
    }
    /// Rounding is idempotent and monotone in the sense Sass relies on: an integer stays put.
    fn c29_integers_are_fixed_points [unwind 2] (s) {
        let i = s.i64();
        s.assume(i > -9007199254740992 && i < 9007199254740992);
        let x = i as f64;
        let n = Number::from(x);
        cover!(i < 0, "negative integer");
        check!(f64::from(n.floor()) == x, "floor(int) = int");
        check!(f64::from(n.ceil()) == x, "ceil(int) = int");
        check!(f64::from(n.round()) == x, "round(int) = int");
        check!(f64::from(n.trunc()) == x, "trunc(int) = int");
    }
}
