//! C17 — `@for` visits exactly the specified integers (ValueRange scope).
use crate::oracle::unit;
use crate::{check, cover, harnesses};
use rsass::css::Value;
use rsass::value::{UnitSet, VerifValueRange};

/// The loop value as a double and whether it carries a unit.
fn num_of(v: &Value) -> Option<(f64, bool)> {
    match v {
        Value::Numeric(n, _) => Some((f64::from(n.value.clone()), !n.is_no_unit())),
        _ => None,
    }
}

fn visits<S: crate::Src>(s: &mut S, with_unit: bool, span: i64, lo: i64, hi: i64) {
    let from = s.i64();
    let to = s.i64();
    let inclusive = s.bool();
    s.assume(from >= lo && from <= hi && to >= lo && to <= hi);
    s.assume(to - from <= span && from - to <= span);
    let u = if with_unit { UnitSet::from(unit(14)) } else { UnitSet::scalar() };
    let mut it = VerifValueRange::new(from, to, inclusive, u);
    let down = to < from;
    let dist = if down { from - to } else { to - from };
    let count = if inclusive { dist + 1 } else { dist };
    cover!(down && inclusive && count > 2, "counting down, inclusive");
    cover!(!down && !inclusive && count > 2, "counting up, exclusive");
    cover!(count == 0, "empty range");
    let mut i: i64 = 0;
    while i < span + 2 {
        let item = it.next();
        if i < count {
            let want = if down { from - i } else { from + i };
            match item.as_ref().and_then(num_of) {
                Some((v, has_unit)) => {
                    check!(v == want as f64, "@for visits from, from±1, ... in order");
                    check!(has_unit == with_unit, "every loop value carries from's unit");
                }
                None => {
                    check!(false, "@for stops early");
                }
            }
        } else {
            check!(item.is_none(), "@for stops after the last specified value");
        }
        std::mem::forget(item);
        i += 1;
    }
    std::mem::forget(it);
}

harnesses! {
    /// For all `from`, `to` in [-6, 6] and both `through`/`to`: the iterator
    /// yields exactly from, from±1, ... ending at `to` (inclusive) or one
    /// before (exclusive), counts down iff to < from, and every item carries
    /// the unit.
    fn c17_for_visits_exactly_the_range [unwind 16] (s) { visits(s, true, 12, -6, 6) }
    /// The same without a unit, on a shorter span.
    fn c17_for_unitless_range [unwind 8] (s) { visits(s, false, 4, -6, 6) }
    /// Thorough: ranges of up to 5 steps anywhere within +-2^52 (where the
    /// i64 -> f64 conversion of the loop value is exact).  (13 steps gave no
    /// verdict within the 3600 s cap.)
    fn c17t_for_visits_anywhere [unwind 9] (s) {
        visits(s, true, 5, -(1i64 << 52), 1i64 << 52)
    }
    /// Extreme bounds: no overflow, still the right number of iterations.
    fn c17_for_extreme_bounds [unwind 7] (s) {
        let from = s.i64();
        let to = s.i64();
        let inclusive = s.bool();
        // at most 3 steps apart, anywhere in i64 including the limits
        let d = (to as i128) - (from as i128);
        s.assume(d >= -3 && d <= 3);
        let mut it = VerifValueRange::new(from, to, inclusive, UnitSet::scalar());
        cover!(to == i64::MAX && inclusive, "through i64::MAX");
        cover!(to == i64::MIN && inclusive, "through i64::MIN");
        let dist = if d < 0 { -d } else { d };
        let count = if inclusive { dist + 1 } else { dist };
        let mut n: i128 = 0;
        let mut k = 0;
        while k < 5 {
            let item = it.next();
            if item.is_some() {
                n += 1;
            }
            std::mem::forget(item);
            k += 1;
        }
        check!(n == count, "@for runs |to - from| (+1) times even next to the i64 limits");
        std::mem::forget(it);
    }
}
