//! C11 — unit arithmetic converts only with fixed CSS ratios.
use crate::oracle::{c11_invented_ratio_pair, canonical, close, group, unit, IDX_NONE, N_UNITS};
use crate::{check, cover, harnesses, known};
use rsass::value::{Numeric, UnitSet};
use std::cmp::Ordering;

harnesses! {
    /// `Unit::scale_to` is `Some` exactly for equal units and for two units of
    /// one CSS group; all 31x31 ordered pairs (symbolic indices).
    fn c11_convertible_iff_css_group [unwind 4] (s) {
        let i = s.below(N_UNITS);
        let j = s.below(N_UNITS);
        known!(s, "C11-invented-ratios", c11_invented_ratio_pair(i, j));
        let a = unit(i);
        let b = unit(j);
        let got = a.scale_to(&b);
        let want = i == j || (group(i) != 0 && group(i) == group(j));
        cover!(want && i != j, "convertible pair");
        cover!(!want, "inconvertible pair");
        check!(got.is_some() == want, "units convert iff CSS fixes a ratio between them");
        std::mem::forget(a);
        std::mem::forget(b);
    }
    /// When CSS fixes the ratio, `scale_to` returns it (relative error <= 1e-12).
    fn c11_ratio_is_the_css_ratio [unwind 4] (s) {
        let i = s.below(N_UNITS);
        let j = s.below(N_UNITS);
        s.assume(group(i) != 0 && group(i) == group(j));
        let got = unit(i).scale_to(&unit(j));
        cover!(i != j, "distinct units of one group");
        match got {
            Some(f) => {
                let want = canonical(i) / canonical(j);
                check!(close(f, want, 1e-12), "conversion factor equals the CSS ratio");
                check!(i != j || f == 1.0, "a unit converts to itself with factor 1");
            }
            None => {
                check!(false, "units of one CSS group convert");
            }
        }
    }
    /// `UnitSet::scale_to` between single-unit sets (and the empty set) agrees
    /// with `Unit::scale_to` on representative pairs of every kind.  (Concrete
    /// units: the BTreeMap inside `UnitSet::dimension` makes symbolic unit
    /// *sets* intractable for CBMC; the full table is decided at `Unit` level.)
    fn c11_unitset_single_agrees_with_unit [unwind 4] (s) {
        let _ = s.bool();
        set_vs_unit(8, 11);
        set_vs_unit(11, 8);
        set_vs_unit(14, 12);
        set_vs_unit(15, 17);
        set_vs_unit(19, 20);
        set_vs_unit(22, 21);
        set_vs_unit(23, 25);
        set_vs_unit(28, 8);
        set_vs_unit(8, 28);
        set_vs_unit(28, 28);
        set_vs_unit(29, 29);
        set_vs_unit(29, 30);
        set_vs_unit(14, 15);
        set_vs_unit(3, 4);
        cover!(true, "reached");
    }
    /// Numbers whose units CSS cannot convert do not compare (`None` => a Sass
    /// error) and are not equal, for ALL finite magnitudes; representative pairs.
    fn c11_cmp_incompatible_is_undefined [unwind 4] (s) {
        let x = s.finite();
        let y = s.finite();
        cover!(x < y, "ordered magnitudes");
        incompatible(x, y, 14, 15); // px deg
        incompatible(x, y, 15, 14);
        incompatible(x, y, 0, 14);  // em px
        incompatible(x, y, 3, 0);   // rem em
        incompatible(x, y, 4, 5);   // vw vh
        incompatible(x, y, 19, 21); // s Hz
        incompatible(x, y, 26, 14); // % px
        incompatible(x, y, 23, 14); // dpi px
        incompatible(x, y, 29, 14); // unknown px
        incompatible(x, y, 29, 30); // unknown unknown
    }
    /// A unitless operand takes the other operand's unit in comparisons
    /// (unit symbolic over the 28 named units, all finite magnitudes).
    fn c11_cmp_unitless_takes_other_unit [unwind 4] (s) {
        let j = s.below(28);
        let x = s.finite();
        let y = s.finite();
        let a = Numeric::scalar(x);
        let b = Numeric::new(y, unit(j));
        cover!(x < y, "less");
        cover!(x > y, "greater");
        if x < y && !close(x, y, 1e-9) {
            check!(a.partial_cmp(&b) == Some(Ordering::Less), "unitless < united compares magnitudes");
            check!(b.partial_cmp(&a) == Some(Ordering::Greater), "united > unitless compares magnitudes");
        }
        if x > y && !close(x, y, 1e-9) {
            check!(a.partial_cmp(&b) == Some(Ordering::Greater), "unitless > united compares magnitudes");
            check!(b.partial_cmp(&a) == Some(Ordering::Less), "united < unitless compares magnitudes");
        }
        std::mem::forget((a, b));
    }
    /// Across two convertible units, for ALL finite magnitudes: the comparison
    /// is defined, antisymmetric, and decided by the signs when they differ
    /// (one representative ordered pair per CSS group, both directions).
    fn c11_cmp_times_all_magnitudes [unwind 4] (s) { cmp_pair_symbolic(s, 19, 20) }
    fn c11_cmp_freqs_all_magnitudes [unwind 4] (s) { cmp_pair_symbolic(s, 22, 21) }
    fn c11_cmp_resolutions_all_magnitudes [unwind 4] (s) { cmp_pair_symbolic(s, 23, 25) }
    /// Every ordered pair inside a CSS group at magnitude 1: the ordering is the
    /// ordering of the CSS ratios (catches a conversion applied in the wrong
    /// direction or to the wrong operand).  Concrete inputs, symbolic execution.
    fn c11_cmp_lengths_ratio_direction [unwind 9] (s) { let _ = s.bool(); ratio_direction(8, 14) }
    fn c11_cmp_angles_ratio_direction [unwind 9] (s) { let _ = s.bool(); ratio_direction(15, 18) }
    fn c11_cmp_small_groups_ratio_direction [unwind 9] (s) {
        let _ = s.bool();
        ratio_direction(19, 20);
        ratio_direction(21, 22);
        ratio_direction(23, 25);
    }
}

fn set_vs_unit(i: u8, j: u8) {
    let a = UnitSet::from(unit(i));
    let b = UnitSet::from(unit(j));
    let via_set = a.scale_to(&b);
    let direct = unit(i).scale_to(&unit(j));
    check!(via_set.is_some() == direct.is_some(), "UnitSet and Unit agree on convertibility");
    if let (Some(x), Some(y)) = (via_set, direct) {
        check!(x == y, "UnitSet and Unit agree on the factor");
    }
    check!((i == IDX_NONE) == a.is_none(), "only the unitless set is_none");
    std::mem::forget((a, b));
}

fn incompatible(x: f64, y: f64, i: u8, j: u8) {
    let a = Numeric::new(x, unit(i));
    let b = Numeric::new(y, unit(j));
    check!(a.partial_cmp(&b).is_none(), "numbers with inconvertible units do not compare");
    check!(!(a == b), "numbers with inconvertible units are not equal");
    std::mem::forget((a, b));
}

fn cmp_pair_symbolic<S: crate::Src>(s: &mut S, i: u8, j: u8) {
    let x = s.finite();
    let y = s.finite();
    let a = Numeric::new(x, unit(i));
    let b = Numeric::new(y, unit(j));
    let got = a.partial_cmp(&b);
    cover!(got == Some(Ordering::Less), "less");
    cover!(got == Some(Ordering::Equal) && x != 0.0, "equal, non-zero");
    check!(got.is_some(), "convertible units compare for every magnitude");
    check!(b.partial_cmp(&a) == got.map(Ordering::reverse), "comparison across units is antisymmetric");
    if x < 0.0 && y > 0.0 {
        check!(got == Some(Ordering::Less), "a negative number is less than a positive one");
    }
    if x > 0.0 && y < 0.0 {
        check!(got == Some(Ordering::Greater), "a positive number is greater than a negative one");
    }
    std::mem::forget((a, b));
}

fn ratio_direction(lo: u8, hi: u8) {
    let mut i = lo;
    while i <= hi {
        let mut j = lo;
        while j <= hi {
            let a = Numeric::new(1.0, unit(i));
            let b = Numeric::new(1.0, unit(j));
            let want = if i == j {
                Ordering::Equal
            } else if canonical(i) < canonical(j) {
                Ordering::Less
            } else {
                Ordering::Greater
            };
            check!(a.partial_cmp(&b) == Some(want), "1u ? 1v orders like the CSS ratios of u and v");
            std::mem::forget((a, b));
            j += 1;
        }
        i += 1;
    }
    cover!(true, "reached");
}
