//! C13 — map keys follow `==`; map equality ignores order (container scope).
//!
//! Real code: the generic `rsass::ordermap::OrderMap<K, V>` (through the
//! hook re-export).  Instantiation: `K = Key(u8)` whose `==` is equality
//! modulo 4 — deliberately coarser than identity, standing for Sass keys that
//! are `==` under different representations (`1` and `1.0`, `"a"` and `a`).
use crate::{check, cover, harnesses};
use rsass::verif_hooks::OrderMap;

#[derive(Clone, Copy, Debug)]
pub struct Key(pub u8);
impl PartialEq for Key {
    fn eq(&self, other: &Self) -> bool {
        self.0 % 4 == other.0 % 4
    }
}
impl Eq for Key {}

type Map = OrderMap<Key, u8>;

/// An arbitrary valid map of exactly `n` entries (concrete `n`), built
/// through the real `insert` from symbolic keys/values under the assumption
/// that the keys are pairwise non-`==` (the representation invariant, which
/// `c13_insert*` shows every operation preserves).
fn any_map<S: crate::Src>(s: &mut S, n: u8) -> Map {
    let mut m = Map::new();
    let mut i = 0;
    while i < n {
        let k = Key(s.u8());
        let v = s.u8();
        s.assume(!m.contains_key(&k));
        m.insert(k, v);
        i += 1;
    }
    m
}

/// Reference lookup by `==` over the entries in order.
fn model_get(m: &Map, k: &Key) -> Option<u8> {
    let mut i = 0;
    while i < m.len() {
        if let Some((mk, mv)) = m.get_item(i) {
            if mk == k {
                return Some(*mv);
            }
        }
        i += 1;
    }
    None
}

fn keys_pairwise_distinct(m: &Map) -> bool {
    let mut i = 0;
    while i < m.len() {
        let mut j = i + 1;
        while j < m.len() {
            if let (Some(a), Some(b)) = (m.get_item(i), m.get_item(j)) {
                if a.0 == b.0 {
                    return false;
                }
            }
            j += 1;
        }
        i += 1;
    }
    true
}

harnesses! {
    /// insert: returns the old value iff an `==` key existed; afterwards every
    /// `==` key reads the new value; other entries and their order are
    /// unchanged; a new key is appended last; the invariant is preserved.
    fn c13_insert_into_2 [unwind 6] (s) { insert_body(s, 2) }
    fn c13_insert_into_1 [unwind 6] (s) { insert_body(s, 1) }
    fn c13_insert_into_0 [unwind 6] (s) { insert_body(s, 0) }
    fn c13_insert_into_3 [unwind 6] (s) { insert_body(s, 3) }
    fn c13_lookup_in_2 [unwind 6] (s) { lookup_body(s, 2) }
    fn c13_lookup_in_3 [unwind 6] (s) { lookup_body(s, 3) }
    fn c13_remove_from_2 [unwind 6] (s) { remove_body(s, 2) }
    fn c13_remove_from_1 [unwind 6] (s) { remove_body(s, 1) }
    fn c13_remove_from_3 [unwind 6] (s) { remove_body(s, 3) }
    fn c13_eq_matches_model_2x2 [unwind 6] (s) { eq_model_body(s, 2, 2) }
    fn c13_eq_matches_model_1x2 [unwind 6] (s) { eq_model_body(s, 1, 2) }
    fn c13t_merge_1_and_2 [unwind 6] (s) { merge_body(s, 1, 2) }
    fn c13_merge_2_and_1 [unwind 6] (s) { merge_body(s, 2, 1) }
    fn c13t_insert_into_4 [unwind 7] (s) { insert_body(s, 4) }
    fn c13t_lookup_in_4 [unwind 7] (s) { lookup_body(s, 4) }
    fn c13t_eq_matches_model_3x3 [unwind 7] (s) { eq_model_body(s, 3, 3) }
    fn c13_eq_ignores_order [unwind 6] (s) { eq_order_body(s) }
}

    fn insert_body<S: crate::Src>(s: &mut S, n: u8) {
        let mut m = any_map(s, n);
        let k = Key(s.u8());
        let v = s.u8();
        let k2 = Key(s.u8());
        let existed = model_get(&m, &k);
        let before_k2 = model_get(&m, &k2);
        let len0 = m.len();
        let e0 = m.get_item(0).map(|e| e.0);
        let e1 = m.get_item(1).map(|e| e.0);
        let e2 = m.get_item(2).map(|e| e.0);
        let e3 = m.get_item(3).map(|e| e.0);
        let old = m.insert(k, v);
        cover!(n == 0 || existed.is_some(), "insert over an == key");
        cover!(existed.is_none() || n >= 4, "insert of a new key");  // keys are == modulo 4: a map of 4 holds every class
        check!(old == existed, "insert returns the previous value exactly when an == key existed");
        check!(m.len() == len0 + (existed.is_none() as usize), "insert grows the map only for a new key");
        check!(keys_pairwise_distinct(&m), "no two stored keys are ==");
        if k2 == k {
            check!(m.get(&k2) == Some(&v), "after insert, every == key reads the new value");
            check!(m.contains_key(&k2), "after insert, contains_key holds for every == key");
        } else {
            check!(m.get(&k2).copied() == before_k2, "insert leaves other entries unchanged");
        }
        // order: old entries keep their position and spelling, a new key goes last
        if let (Some(a), Some(b)) = (e0, m.get_item(0)) {
            check!(a == b.0 && a.0 == b.0 .0, "insert keeps the order and spelling of existing keys");
        }
        if let (Some(a), Some(b)) = (e1, m.get_item(1)) {
            check!(a == b.0 && a.0 == b.0 .0, "insert keeps the order and spelling of existing keys");
        }
        if let (Some(a), Some(b)) = (e2, m.get_item(2)) {
            check!(a == b.0 && a.0 == b.0 .0, "insert keeps the order and spelling of existing keys");
        }
        if let (Some(a), Some(b)) = (e3, m.get_item(3)) {
            check!(a == b.0 && a.0 == b.0 .0, "insert keeps the order and spelling of existing keys");
        }
        if existed.is_none() {
            if let Some(last) = m.get_item(m.len() - 1) {
                check!(last.0 == k && last.0 .0 == k.0 && last.1 == v, "a new key is appended last");
            }
        }
        std::mem::forget(m);
    }
    /// get / contains_key / get_mut agree with `==` lookup from any valid map.
    fn lookup_body<S: crate::Src>(s: &mut S, n: u8) {
        let mut m = any_map(s, n);
        let k = Key(s.u8());
        let want = model_get(&m, &k);
        cover!(want.is_some(), "hit");
        cover!(want.is_none() || n >= 4, "miss");  // (no miss possible in a map holding all 4 key classes)
        check!(m.get(&k).copied() == want, "get finds a key exactly when it is == to a stored key");
        check!(m.contains_key(&k) == want.is_some(), "contains_key agrees with ==");
        check!(m.get_mut(&k).map(|v| *v) == want, "get_mut agrees with ==");
    }
    /// remove: removes exactly the `==` entry, identity when absent.
    fn remove_body<S: crate::Src>(s: &mut S, n: u8) {
        let mut m = any_map(s, n);
        let k = Key(s.u8());
        let k2 = Key(s.u8());
        let existed = model_get(&m, &k);
        let before_k2 = model_get(&m, &k2);
        let len0 = m.len();
        let got = m.remove(&k);
        cover!(existed.is_some(), "removing a present key");
        cover!(existed.is_none(), "removing an absent key");
        check!(got == existed, "remove returns the value exactly when an == key existed");
        check!(m.len() + (existed.is_some() as usize) == len0, "remove shrinks the map only on a hit");
        check!(!m.contains_key(&k), "after remove no == key remains");
        if !(k2 == k) {
            check!(m.get(&k2).copied() == before_k2, "remove leaves other entries unchanged");
        }
        check!(keys_pairwise_distinct(&m), "no two stored keys are == (after remove)");
        std::mem::forget(m);
    }
    fn eq_order_body<S: crate::Src>(s: &mut S) {
        let (k1, v1, k2, v2) = (Key(s.u8()), s.u8(), Key(s.u8()), s.u8());
        s.assume(!(k1 == k2));
        // the same entries, different order, == but differently spelled keys
        let k1b = Key(s.u8());
        s.assume(k1b == k1);
        let mut a = Map::new();
        a.insert(k1, v1);
        a.insert(k2, v2);
        let mut b = Map::new();
        b.insert(k2, v2);
        b.insert(k1b, v1);
        cover!(k1.0 != k1b.0, "== keys with different spelling");
        check!(a == b, "maps with == keys and equal values are equal regardless of order");
        check!(b == a, "map equality is symmetric");
        // a differing value or a missing key breaks equality
        let v3 = s.u8();
        let mut c = b.clone();
        c.insert(k1, v3);
        check!((a == c) == (v3 == v1), "maps differing in a value are not equal");
        let mut d = Map::new();
        d.insert(k1, v1);
        check!(!(a == d) && !(d == a), "maps with different key sets are not equal");
        std::mem::forget((a, b, c, d));
    }
    /// Equality of two arbitrary valid maps is symmetric and agrees with the
    /// reference (same size, every entry of one found in the other).
    fn eq_model_body<S: crate::Src>(s: &mut S, na: u8, nb: u8) {
        let a = any_map(s, na);
        let b = any_map(s, nb);
        let mut want = a.len() == b.len();
        let mut i = 0;
        while i < a.len() {
            if let Some((k, v)) = a.get_item(i) {
                if model_get(&b, k) != Some(*v) {
                    want = false;
                }
            }
            i += 1;
        }
        cover!(na != nb || want, "equal maps");
        cover!(!want, "unequal maps");
        check!((a == b) == want, "map equality is set equality of key/value pairs under ==");
        check!((a == b) == (b == a), "map equality is symmetric (arbitrary maps)");
        std::mem::forget((a, b));
    }
    /// merge as used by map.merge (`for (k, v) in m2 { m1.insert(k, v) }`):
    /// m2's values win, m1's order first, then m2's new keys.
    fn merge_body<S: crate::Src>(s: &mut S, n1: u8, n2: u8) {
        let mut r = any_map(s, n1);
        let m2 = any_map(s, n2);
        let k = Key(s.u8());
        let in1 = model_get(&r, &k);
        let in2 = model_get(&m2, &k);
        let first1 = r.get_item(0).map(|e| e.0);
        let len1 = r.len();
        let want = match in2 {
            Some(v) => Some(v),
            None => in1,
        };
        // the body of map.merge: `for (k, v) in m2 { m1.insert(k, v) }`
        for (mk, mv) in m2 {
            r.insert(mk, mv);
        }
        cover!(in1.is_some() && in2.is_some(), "key in both maps");
        cover!(in1.is_none() && in2.is_some(), "key only in m2");
        check!(r.get(&k).copied() == want, "merge: m2's value wins, m1's value otherwise");
        if let (Some(a), Some(b)) = (first1, r.get_item(0)) {
            check!(a == b.0 && a.0 == b.0 .0, "merge keeps m1's key order (and spelling) first");
        }
        check!(r.len() >= len1 && r.len() <= len1 + (n2 as usize), "merge only adds m2's new keys");
        check!(keys_pairwise_distinct(&r), "merged map has no two == keys");
        std::mem::forget(r);
    }
