//! C31 — colour channels stay in range and conversions round-trip.
use crate::{check, cover, harnesses, known};
use rsass::value::{Color, Hsla, Hwba, RgbFormat, Rgba};

fn fmt_of(k: u8) -> RgbFormat {
    match k % 4 {
        0 => RgbFormat::LongHex,
        1 => RgbFormat::ShortHex,
        2 => RgbFormat::Name,
        _ => RgbFormat::Rgb,
    }
}

/// A byte triple on the 6-level lattice {0,51,..,255}^3 (216 colours: every
/// ordering and every tie pattern of the channels).  Proving a float round
/// trip costs CBMC about a second per colour, so wider lattices are only
/// used in the thorough tier (17-step lattice with the red channel split
/// over several harnesses would take hours; not attempted).
fn lattice3<S: crate::Src>(s: &mut S) -> (u8, u8, u8) {
    lattice(s, 51)
}
/// The 4-level lattice {0,85,170,255}^3 (64 colours).
fn lattice3_coarse<S: crate::Src>(s: &mut S) -> (u8, u8, u8) {
    lattice(s, 85)
}
/// The 3-level lattice {0,127,254}^3 (27 colours: still every ordering and tie pattern).
fn lattice3_tiny<S: crate::Src>(s: &mut S) -> (u8, u8, u8) {
    lattice(s, 127)
}
fn lattice<S: crate::Src>(s: &mut S, step: u8) -> (u8, u8, u8) {
    let (r, g, b) = (s.u8(), s.u8(), s.u8());
    s.assume(r % step == 0 && g % step == 0 && b % step == 0);
    (r, g, b)
}

fn near(a: f64, b: f64, tol: f64) -> bool {
    let d = a - b;
    d <= tol && -d <= tol
}

harnesses! {
    /// rgb()/rgba()/hex/names: red, green, blue in 0..=255 and alpha in 0..=1
    /// for ALL f64 arguments (including NaN and infinities).
    fn c31_rgba_new_in_range [unwind 2] (s) {
        let (r, g, b, a) = (s.f64(), s.f64(), s.f64(), s.f64());
        let c = Rgba::new(r, g, b, a, fmt_of(s.u8()));
        cover!(r > 255.0 && g < 0.0, "clamped both ways");
        cover!(r.is_nan(), "NaN channel");
        check!(c.red() >= 0.0 && c.red() <= 255.0, "red is within 0..255");
        check!(c.green() >= 0.0 && c.green() <= 255.0, "green is within 0..255");
        check!(c.blue() >= 0.0 && c.blue() <= 255.0, "blue is within 0..255");
        check!(c.alpha() >= 0.0 && c.alpha() <= 1.0, "alpha is within 0..1");
        if r >= 0.0 && r <= 255.0 {
            check!(c.red() == r, "an in-range red channel is kept exactly");
        }
        if a >= 0.0 && a <= 1.0 {
            check!(c.alpha() == a, "an in-range alpha is kept exactly");
        }
    }
    /// Byte constructors keep the bytes; `to_bytes` gives them back.
    fn c31_rgba_bytes_roundtrip [unwind 2] (s) {
        let (r, g, b, a) = (s.u8(), s.u8(), s.u8(), s.u8());
        let c = Rgba::from_rgba(r, g, b, a);
        cover!(a == 255, "opaque");
        check!(c.red() == f64::from(r) && c.green() == f64::from(g) && c.blue() == f64::from(b), "from_rgba keeps the bytes");
        check!(c.alpha() >= 0.0 && c.alpha() <= 1.0, "alpha byte maps into 0..1");
        check!(c.to_bytes() == (r, g, b, a), "to_bytes returns the constructor bytes");
        let o = Rgba::from_rgb(r, g, b);
        check!(o.try_bytes() == Some((r, g, b)), "an opaque byte colour reports its bytes");
        check!(o.alpha() == 1.0, "from_rgb is opaque");
    }
    /// hsl(): what the constructor is handed by `hsl()`/`hsla()` (saturation
    /// already floored at 0): in-range channels are kept exactly; alpha is
    /// clamped; hue in [0, 360).
    fn c31_hsla_new_keeps_channels [unwind 2] [stub_deg_mod] (s) {
        let (h, sat, l, a) = (s.finite(), s.num(), s.num(), s.num());
        s.assume(sat >= 0.0);
        let c = Hsla::new(h, sat, l, a, s.bool());
        cover!(sat == 1.0 && l == 0.0, "boundary channels");
        cover!(a > 1.0, "alpha above range");
        check!(c.hue() >= 0.0 && c.hue() < 360.0, "hue is within [0, 360)");
        check!(c.alpha() >= 0.0 && c.alpha() <= 1.0, "alpha is within 0..1 (hsl)");
        if sat <= 1.0 && l >= 0.0 && l <= 1.0 {
            check!(c.sat() == sat && c.lum() == l, "in-range saturation and lightness are kept exactly");
        }
        if a >= 0.0 && a <= 1.0 {
            check!(c.alpha() == a, "an in-range alpha is kept exactly (hsl)");
        }
    }
    /// hsl(): the reported saturation is within 0..100% (recorded finding:
    /// a saturation above 100% is kept).
    fn c31_hsla_saturation_in_range [unwind 2] [stub_deg_mod] (s) {
        let (h, sat, l, a) = (s.finite(), s.num(), s.num(), s.num());
        s.assume(sat >= 0.0);
        known!(s, "C31-hsl-saturation-lightness-unclamped", sat > 1.0);
        let c = Hsla::new(h, sat, l, a, true);
        cover!(sat == 1.0, "boundary");
        check!(c.sat() >= 0.0 && c.sat() <= 1.0, "saturation is within 0..100%");
    }
    /// hsl(): the reported lightness is within 0..100% (recorded finding:
    /// a lightness outside that range is kept).
    fn c31_hsla_lightness_in_range [unwind 2] [stub_deg_mod] (s) {
        let (h, sat, l, a) = (s.finite(), s.num(), s.num(), s.num());
        s.assume(sat >= 0.0);
        known!(s, "C31-hsl-saturation-lightness-unclamped", l < 0.0 || l > 1.0);
        let c = Hsla::new(h, sat, l, a, true);
        cover!(l == 0.0, "boundary");
        check!(c.lum() >= 0.0 && c.lum() <= 1.0, "lightness is within 0..100%");
    }
    /// hwb(): whiteness and blackness are reported within 0..100% and sum to
    /// at most 100%; alpha is clamped.  Inputs: multiples of 1/16 in [0, 4].
    fn c31_hwba_new_ranges [unwind 2] (s) {
        let (wi, bi) = (s.i8(), s.i8());
        s.assume(wi >= 0 && wi <= 64 && bi >= 0 && bi <= 64);
        let (w, b) = (f64::from(wi) / 16.0, f64::from(bi) / 16.0);
        let (h, a) = (s.finite(), s.num());
        let c = Hwba::new(h, w, b, a);
        cover!(w + b > 1.0, "normalised");
        cover!(w + b <= 1.0 && w > 0.0, "kept");
        check!(c.whiteness() >= 0.0 && c.whiteness() <= 1.0, "whiteness is within 0..100% (non-negative input)");
        check!(c.blackness() >= 0.0 && c.blackness() <= 1.0, "blackness is within 0..100% (non-negative input)");
        check!(c.whiteness() + c.blackness() <= 1.0 + 1e-12, "whiteness + blackness is at most 100%");
        check!(c.alpha() >= 0.0 && c.alpha() <= 1.0, "alpha is within 0..1 (hwb)");
        if w + b <= 1.0 {
            check!(c.whiteness() == w && c.blackness() == b, "in-range whiteness and blackness are kept exactly");
        }
    }
    /// hwb(): also for negative inputs the reported whiteness is within
    /// 0..100% (recorded finding: a negative whiteness is kept).
    fn c31_hwba_whiteness_in_range [unwind 2] (s) {
        let (wi, bi) = (s.i8(), s.i8());
        s.assume(wi >= -16 && wi <= 64 && bi >= 0 && bi <= 64);
        let (w, b) = (f64::from(wi) / 16.0, f64::from(bi) / 16.0);
        known!(s, "C31-hwb-negative-whiteness-blackness", w < 0.0);
        let c = Hwba::new(0.0, w, b, 1.0);
        cover!(w > 1.0, "above range");
        check!(c.whiteness() >= 0.0 && c.whiteness() <= 1.0, "whiteness is within 0..100%");
    }
    /// The same for blackness.
    fn c31_hwba_blackness_in_range [unwind 2] (s) {
        let (wi, bi) = (s.i8(), s.i8());
        s.assume(wi >= 0 && wi <= 64 && bi >= -16 && bi <= 64);
        let (w, b) = (f64::from(wi) / 16.0, f64::from(bi) / 16.0);
        known!(s, "C31-hwb-negative-whiteness-blackness", b < 0.0);
        let c = Hwba::new(0.0, w, b, 1.0);
        cover!(b > 1.0, "above range");
        check!(c.blackness() >= 0.0 && c.blackness() <= 1.0, "blackness is within 0..100%");
    }
    /// EVERY rgb byte colour (2^24) reports hsl channels in range (saturation
    /// to the output precision).
    fn c31_rgb_reports_hsl_in_range [unwind 2] [stub_deg_mod] (s) {
        let (r, g, b) = (s.u8(), s.u8(), s.u8());
        let h = Hsla::from(&Rgba::from_rgb(r, g, b));
        cover!(r == g && g > b, "two largest channels tie");
        check!(h.hue() >= 0.0 && h.hue() < 360.0, "hue of an rgb colour is within [0, 360)");
        check!(h.sat() >= 0.0 && h.sat() <= 1.0 + 1e-12, "saturation of an rgb colour is within 0..100%");
        check!(h.lum() >= 0.0 && h.lum() <= 1.0, "lightness of an rgb colour is within 0..100%");
        check!(h.alpha() == 1.0, "an opaque colour stays opaque");
    }
    /// EVERY rgb byte colour: lightness is (max + min) / 2 of the channels.
    fn c31_rgb_lightness_formula [unwind 2] [stub_deg_mod] (s) {
        let (r, g, b) = (s.u8(), s.u8(), s.u8());
        let h = Hsla::from(&Rgba::from_rgb(r, g, b));
        let mx = r.max(g).max(b);
        let mn = r.min(g).min(b);
        let want = f64::from(u16::from(mx) + u16::from(mn)) / 510.0;
        cover!(r == g && g > b, "two largest channels tie");
        check!(near(h.lum(), want, 1e-12), "lightness is (max + min) / 2");
        check!((h.sat() == 0.0) == (mx == mn), "saturation is zero exactly for greys");
    }
    /// EVERY rgb byte colour: the hue lies in the 60 degree sector(s) that the
    /// ordering of the channels prescribes.
    fn c31t_rgb_hue_sector [unwind 2] [stub_deg_mod] (s) {
        let (r, g, b) = (s.u8(), s.u8(), s.u8());
        s.assume(!(r == g && g == b));
        let hue = Hsla::from(&Rgba::from_rgb(r, g, b)).hue();
        cover!(r == g && g > b, "yellowish tie");
        cover!(b > r && r > g, "blue largest");
        let t = 1e-9;
        if r >= g && g >= b { check!(hue >= 0.0 && hue <= 60.0 + t, "r >= g >= b gives a hue in [0, 60]"); }
        if g >= r && r >= b { check!(hue >= 60.0 - t && hue <= 120.0 + t, "g >= r >= b gives a hue in [60, 120]"); }
        if g >= b && b >= r { check!(hue >= 120.0 - t && hue <= 180.0 + t, "g >= b >= r gives a hue in [120, 180]"); }
        if b >= g && g >= r { check!(hue >= 180.0 - t && hue <= 240.0 + t, "b >= g >= r gives a hue in [180, 240]"); }
        if b >= r && r >= g { check!(hue >= 240.0 - t && hue <= 300.0 + t, "b >= r >= g gives a hue in [240, 300]"); }
        if r >= b && b > g { check!(hue >= 300.0 - t && hue < 360.0, "r >= b > g gives a hue in [300, 360)"); }
    }
    /// EVERY rgb byte colour: whiteness is min/255 and blackness 1 - max/255.
    fn c31_rgb_hwb_formula [unwind 2] [stub_deg_mod] (s) {
        let (r, g, b) = (s.u8(), s.u8(), s.u8());
        let h = Hwba::from(&Rgba::from_rgb(r, g, b));
        let mx = r.max(g).max(b);
        let mn = r.min(g).min(b);
        cover!(mx > mn, "non-grey");
        check!(near(h.whiteness(), f64::from(mn) / 255.0, 1e-12), "whiteness is the smallest channel");
        check!(near(h.blackness(), 1.0 - f64::from(mx) / 255.0, 1e-12), "blackness is one minus the largest channel");
        check!(h.whiteness() >= 0.0 && h.blackness() >= 0.0 && h.whiteness() + h.blackness() <= 1.0 + 1e-12, "whiteness and blackness of an rgb colour are in range");
    }
    /// Rebuilding a colour from its own hsl channels gives the same colour
    /// (4-level lattice: every ordering and tie pattern of the channels).
    fn c31_rgb_hsl_rgb_roundtrip [unwind 2] [stub_deg_mod] (s) {
        let (r, g, b) = lattice3_coarse(s);
        let c = Rgba::from_rgb(r, g, b);
        let h = Hsla::from(&c);
        cover!(r == g && g > b, "two largest channels tie");
        cover!(r > g && g > b, "three distinct channels");
        let back = Rgba::from(&Hsla::new(h.hue(), h.sat(), h.lum(), h.alpha(), true));
        check!(near(back.red(), c.red(), 1e-7), "red survives rgb -> hsl -> rgb");
        check!(near(back.green(), c.green(), 1e-7), "green survives rgb -> hsl -> rgb");
        check!(near(back.blue(), c.blue(), 1e-7), "blue survives rgb -> hsl -> rgb");
        check!(back.alpha() == 1.0, "alpha survives rgb -> hsl -> rgb");
    }
    /// Rebuilding a colour from its own hsl channels gives the same colour
    /// (6-level lattice: every ordering and tie pattern of the channels).
    fn c31t_rgb_hsl_rgb_roundtrip_fine [unwind 2] [stub_deg_mod] (s) {
        let (r, g, b) = lattice3(s);
        let c = Rgba::from_rgb(r, g, b);
        let h = Hsla::from(&c);
        cover!(r == g && g > b, "two largest channels tie");
        cover!(r > g && g > b, "three distinct channels");
        let back = Rgba::from(&Hsla::new(h.hue(), h.sat(), h.lum(), h.alpha(), true));
        check!(near(back.red(), c.red(), 1e-7), "red survives rgb -> hsl -> rgb");
        check!(near(back.green(), c.green(), 1e-7), "green survives rgb -> hsl -> rgb");
        check!(near(back.blue(), c.blue(), 1e-7), "blue survives rgb -> hsl -> rgb");
        check!(back.alpha() == 1.0, "alpha survives rgb -> hsl -> rgb");
    }
    /// The same through hwb (3-level lattice).
    fn c31_rgb_hwb_rgb_roundtrip [unwind 2] [stub_deg_mod] (s) {
        let (r, g, b) = lattice3_tiny(s);
        let c = Rgba::from_rgb(r, g, b);
        let h = Hwba::from(&c);
        cover!(r == g && g > b, "two largest channels tie");
        let back = Rgba::from(&Hwba::new(h.hue(), h.whiteness(), h.blackness(), h.alpha()));
        check!(near(back.red(), c.red(), 1e-7), "red survives rgb -> hwb -> rgb");
        check!(near(back.green(), c.green(), 1e-7), "green survives rgb -> hwb -> rgb");
        check!(near(back.blue(), c.blue(), 1e-7), "blue survives rgb -> hwb -> rgb");
    }
    /// Through hwb on the 6-level lattice (thorough tier).
    fn c31t_rgb_hwb_rgb_roundtrip_fine [unwind 2] [stub_deg_mod] (s) {
        let (r, g, b) = lattice3(s);
        let c = Rgba::from_rgb(r, g, b);
        let h = Hwba::from(&c);
        cover!(r == g && g > b, "two largest channels tie");
        let back = Rgba::from(&Hwba::new(h.hue(), h.whiteness(), h.blackness(), h.alpha()));
        check!(near(back.red(), c.red(), 1e-7), "red survives rgb -> hwb -> rgb");
        check!(near(back.green(), c.green(), 1e-7), "green survives rgb -> hwb -> rgb");
        check!(near(back.blue(), c.blue(), 1e-7), "blue survives rgb -> hwb -> rgb");
    }
    /// Two colours with the same rgba channels compare equal whichever
    /// notation carries them (hex, rgb(), hsl), lattice colours.
    fn c31_same_rgba_equal_across_notations [unwind 2] [stub_deg_mod] (s) {
        let (r, g, b) = lattice3_tiny(s);
        let c = Rgba::from_rgb(r, g, b);
        let as_rgb = Color::Rgba(Rgba::new(c.red(), c.green(), c.blue(), 1.0, RgbFormat::Rgb));
        let as_hsl = Color::Hsla(Hsla::from(&c));
        let as_hex = Color::Rgba(c);
        cover!(r > g, "ordered channels");
        check!(as_hex == as_rgb, "hex and rgb() notations of the same channels are equal");
        check!(as_hex == as_hsl, "the hsl notation of a colour equals it");
        check!(as_hsl == as_hex, "and the other way round");
    }
    /// Two colours with the same rgba channels compare equal whichever
    /// notation carries them (hex, rgb(), hsl), lattice colours.
    fn c31t_same_rgba_equal_across_notations_fine [unwind 2] [stub_deg_mod] (s) {
        let (r, g, b) = lattice3(s);
        let c = Rgba::from_rgb(r, g, b);
        let as_rgb = Color::Rgba(Rgba::new(c.red(), c.green(), c.blue(), 1.0, RgbFormat::Rgb));
        let as_hsl = Color::Hsla(Hsla::from(&c));
        let as_hex = Color::Rgba(c);
        cover!(r > g, "ordered channels");
        check!(as_hex == as_rgb, "hex and rgb() notations of the same channels are equal");
        check!(as_hex == as_hsl, "the hsl notation of a colour equals it");
        check!(as_hsl == as_hex, "and the other way round");
    }
}
