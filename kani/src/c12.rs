//! C12 — equality is symmetric and consistent with ordering.
use crate::oracle::unit;
use crate::{check, cover, harnesses};
use rsass::value::{Color, Number, Numeric, RgbFormat, Rgba};
use std::cmp::Ordering;

fn fmt_of(k: u8) -> RgbFormat {
    match k % 4 {
        0 => RgbFormat::LongHex,
        1 => RgbFormat::ShortHex,
        2 => RgbFormat::Name,
        _ => RgbFormat::Rgb,
    }
}

harnesses! {
    /// `Number == Number` is symmetric for all non-NaN doubles.
    fn c12_number_eq_symmetric [unwind 2] (s) {
        let x = s.num();
        let y = s.num();
        let a = Number::from(x);
        let b = Number::from(y);
        cover!(x != y && a == b, "distinct doubles that compare equal");
        cover!(a != b, "unequal");
        check!((a == b) == (b == a), "Number == is symmetric");
    }
    /// Every non-NaN number equals itself.
    fn c12_number_eq_reflexive [unwind 2] (s) {
        let x = s.num();
        let a = Number::from(x);
        let b = Number::from(x);
        cover!(x == 0.0, "zero");
        cover!(x.is_infinite(), "infinite");
        check!(a == b, "Number == is reflexive (non-NaN)");
    }
    /// Exactly one of <, ==, > holds for non-NaN numbers: the ordering is
    /// total, antisymmetric, and `==` is exactly its `Equal` case.
    fn c12_number_trichotomy [unwind 2] (s) {
        let x = s.num();
        let y = s.num();
        let a = Number::from(x);
        let b = Number::from(y);
        let ab = a.partial_cmp(&b);
        let ba = b.partial_cmp(&a);
        let eq = a == b;
        cover!(ab == Some(Ordering::Less), "less");
        cover!(eq && x != y, "equal but distinct");
        check!(ab.is_some(), "non-NaN numbers always compare");
        check!(eq == (ab == Some(Ordering::Equal)), "== holds exactly when neither < nor > does");
        check!(ab == ba.map(Ordering::reverse), "partial_cmp is antisymmetric");
    }
    /// The comparison operators are the ones derived from `partial_cmp`, and
    /// `!=` negates `==` (cheap structural link used by the harness above).
    fn c12t_number_operators_follow_partial_cmp [unwind 2] (s) {
        let x = s.num();
        let y = s.num();
        let a = Number::from(x);
        let b = Number::from(y);
        let ab = a.partial_cmp(&b);
        cover!(a < b, "less");
        check!((a < b) == (ab == Some(Ordering::Less)), "< is partial_cmp == Less");
        check!((a > b) == (ab == Some(Ordering::Greater)), "> is partial_cmp == Greater");
        check!((a != b) == !(a == b), "!= is the negation of ==");
    }
    /// Equality never contradicts a clear ordering: a positive number is not
    /// equal to one at least twice as large, nor to one of the opposite sign.
    fn c12_number_eq_is_tight [unwind 2] (s) {
        let x = s.num();
        let y = s.num();
        let a = Number::from(x);
        let b = Number::from(y);
        cover!(x > 0.0 && y > 0.0 && x.is_finite() && x >= y + y, "at least twice as large");
        if x > 0.0 && y > 0.0 && x.is_finite() && x >= y + y {
            check!(a != b, "a positive number does not equal one twice as large");
            check!(a > b, "and is greater than it");
        }
        if (x < 0.0) != (y < 0.0) && x != 0.0 && y != 0.0 {
            check!(a != b, "numbers of opposite sign are not equal");
        }
    }
    /// Two numbers with the same (named) unit: symmetric, reflexive, trichotomy.
    fn c12_numeric_same_unit [unwind 4] (s) {
        let x = s.num();
        let y = s.num();
        let a = Numeric::new(x, unit(14));
        let b = Numeric::new(y, unit(14));
        let a2 = Numeric::new(x, unit(14));
        let lt = a < b;
        let eq = a == b;
        let gt = a > b;
        cover!(lt, "less");
        cover!(eq && x != y, "equal but distinct");
        check!(eq == (b == a), "Numeric == is symmetric (same unit)");
        check!(a == a2, "Numeric == is reflexive (non-NaN)");
        check!((lt as u8) + (eq as u8) + (gt as u8) == 1, "exactly one of < == > holds (same unit)");
        check!((a != b) == !eq, "Numeric != is the negation of ==");
        std::mem::forget((a, b, a2));
    }
    /// A unitless and a united number are never equal, in either order, and
    /// their ordering is antisymmetric.
    fn c12_numeric_unitless_vs_unit [unwind 4] (s) {
        let x = s.num();
        let y = s.num();
        let a = Numeric::scalar(x);
        let b = Numeric::new(y, unit(14));
        cover!(x == y, "equal magnitudes");
        check!(!(a == b) && !(b == a), "unitless never equals united, either way round");
        check!(a.partial_cmp(&b) == b.partial_cmp(&a).map(Ordering::reverse), "ordering unitless/united is antisymmetric");
        check!(a.partial_cmp(&b).is_some(), "unitless and united numbers compare");
        std::mem::forget((a, b));
    }
    /// Rgba colours: `==` is symmetric and the ordering antisymmetric; two
    /// channels differ freely (all non-NaN values), the other two are shared.
    fn c12_rgba_eq_symmetric [unwind 2] (s) {
        let (g, b) = (s.num(), s.num());
        let c1 = Color::Rgba(Rgba::new(s.num(), g, b, s.num(), fmt_of(s.u8())));
        let c2 = Color::Rgba(Rgba::new(s.num(), g, b, s.num(), fmt_of(s.u8())));
        let e12 = c1 == c2;
        cover!(e12, "equal");
        cover!(!e12, "unequal");
        check!(e12 == (c2 == c1), "Color == is symmetric (rgba)");
        check!(c1.cmp(&c2) == c2.cmp(&c1).reverse(), "Color ordering is antisymmetric (rgba)");
    }
    /// All four channels differ freely (thorough tier: 6 minutes).
    fn c12t_rgba_eq_symmetric_all_channels [unwind 2] (s) {
        let c1 = Color::Rgba(Rgba::new(s.num(), s.num(), s.num(), s.num(), fmt_of(s.u8())));
        let c2 = Color::Rgba(Rgba::new(s.num(), s.num(), s.num(), s.num(), fmt_of(s.u8())));
        let e12 = c1 == c2;
        cover!(e12, "equal");
        cover!(!e12, "unequal");
        check!(e12 == (c2 == c1), "Color == is symmetric (rgba)");
        check!(c1.cmp(&c2) == c2.cmp(&c1).reverse(), "Color ordering is antisymmetric (rgba)");
    }
    /// Same rgba channels compare equal whatever notation flag they carry;
    /// every non-NaN colour equals itself; `!=` negates `==`.
    fn c12_rgba_eq_ignores_notation [unwind 2] (s) {
        let (r, g, b, a) = (s.num(), s.num(), s.num(), s.num());
        let c1 = Color::Rgba(Rgba::new(r, g, b, a, fmt_of(s.u8())));
        let c2 = Color::Rgba(Rgba::new(r, g, b, a, fmt_of(s.u8())));
        cover!(r > 255.0, "clamped channel");
        check!(c1 == c2, "same rgba channels are equal whatever notation flag they carry");
        check!(!(c1 != c2), "!= is the negation of == (rgba)");
    }
}
