//! C12 — equality is symmetric and consistent with ordering.
use crate::{check, cover, harnesses};
use rsass::value::Number;
use std::cmp::Ordering;

harnesses! {
    /// `Number == Number` is symmetric for all non-NaN doubles.
    fn c12_number_eq_symmetric [unwind 2] (s) {
        let x = s.num();
        let y = s.num();
        let a = Number::from(x);
        let b = Number::from(y);
        cover!(x != y && a == b, "distinct doubles that compare equal");
        check!((a == b) == (b == a), "Number == is symmetric");
    }
    /// Every non-NaN number equals itself.
    fn c12_number_eq_reflexive [unwind 2] (s) {
        let x = s.num();
        let a = Number::from(x);
        let b = Number::from(x);
        cover!(x == 0.0, "zero");
        cover!(x.is_infinite(), "infinite");
        check!(a == b, "Number == is reflexive (non-NaN)");
    }
    /// Exactly one of <, ==, > holds for non-NaN numbers.
    fn c12_number_trichotomy [unwind 2] (s) {
        let x = s.num();
        let y = s.num();
        let a = Number::from(x);
        let b = Number::from(y);
        let lt = a < b;
        let eq = a == b;
        let gt = a > b;
        cover!(lt, "less");
        cover!(eq && x != y, "equal but distinct");
        check!((lt as u8) + (eq as u8) + (gt as u8) == 1, "exactly one of < == > holds");
        check!(a.partial_cmp(&b) == b.partial_cmp(&a).map(Ordering::reverse), "partial_cmp is antisymmetric");
        check!((a != b) == !eq, "!= is the negation of ==");
    }
}
