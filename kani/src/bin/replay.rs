//! Native replay of solver counterexamples against the real rsass build.
//!
//! usage: replay <harness> <hex>,<hex>,...   (one hex string per kani::any() call)
//! prints one JSON line: {"harness":..,"outcome":"pass|fail|assume_failed","message":..}
//! exit code 0 in all three cases, 3 for usage errors.
use rsass_verif_harness::{registry, src::AssumeFailed, ByteSrc};
use std::panic;

fn unhex(s: &str) -> Vec<u8> {
    (0..s.len() / 2)
        .map(|i| u8::from_str_radix(&s[2 * i..2 * i + 2], 16).unwrap_or(0))
        .collect()
}

fn esc(s: &str) -> String {
    let mut o = String::new();
    for c in s.chars() {
        match c {
            '"' => o.push_str("\\\""),
            '\\' => o.push_str("\\\\"),
            '\n' => o.push_str("\\n"),
            c if (c as u32) < 0x20 => o.push_str(&format!("\\u{:04x}", c as u32)),
            c => o.push(c),
        }
    }
    o
}

fn main() {
    let args: Vec<String> = std::env::args().collect();
    if args.len() == 2 && args[1] == "--list" {
        for (n, _) in registry() {
            println!("{n}");
        }
        return;
    }
    if args.len() == 3 && (args[1] == "--scss" || args[1] == "--scss-compressed") {
        // compile a stylesheet through the public API; report output, error or panic
        let style = if args[1] == "--scss" {
            rsass::output::Style::Expanded
        } else {
            rsass::output::Style::Compressed
        };
        let format = rsass::output::Format { style, precision: 10 };
        let src = args[2].clone();
        panic::set_hook(Box::new(|_| {}));
        let res = panic::catch_unwind(move || {
            rsass::compile_scss(src.as_bytes(), format)
                .map(|v| String::from_utf8_lossy(&v).into_owned())
                .map_err(|e| format!("{e:?}"))
        });
        let (outcome, msg) = match res {
            Ok(Ok(css)) => ("ok", css),
            Ok(Err(e)) => ("error", e),
            Err(e) => (
                "panic",
                e.downcast_ref::<String>()
                    .cloned()
                    .or_else(|| e.downcast_ref::<&str>().map(|s| (*s).to_string()))
                    .unwrap_or_default(),
            ),
        };
        println!("{{\"outcome\":\"{}\",\"message\":\"{}\"}}", outcome, esc(&msg));
        return;
    }
    if args.len() == 3 && (args[1] == "--scss-file" || args[1] == "--scss-file-compressed") {
        // compile a stylesheet from disk (loads of other files go through the real FsLoader)
        let style = if args[1] == "--scss-file" { rsass::output::Style::Expanded } else { rsass::output::Style::Compressed };
        let format = rsass::output::Format { style, precision: 10 };
        let path = std::path::PathBuf::from(&args[2]);
        panic::set_hook(Box::new(|_| {}));
        let res = panic::catch_unwind(move || {
            rsass::compile_scss_path(&path, format)
                .map(|v| String::from_utf8_lossy(&v).into_owned())
                .map_err(|e| format!("{e:?}"))
        });
        let (outcome, msg) = match res {
            Ok(Ok(css)) => ("ok", css),
            Ok(Err(e)) => ("error", e),
            Err(_) => ("panic", String::new()),
        };
        println!("{{\"outcome\":\"{}\",\"message\":\"{}\"}}", outcome, esc(&msg));
        return;
    }
    if args.len() == 6 && args[1] == "--api" {
        // one library entry point with an explicit format: --api <value|scss|path|transform> <expanded|compressed> <precision> <arg>
        use rsass::input::{FsContext, SourceFile, SourceName};
        let style = if args[3] == "compressed" { rsass::output::Style::Compressed } else { rsass::output::Style::Expanded };
        let format = rsass::output::Format { style, precision: args[4].parse().unwrap_or(10) };
        let entry = args[2].clone();
        let arg = args[5].clone();
        panic::set_hook(Box::new(|_| {}));
        let res = panic::catch_unwind(move || {
            let r = match entry.as_str() {
                "value" => rsass::compile_value(arg.as_bytes(), format),
                "scss" => rsass::compile_scss(arg.as_bytes(), format),
                "path" => rsass::compile_scss_path(std::path::Path::new(&arg), format),
                _ => FsContext::for_cwd()
                    .with_format(format)
                    .transform(SourceFile::scss_bytes(arg.as_bytes(), SourceName::root("-"))),
            };
            r.map(|v| String::from_utf8_lossy(&v).into_owned()).map_err(|e| format!("{e:?}"))
        });
        let (outcome, msg) = match res {
            Ok(Ok(css)) => ("ok", css),
            Ok(Err(e)) => ("error", e),
            Err(_) => ("panic", String::new()),
        };
        println!("{{\"outcome\":\"{}\",\"message\":\"{}\"}}", outcome, esc(&msg));
        return;
    }
    if args.len() == 3 && args[1] == "--scss-threads" {
        // compile the same stylesheet on the main thread and on two further threads, one after the other;
        // prints the three outputs separated by U+0001
        let src = args[2].clone();
        let one = |s: String| rsass::compile_scss(s.as_bytes(), Default::default()).map(|v| String::from_utf8_lossy(&v).into_owned()).unwrap_or_else(|e| format!("<error {e:?}>"));
        let a = one(src.clone());
        let s1 = src.clone();
        let b = std::thread::spawn(move || one(s1)).join().unwrap_or_else(|_| "<panic>".into());
        let s2 = src.clone();
        let c = std::thread::spawn(move || one(s2)).join().unwrap_or_else(|_| "<panic>".into());
        println!("{{\"outcome\":\"ok\",\"message\":\"{}\"}}", esc(&format!("{a}\u{1}{b}\u{1}{c}")));
        return;
    }
    if args.len() == 5 && (args[1] == "--scss-fail-lookup" || args[1] == "--scss-fail-read") {
        // compile <dir>/<entry> through a loader over <dir> whose k-th find_file call fails
        // (--scss-fail-read: the k-th file that is *found* fails when it is read)
        use rsass::input::{Context, LoadError, Loader, SourceFile, SourceName};
        use std::cell::Cell;
        #[derive(Debug)]
        struct Flaky {
            dir: std::path::PathBuf,
            calls: Cell<usize>,
            fail_at: usize,
            found: Cell<usize>,
            fail_read_at: usize,
        }
        struct FlakyFile(std::fs::File, bool);
        impl std::io::Read for FlakyFile {
            fn read(&mut self, buf: &mut [u8]) -> std::io::Result<usize> {
                if self.1 {
                    return Err(std::io::Error::new(std::io::ErrorKind::PermissionDenied, "injected read failure"));
                }
                self.0.read(buf)
            }
        }
        impl Loader for Flaky {
            type File = FlakyFile;
            fn find_file(&self, url: &str) -> Result<Option<Self::File>, LoadError> {
                let n = self.calls.get();
                self.calls.set(n + 1);
                if n == self.fail_at {
                    return Err(LoadError::Input(
                        url.to_string(),
                        std::io::Error::new(std::io::ErrorKind::PermissionDenied, "injected lookup failure"),
                    ));
                }
                let full = self.dir.join(url);
                if full.is_file() {
                    let k = self.found.get();
                    self.found.set(k + 1);
                    std::fs::File::open(&full)
                        .map(|f| Some(FlakyFile(f, k == self.fail_read_at)))
                        .map_err(|e| LoadError::Input(url.to_string(), e))
                } else {
                    Ok(None)
                }
            }
        }
        let dir = std::path::PathBuf::from(&args[2]);
        let entry = args[3].clone();
        let k: usize = args[4].parse().unwrap_or(usize::MAX);
        let (fail_at, fail_read_at) = if args[1] == "--scss-fail-read" { (usize::MAX, k) } else { (k, usize::MAX) };
        panic::set_hook(Box::new(|_| {}));
        let res = panic::catch_unwind(move || {
            let data = std::fs::read(dir.join(&entry)).map_err(|e| format!("{e:?}"))?;
            let loader = Flaky { dir, calls: Cell::new(0), fail_at, found: Cell::new(0), fail_read_at };
            let file = SourceFile::scss_bytes(data, SourceName::root(entry));
            let ctx = Context::for_loader(loader);
            ctx.transform(file)
                .map(|v| String::from_utf8_lossy(&v).into_owned())
                .map_err(|e| format!("{e:?}"))
        });
        let (outcome, msg) = match res {
            Ok(Ok(css)) => ("ok", css),
            Ok(Err(e)) => ("error", e),
            Err(_) => ("panic", String::new()),
        };
        println!("{{\"outcome\":\"{}\",\"message\":\"{}\"}}", outcome, esc(&msg));
        return;
    }
    if args.len() < 2 {
        eprintln!("usage: replay <harness> [hex,hex,...]");
        std::process::exit(3);
    }
    let name = &args[1];
    let vals: Vec<Vec<u8>> = args
        .get(2)
        .map(|a| a.split(',').filter(|p| !p.is_empty()).map(unhex).collect())
        .unwrap_or_default();
    let Some((_, f)) = registry().into_iter().find(|(n, _)| n == name) else {
        eprintln!("unknown harness {name}");
        std::process::exit(3);
    };
    panic::set_hook(Box::new(|_| {}));
    let res = panic::catch_unwind(move || {
        let mut src = ByteSrc::new(vals);
        f(&mut src);
    });
    let failed = rsass_verif_harness::src::take_failures();
    let (mut outcome, msg) = match res {
        Ok(()) => ("pass", String::new()),
        Err(e) => {
            if e.downcast_ref::<AssumeFailed>().is_some() {
                ("assume_failed", String::new())
            } else if let Some(s) = e.downcast_ref::<String>() {
                ("fail", s.clone())
            } else if let Some(s) = e.downcast_ref::<&str>() {
                ("fail", (*s).to_string())
            } else {
                ("fail", "panic".to_string())
            }
        }
    };
    if outcome == "pass" && !failed.is_empty() {
        outcome = "fail";
    }
    let labels: Vec<String> = failed.iter().map(|l| format!("\"{}\"", esc(l))).collect();
    println!(
        "{{\"harness\":\"{}\",\"outcome\":\"{}\",\"message\":\"{}\",\"failed_labels\":[{}]}}",
        esc(name),
        outcome,
        esc(&msg),
        labels.join(",")
    );
}
