//! C14 — truthiness (E1 part): `is_true` of both value types.
use crate::{check, cover, harnesses};
use rsass::css::{CssString, Value};
use rsass::value::{ListSeparator, Numeric, Operator, Quotes, Rgba};

/// One representative of every `css::Value` kind; `x` feeds the numeric ones.
fn css_value(k: u8, x: f64) -> Value {
    match k {
        0 => Value::True,
        1 => Value::False,
        2 => Value::Null,
        3 => Value::scalar(0),
        4 => Value::scalar(x),
        5 => Value::Numeric(Numeric::scalar(f64::NAN), false),
        6 => Value::Literal(CssString::new(String::new(), Quotes::Double)),
        7 => Value::Literal(CssString::new(String::new(), Quotes::None)),
        8 => Value::Literal(CssString::new(String::from("false"), Quotes::None)),
        9 => Value::List(Vec::new(), None, false),
        10 => Value::List(Vec::new(), Some(ListSeparator::Comma), true),
        11 => Value::List(vec![Value::Null], Some(ListSeparator::Space), false),
        12 => Value::Color(Rgba::from_rgb(0, 0, 0).into(), None),
        13 => Value::Bang(String::from("important")),
        14 => Value::UnicodeRange(String::from("U+0")),
        15 => Value::Paren(Box::new(Value::Null)),
        16 => Value::UnaryOp(Operator::Not, Box::new(Value::False)),
        _ => Value::Function(String::from("f"), None),
    }
}
pub const N_CSS_KINDS: u8 = 18;

fn sass_value(k: u8, x: f64) -> rsass::sass::Value {
    use rsass::sass::Value as V;
    match k {
        0 => V::True,
        1 => V::False,
        2 => V::Null,
        3 => V::scalar(0),
        4 => V::scalar(x),
        5 => V::List(Vec::new(), None, false),
        6 => V::Map(Vec::new()),
        7 => V::Paren(Box::new(V::Null), false),
        8 => V::HereSelector,
        9 => V::UnicodeRange(String::from("U+0")),
        10 => V::Bang(String::from("important")),
        11 => V::Color(Rgba::from_rgb(0, 0, 0), None),
        _ => V::UnaryOp(Operator::Not, Box::new(V::Null)),
    }
}
pub const N_SASS_KINDS: u8 = 13;

harnesses! {
    /// `css::Value::is_true`: exactly `false` and `null` are falsy — 0, NaN,
    /// empty strings, empty lists and maps are truthy.
    fn c14_css_value_truthiness [unwind 4] (s) {
        let k = s.below(N_CSS_KINDS);
        let x = s.f64();
        let v = css_value(k, x);
        cover!(k == 3, "zero");
        cover!(k == 9, "empty list");
        cover!(k == 2, "null");
        check!(v.is_true() == !(k == 1 || k == 2), "a value is falsy exactly when it is false or null");
        std::mem::forget(v);
    }
    /// The same for unevaluated `sass::Value`s.
    fn c14_sass_value_truthiness [unwind 4] (s) {
        let k = s.below(N_SASS_KINDS);
        let x = s.f64();
        let v = sass_value(k, x);
        cover!(k == 6, "empty map");
        cover!(k == 1, "false");
        check!(v.is_true() == !(k == 1 || k == 2), "a source value is falsy exactly when it is false or null");
        std::mem::forget(v);
    }
}
