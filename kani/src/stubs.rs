//! Stubs used for the Kani run only.  Each is part of the claim and is
//! discharged elsewhere (see DESIGN 2.3 and the evidence `stubs` list).

/// Exact piecewise definition of `rsass::value::colors::hsla::deg_mod` on
/// [-360, 720] without the float `%` operator (which Kani/CBMC models
/// nondeterministically); outside that range: an arbitrary value in [0, 360).
///
/// E2 (mirsym + cvc5, exact `fp.rem`) proves, from the MIR of the real
/// `deg_mod`, that it is bit-equal to this definition on [-360, 720] and
/// returns a value in [0, 360) for every other finite input.
#[cfg(kani)]
pub fn deg_mod_exact(v: f64) -> f64 {
    if v >= 0.0 && v < 360.0 {
        // also maps -0.0 to +0.0, like the real code's `.abs()`
        if v == 0.0 {
            0.0
        } else {
            v
        }
    } else if v >= 360.0 && v <= 720.0 {
        if v == 720.0 {
            0.0
        } else {
            v - 360.0
        }
    } else if v >= -360.0 && v < 0.0 {
        let r = v + 360.0;
        if r >= 360.0 {
            0.0
        } else {
            r
        }
    } else if v.is_finite() {
        let r: f64 = kani::any();
        kani::assume(r >= 0.0 && r < 360.0);
        r
    } else {
        // NaN and infinities give NaN
        f64::NAN
    }
}
