//! Reference models, written independently of rsass (CSS Values and Units 4,
//! Sass documentation).  Nothing here calls into rsass except to *construct*
//! the `Unit` enum values that are handed to the code under test.
use rsass::value::Unit;

/// Number of unit indices: 28 named units, unitless, two unknown units.
pub const N_UNITS: u8 = 31;
pub const IDX_NONE: u8 = 28;

/// Index -> unit under test.
pub fn unit(i: u8) -> Unit {
    match i {
        0 => Unit::Em,
        1 => Unit::Ex,
        2 => Unit::Ch,
        3 => Unit::Rem,
        4 => Unit::Vw,
        5 => Unit::Vh,
        6 => Unit::Vmin,
        7 => Unit::Vmax,
        8 => Unit::Cm,
        9 => Unit::Mm,
        10 => Unit::Q,
        11 => Unit::In,
        12 => Unit::Pt,
        13 => Unit::Pc,
        14 => Unit::Px,
        15 => Unit::Deg,
        16 => Unit::Grad,
        17 => Unit::Rad,
        18 => Unit::Turn,
        19 => Unit::S,
        20 => Unit::Ms,
        21 => Unit::Hz,
        22 => Unit::Khz,
        23 => Unit::Dpi,
        24 => Unit::Dpcm,
        25 => Unit::Dppx,
        26 => Unit::Percent,
        27 => Unit::Fr,
        28 => Unit::None,
        29 => Unit::Unknown(String::from("x")),
        _ => Unit::Unknown(String::from("y")),
    }
}

/// CSS groups of mutually convertible units (0 = not convertible to
/// anything but itself).
pub fn group(i: u8) -> u8 {
    match i {
        8..=14 => 1,  // absolute lengths
        15..=18 => 2, // angles
        19..=20 => 3, // times
        21..=22 => 4, // frequencies
        23..=25 => 5, // resolutions
        _ => 0,
    }
}

/// How many canonical units (px, deg, s, Hz, dppx) one of this unit is,
/// per CSS Values and Units 4.
pub fn canonical(i: u8) -> f64 {
    match i {
        8 => 96.0 / 2.54,    // cm
        9 => 96.0 / 25.4,    // mm
        10 => 96.0 / 101.6,  // Q
        11 => 96.0,          // in
        12 => 96.0 / 72.0,   // pt
        13 => 16.0,          // pc
        14 => 1.0,           // px
        15 => 1.0,           // deg
        16 => 0.9,           // grad
        17 => 180.0 / std::f64::consts::PI, // rad
        18 => 360.0,         // turn
        19 => 1.0,           // s
        20 => 0.001,         // ms
        21 => 1.0,           // Hz
        22 => 1000.0,        // kHz
        23 => 1.0 / 96.0,    // dpi
        24 => 2.54 / 96.0,   // dpcm
        25 => 1.0,           // dppx
        _ => 1.0,
    }
}

/// The regions of the recorded C11 finding: unit pairs that rsass converts
/// with invented ratios although CSS fixes none.
pub fn c11_invented_ratio_pair(i: u8, j: u8) -> bool {
    let em = |k: u8| k <= 2; // em, ex, ch
    let vx = |k: u8| k == 6 || k == 7; // vmin, vmax
    let nn = |k: u8| (26..=28).contains(&k); // %, fr, unitless
    i != j && ((em(i) && em(j)) || (vx(i) && vx(j)) || (nn(i) && nn(j)))
}

/// |a - b| <= rel * max(|a|, |b|)
pub fn close(a: f64, b: f64, rel: f64) -> bool {
    let d = (a - b).abs();
    let m = if a.abs() > b.abs() { a.abs() } else { b.abs() };
    d <= rel * m
}
