//! Reference models, written independently of rsass.
