//! Proof harnesses over the real rsass code (path dependency on /repo/rsass).
//!
//! Every harness body is a generic function over [`Src`]: under `cfg(kani)`
//! the inputs are `kani::any()` (symbolic, decided by CBMC), natively they
//! are read from the byte vectors of a Kani concrete playback, so the very
//! same body replays a solver counterexample against the real build.
#![allow(clippy::all)]

pub mod src;
pub use src::{ByteSrc, Src};

/// `cover!(cond, "label")`: reachability witness (Kani only).
#[macro_export]
macro_rules! cover {
    ($cond:expr, $label:literal) => {
        #[cfg(kani)]
        kani::cover!($cond, $label);
        #[cfg(not(kani))]
        {
            let _ = &$cond;
        }
    };
}

/// `check!(cond, "label")`: the property assertion.  Under Kani the label is
/// the check description; natively a false condition panics with the label.
#[macro_export]
macro_rules! check {
    ($cond:expr, $label:literal) => {
        #[cfg(kani)]
        kani::assert($cond, $label);
        #[cfg(not(kani))]
        {
            // native replay: record every violated label and carry on, so one
            // witness can confirm several failing checks
            if !($cond) {
                $crate::src::note_failure($label);
            }
        }
    };
}

/// `known!(s, "finding-id", region)`: when the build carries
/// the cargo feature `exclude_known` the region of a *recorded genuine defect* is
/// assumed away so that the rest of the input space is still decided.
/// Without the feature (first pass, and every native replay) it does nothing.
#[macro_export]
macro_rules! known {
    ($s:expr, $id:literal, $region:expr) => {
        if cfg!(feature = "exclude_known") {
            $s.assume(!($region));
        }
    };
}

/// Declares harnesses: a generic body, a `#[kani::proof]` wrapper and an
/// entry in the module's `LIST` used by the native replayer.
///
/// `[unwind n]` is mandatory.  An optional `[stub_deg_mod]` replaces rsass's
/// private `deg_mod` by [`stubs::deg_mod_exact`] for the Kani run only (Kani
/// models float `%` nondeterministically); E2 proves the real `deg_mod`
/// bit-equal to that stub on its exact range (see DESIGN 2.3).
#[macro_export]
macro_rules! harnesses {
    ($( $(#[doc = $doc:literal])* fn $name:ident [unwind $n:literal] $([$stub:ident])? ($s:ident) $body:block )*) => {
        $(
            $(#[doc = $doc])*
            pub fn $name<S: $crate::Src>($s: &mut S) $body
        )*
        #[cfg(kani)]
        mod kani_proofs {
            $(
                $crate::kani_wrapper!($name, $n $(, $stub)?);
            )*
        }
        pub const LIST: &[(&str, fn(&mut $crate::ByteSrc))] = &[
            $( (stringify!($name), $name::<$crate::ByteSrc>), )*
        ];
    };
}

#[macro_export]
macro_rules! kani_wrapper {
    ($name:ident, $n:literal) => {
        #[kani::proof]
        #[kani::unwind($n)]
        fn $name() {
            super::$name(&mut $crate::src::KaniSrc);
        }
    };
    ($name:ident, $n:literal, stub_deg_mod) => {
        #[kani::proof]
        #[kani::unwind($n)]
        #[kani::stub(rsass::value::colors::hsla::deg_mod, $crate::stubs::deg_mod_exact)]
        fn $name() {
            super::$name(&mut $crate::src::KaniSrc);
        }
    };
}

pub mod stubs;
pub mod oracle;
pub mod c11;
pub mod c12;
pub mod c13;
pub mod c01;
pub mod c14;
pub mod c17;
pub mod c29;
pub mod c31;
pub mod c32;

pub fn registry() -> Vec<(&'static str, fn(&mut ByteSrc))> {
    let mut v = Vec::new();
    v.extend_from_slice(c11::LIST);
    v.extend_from_slice(c12::LIST);
    v.extend_from_slice(c13::LIST);
    v.extend_from_slice(c17::LIST);
    v.extend_from_slice(c29::LIST);
    v.extend_from_slice(c01::LIST);
    v.extend_from_slice(c14::LIST);
    v.extend_from_slice(c31::LIST);
    v.extend_from_slice(c32::LIST);
    v
}
