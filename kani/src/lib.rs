//! Proof harnesses over the real rsass code (path dependency on /repo/rsass).
//!
//! Every harness body is a generic function over [`Src`]: under `cfg(kani)`
//! the inputs are `kani::any()` (symbolic, decided by CBMC), natively they
//! are read from the byte vectors of a Kani concrete playback, so the very
//! same body replays a solver counterexample against the real build.
#![allow(clippy::all)]

pub mod src;
pub use src::{ByteSrc, Src};

/// `cover!(cond, "label")`: reachability witness (Kani only).
#[macro_export]
macro_rules! cover {
    ($cond:expr, $label:literal) => {
        #[cfg(kani)]
        kani::cover!($cond, $label);
        #[cfg(not(kani))]
        {
            let _ = &$cond;
        }
    };
}

/// `check!(cond, "label")`: the property assertion.  Under Kani the label is
/// the check description; natively a false condition panics with the label.
#[macro_export]
macro_rules! check {
    ($cond:expr, $label:literal) => {
        #[cfg(kani)]
        kani::assert($cond, $label);
        #[cfg(not(kani))]
        {
            if !($cond) {
                panic!("{}", $label);
            }
        }
    };
}

/// `known!(s, "finding-id", region)`: when the build carries
/// the cargo feature `exclude_known` the region of a *recorded genuine defect* is
/// assumed away so that the rest of the input space is still decided.
/// Without the feature (first pass, and every native replay) it does nothing.
#[macro_export]
macro_rules! known {
    ($s:expr, $id:literal, $region:expr) => {
        if cfg!(feature = "exclude_known") {
            $s.assume(!($region));
        }
    };
}

/// Declares harnesses: a generic body, a `#[kani::proof]` wrapper and an
/// entry in the module's `LIST` used by the native replayer.
#[macro_export]
macro_rules! harnesses {
    ($( $(#[doc = $doc:literal])* fn $name:ident [unwind $n:literal] ($s:ident) $body:block )*) => {
        $(
            $(#[doc = $doc])*
            pub fn $name<S: $crate::Src>($s: &mut S) $body
        )*
        #[cfg(kani)]
        mod kani_proofs {
            $(
                #[kani::proof]
                #[kani::unwind($n)]
                fn $name() {
                    super::$name(&mut $crate::src::KaniSrc);
                }
            )*
        }
        pub const LIST: &[(&str, fn(&mut $crate::ByteSrc))] = &[
            $( (stringify!($name), $name::<$crate::ByteSrc>), )*
        ];
    };
}

pub mod oracle;
pub mod c12;

pub fn registry() -> Vec<(&'static str, fn(&mut ByteSrc))> {
    let mut v = Vec::new();
    v.extend_from_slice(c12::LIST);
    v
}
