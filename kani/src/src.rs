//! Input sources for harness bodies.

pub trait Src {
    fn f64(&mut self) -> f64;
    fn u8(&mut self) -> u8;
    fn i8(&mut self) -> i8;
    fn i64(&mut self) -> i64;
    fn u64(&mut self) -> u64;
    fn usize(&mut self) -> usize;
    fn bool(&mut self) -> bool;
    /// Restrict the inputs (a harness precondition).
    fn assume(&mut self, cond: bool);
    /// A value in `0..n` (one `u8` draw).
    fn below(&mut self, n: u8) -> u8 {
        let v = self.u8();
        self.assume(v < n);
        v
    }
    /// A non-NaN f64.
    fn num(&mut self) -> f64 {
        let v = self.f64();
        self.assume(!v.is_nan());
        v
    }
    /// A finite f64.
    fn finite(&mut self) -> f64 {
        let v = self.f64();
        self.assume(v.is_finite());
        v
    }
}

#[cfg(kani)]
pub struct KaniSrc;
#[cfg(kani)]
impl Src for KaniSrc {
    fn f64(&mut self) -> f64 {
        kani::any()
    }
    fn u8(&mut self) -> u8 {
        kani::any()
    }
    fn i8(&mut self) -> i8 {
        kani::any()
    }
    fn i64(&mut self) -> i64 {
        kani::any()
    }
    fn u64(&mut self) -> u64 {
        kani::any()
    }
    fn usize(&mut self) -> usize {
        kani::any()
    }
    fn bool(&mut self) -> bool {
        kani::any()
    }
    fn assume(&mut self, cond: bool) {
        kani::assume(cond);
    }
}

/// Native source: consumes the byte vectors of a Kani concrete playback,
/// one vector per `kani::any()` call, in call order.
pub struct ByteSrc {
    vals: Vec<Vec<u8>>,
    pos: usize,
    /// Set when an `assume` was false: the witness does not satisfy the
    /// harness precondition (the replay is then void, not a reproduction).
    pub assume_failed: bool,
}

/// Payload of the panic raised when a replayed witness violates an `assume`.
pub struct AssumeFailed;

impl ByteSrc {
    pub fn new(vals: Vec<Vec<u8>>) -> Self {
        Self {
            vals,
            pos: 0,
            assume_failed: false,
        }
    }
    fn take<const N: usize>(&mut self) -> [u8; N] {
        let mut out = [0u8; N];
        if let Some(v) = self.vals.get(self.pos) {
            for (o, b) in out.iter_mut().zip(v.iter()) {
                *o = *b;
            }
        }
        self.pos += 1;
        out
    }
    pub fn consumed(&self) -> usize {
        self.pos
    }
}

impl Src for ByteSrc {
    fn f64(&mut self) -> f64 {
        f64::from_le_bytes(self.take::<8>())
    }
    fn u8(&mut self) -> u8 {
        self.take::<1>()[0]
    }
    fn i8(&mut self) -> i8 {
        self.take::<1>()[0] as i8
    }
    fn i64(&mut self) -> i64 {
        i64::from_le_bytes(self.take::<8>())
    }
    fn u64(&mut self) -> u64 {
        u64::from_le_bytes(self.take::<8>())
    }
    fn usize(&mut self) -> usize {
        usize::from_le_bytes(self.take::<8>())
    }
    fn bool(&mut self) -> bool {
        self.take::<1>()[0] != 0
    }
    fn assume(&mut self, cond: bool) {
        if !cond {
            self.assume_failed = true;
            std::panic::panic_any(AssumeFailed);
        }
    }
}

thread_local! {
    static FAILED: std::cell::RefCell<Vec<&'static str>> = const { std::cell::RefCell::new(Vec::new()) };
}
/// Native replay: a `check!` was violated.
pub fn note_failure(label: &'static str) {
    FAILED.with(|f| f.borrow_mut().push(label));
}
/// Native replay: the labels of all violated `check!`s so far.
pub fn take_failures() -> Vec<&'static str> {
    FAILED.with(|f| std::mem::take(&mut *f.borrow_mut()))
}
