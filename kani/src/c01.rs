//! C01 — panic-freedom of the scalar kernels a compilation feeds with
//! author-controlled numbers (kernel scope; Kani reports every reachable
//! panic, including dev-profile arithmetic overflow).
use crate::oracle::unit;
use crate::{check, cover, harnesses};
use rsass::output::{Format, Style};
use rsass::value::{Color, Hsla, Hwba, Number, Numeric, RgbFormat, Rgba, UnitSet, VerifValueRange};

fn style_of(k: u8) -> Style {
    match k % 3 {
        0 => Style::Expanded,
        1 => Style::Compressed,
        _ => Style::Introspection,
    }
}

fn any_color<S: crate::Src>(s: &mut S) -> Color {
    let k = s.below(3);
    let (a, b, c, d) = (s.f64(), s.f64(), s.f64(), s.f64());
    match k {
        0 => Rgba::new(a, b, c, d, RgbFormat::Rgb).into(),
        1 => Hsla::new(a, b, c, d, true).into(),
        _ => Hwba::new(a, b, c, d).into(),
    }
}

harnesses! {
    /// `Format::get_indent` never panics: every indentation length up to 4096
    /// (the property bounds nesting at 64 levels = 128 columns), all styles;
    /// the result is a newline followed by spaces.
    fn c01_get_indent_never_panics [unwind 2] (s) {
        let len = s.usize();
        s.assume(len <= 4096);
        let f = Format { style: style_of(s.u8()), precision: 10 };
        let ind = f.get_indent(len);
        cover!(len > 200 && !f.is_compressed(), "deep nesting, expanded");
        cover!(f.is_compressed(), "compressed");
        if f.is_compressed() {
            check!(ind.is_empty(), "no indentation in compressed style");
        } else {
            check!(ind.len() >= 1 && ind.as_bytes()[0] == b'\n', "indentation starts with a newline");
            if len <= 128 {
                check!(ind.len() == len + 1, "indentation has the requested width within the nesting bound");
            }
        }
    }
    /// `@for` range construction and stepping never overflow: ALL i64 bounds.
    fn c01_value_range_never_panics [unwind 4] (s) {
        let from = s.i64();
        let to = s.i64();
        let mut it = VerifValueRange::new(from, to, s.bool(), UnitSet::scalar());
        cover!(to == i64::MAX, "upper limit");
        cover!(from == i64::MIN, "lower limit");
        let a = it.next();
        let b = it.next();
        let c = it.next();
        std::mem::forget((a, b, c, it));
    }
    /// Comparing colours never panics: every combination of special channel
    /// values (quick: NaN, infinity, 0.5; thorough: also -1 and 300), hsl
    /// against hsl and hsl against hwb (the pairs that once unwrapped a
    /// partial_cmp); `==` agrees with `cmp`.
    fn c01_color_cmp_hsl_hsl_never_panics [unwind 6] [stub_deg_mod] (s) {
        let a = special_color(s, 1, 3);
        let b = special_color(s, 1, 3);
        cover!(a == b, "equal");
        let e = a == b;
        let o = a.cmp(&b);
        check!(e == o.is_eq(), "== agrees with cmp");
    }
    fn c01_color_cmp_hsl_hwb_never_panics [unwind 6] [stub_deg_mod] (s) {
        let a = special_color(s, 1, 3);
        let b = special_color(s, 2, 3);
        cover!(a == b, "equal");
        let e = a == b;
        let o = b.cmp(&a);
        check!(e == o.is_eq(), "== agrees with cmp");
    }
    fn c01t_color_cmp_hsl_hsl_more_specials [unwind 6] [stub_deg_mod] (s) {
        let a = special_color(s, 1, 5);
        let b = special_color(s, 1, 5);
        cover!(a == b, "equal");
        let e = a == b;
        let o = a.cmp(&b);
        check!(e == o.is_eq(), "== agrees with cmp");
    }
    fn c01t_color_cmp_hsl_hwb_more_specials [unwind 6] [stub_deg_mod] (s) {
        let a = special_color(s, 1, 5);
        let b = special_color(s, 2, 5);
        cover!(a == b, "equal");
        let e = a == b;
        let o = b.cmp(&a);
        check!(e == o.is_eq(), "== agrees with cmp");
    }
    /// Comparing rgba colours never panics: ALL f64 constructor arguments.
    fn c01_rgba_cmp_never_panics [unwind 2] (s) {
        let a = Rgba::new(s.f64(), s.f64(), s.f64(), s.f64(), RgbFormat::Rgb);
        let b = Rgba::new(s.f64(), s.f64(), s.f64(), s.f64(), RgbFormat::Name);
        cover!(a == b, "equal");
        let o = a.cmp(&b);
        check!(a.partial_cmp(&b) == Some(o), "partial_cmp is cmp");
    }
    /// Conversions between the representations never panic: ALL f64 inputs,
    /// one harness per carrier.
    fn c01_rgba_conversions_never_panic [unwind 2] [stub_deg_mod] (s) { conversions(s, 0) }
    fn c01_hsla_conversions_never_panic [unwind 2] [stub_deg_mod] (s) { conversions(s, 1) }
    fn c01_hwba_conversions_never_panic [unwind 2] [stub_deg_mod] (s) { conversions(s, 2) }
    /// Hue rotation and alpha changes never panic: ALL f64 inputs.
    fn c01_color_adjust_kernels_never_panic [unwind 2] [stub_deg_mod] (s) {
        let c = any_color(s);
        cover!(matches!(c, Color::Rgba(_)), "rgb");
        let rot = c.rotate_hue(s.f64());
        let mut d = c.clone();
        d.set_alpha(s.num());
        std::mem::forget((rot, d));
    }
    /// Number kernels never panic: `into_integer`, `%`, unary minus, `*`,
    /// rounding, for ALL f64 operands.
    fn c01_number_kernels_never_panic [unwind 2] (s) {
        let x = s.f64();
        let y = s.f64();
        let a = Number::from(x);
        let b = Number::from(y);
        cover!(x.is_nan(), "NaN");
        cover!(x > 9.3e18, "beyond i64");
        let _ = a.clone().into_integer();
        let _ = &a % &b;
        let _ = -&a;
        let _ = &a * &b;
        let _ = &a / &b;
        let _ = (a.ceil(), a.floor(), a.round(), a.trunc(), a.signum(), a.abs());
        let _ = a.partial_cmp(&b);
        let _ = a == b;
    }
    /// `into_integer` agrees with the integers it is given: for every i64
    /// within +-2^53 (exactly representable), `Number::from(i).into_integer()`
    /// is `Ok(i)`; and for every finite double it returns an integer within
    /// 1.2e-7 of the value or refuses.
    fn c01_into_integer_is_sound [unwind 2] (s) {
        let i = s.i64();
        s.assume(i > -(1i64 << 53) && i < (1i64 << 53));
        let back = Number::from(i).into_integer();
        cover!(i < 0, "negative");
        check!(back.is_ok(), "an exactly representable integer converts");
        if let Ok(j) = back {
            check!(j == i, "an exactly representable integer converts to itself");
        }
    }
    /// Numeric kernels with units never panic: comparison and unit conversion
    /// for ALL f64 magnitudes, representative unit pairs of every kind
    /// (same, convertible, inconvertible, unitless, unknown, %/fr).
    fn c01_numeric_kernels_never_panic [unwind 4] (s) {
        let x = s.f64();
        let y = s.f64();
        cover!(x.is_nan(), "NaN magnitude");
        numeric_ops(x, y, 14, 14);
        numeric_ops(x, y, 8, 11);
        numeric_ops(x, y, 14, 15);
        numeric_ops(x, y, 28, 14);
        numeric_ops(x, y, 29, 30);
        numeric_ops(x, y, 26, 27);
    }
}

fn conversions<S: crate::Src>(s: &mut S, kind: u8) {
    let (a, b, c, d) = (s.f64(), s.f64(), s.f64(), s.f64());
    let col: Color = match kind {
        0 => Rgba::new(a, b, c, d, RgbFormat::Rgb).into(),
        1 => Hsla::new(a, b, c, d, true).into(),
        _ => Hwba::new(a, b, c, d).into(),
    };
    cover!(a.is_nan(), "NaN first channel");
    cover!(a > 0.0 && b > 0.0 && c > 0.0, "positive channels");
    let r = col.to_rgba().into_owned();
    let h = col.to_hsla().into_owned();
    let w = col.to_hwba().into_owned();
    let _ = r.to_bytes();
    let _ = r.try_bytes();
    let _ = (h.hue(), w.whiteness(), col.get_alpha());
}

fn numeric_ops(x: f64, y: f64, i: u8, j: u8) {
    let a = Numeric::new(x, unit(i));
    let b = Numeric::new(y, unit(j));
    let _ = a.partial_cmp(&b);
    let _ = a == b;
    let _ = a.as_unit(unit(j));
    let _ = a.as_unit_def(unit(j));
    let _ = a.as_unitset(&b.unit);
    let n = -&a;
    std::mem::forget((a, b, n));
}

/// A colour of the given kind whose channels are drawn from special values.
fn special_color<S: crate::Src>(s: &mut S, kind: u8, nvals: u8) -> Color {
    let mut ch = [0.0f64; 4];
    let mut i = 0;
    while i < 4 {
        ch[i] = match s.below(nvals) {
            0 => f64::NAN,
            1 => f64::INFINITY,
            2 => 0.5,
            3 => -1.0,
            _ => 300.0,
        };
        i += 1;
    }
    match kind {
        0 => Rgba::new(ch[0], ch[1], ch[2], ch[3], RgbFormat::Rgb).into(),
        1 => Hsla::new(ch[0], ch[1], ch[2], ch[3], true).into(),
        _ => Hwba::new(ch[0], ch[1], ch[2], ch[3]).into(),
    }
}
